"""Runtime ownership audit of the public transformations (C16): deep fingerprints of arguments, identity-sharing between
arguments and results (references are kept alive so that ids cannot be recycled), destructive edits of results."""
from __future__ import annotations

import re
import numpy as np


def fp_op(op):
    d = [op.name, getattr(op, "label", None), [(p.tolist() if isinstance(p, np.ndarray) else repr(p)) for p in op.params]]
    if hasattr(op, "basis"):
        d += [op.basis_id, fp_basis(op.basis)]
    if hasattr(op, "qubit_id"):
        d.append(op.qubit_id)
    return repr(d)


def fp_basis(b):
    # coefficients, the derived probabilities (bit for bit: they are stored, not recomputed) and the maps
    return repr([[float(c) for c in b.coeffs], [float(p).hex() for p in b.probabilities], float(b.kappa).hex(),
                 [[[fp_op(o) for o in side] for side in m] for m in b.maps]])


def fp(x):
    from qiskit.circuit import QuantumCircuit
    from qiskit.quantum_info import PauliList
    from qiskit_addon_cutting.qpd import QPDBasis
    if isinstance(x, QuantumCircuit):
        # quantum register names are left out: Qiskit auto-numbers unnamed registers with a process-global counter
        return repr([x.num_qubits, x.num_clbits, [r.size for r in x.qregs], [r.name for r in x.cregs], repr(x.metadata), x.name if not x.name.startswith("circuit-") else None,
                     [(fp_op(i.operation), [x.find_bit(q).index for q in i.qubits], [x.find_bit(c).index for c in i.clbits]) for i in x.data]])
    if isinstance(x, PauliList):
        return repr([x.z.tolist(), x.x.tolist(), x.phase.tolist()])
    if isinstance(x, QPDBasis):
        return fp_basis(x)
    if isinstance(x, dict):
        return repr({repr(k): fp(v) for k, v in x.items()})
    if isinstance(x, (list, tuple)):
        return repr([fp(v) for v in x])
    if hasattr(x, "subcircuits") and hasattr(x, "bases"):
        return repr([fp(x.subcircuits), fp(list(x.bases)), None if x.subobservables is None else fp(x.subobservables)])
    if hasattr(x, "quasi_dists"):
        return repr([dict(q) for q in x.quasi_dists])
    # SamplerV2 result objects: their repr shows shapes only, the content is in the byte arrays of the registers
    from qiskit.primitives import PrimitiveResult, PubResult, DataBin, BitArray
    if isinstance(x, PrimitiveResult):
        return repr(["PrimitiveResult", [fp(p) for p in x], repr(x.metadata)])
    if isinstance(x, PubResult):
        return repr(["PubResult", fp(x.data), repr(x.metadata)])
    if isinstance(x, DataBin):
        return repr(["DataBin", repr(x.shape), [(k, fp(v)) for k, v in x.items()]])
    if isinstance(x, BitArray):
        return repr(["BitArray", x.num_bits, fp(x.array)])
    if isinstance(x, np.ndarray):
        return repr(["ndarray", x.shape, x.dtype.str, x.tobytes().hex() if x.dtype != object else repr(x.tolist())])
    return repr(x)


def fp_defs(x):
    """Fingerprint of the DEFINITIONS of the Python-side operations with unbound parameters in the circuits reachable from x (a composite
    gate from to_gate()/to_instruction(), a controlled composite, an evolution gate with a symbolic time...): `fp` shows their parameter
    list only, but binding such an operation in place rewrites its parameter list AND its definition.  Only symbolic operations are
    descended into (through the public `.definition`, so that a lazily built definition reads the same before and after): whether some
    other operation has its definition cached yet is not a property of the circuit."""
    from qiskit.circuit import QuantumCircuit, ParameterExpression

    def op_def(op, depth=0):
        d = [op.name, [repr(p) for p in op.params]]
        if depth < 6 and getattr(op, "_standard_gate", None) is None and any(isinstance(p, ParameterExpression) for p in op.params):
            try:
                body = op.definition
            except Exception as ex:  # a definition that cannot be built is a fact about the operation, too
                body = None
                d.append("no definition: " + type(ex).__name__)
            if body is not None:
                d.append([(op_def(i.operation, depth + 1), [body.find_bit(q).index for q in i.qubits]) for i in body.data])
        return d
    if isinstance(x, QuantumCircuit):
        return repr([op_def(i.operation) for i in x.data])
    if isinstance(x, dict):
        return repr({repr(k): fp_defs(v) for k, v in x.items()})
    if isinstance(x, (list, tuple)):
        return repr([fp_defs(v) for v in x])
    if hasattr(x, "subcircuits") and hasattr(x, "bases"):
        return fp_defs(x.subcircuits)
    return ""


def mutables(x, acc, keep, path="$", allp=None):
    """id -> path of the mutable Python objects reachable from x (objects are appended to `keep` so that they stay alive);
    `allp`, if given, receives every path under which an object is reachable (id -> [paths])"""
    from qiskit.circuit import QuantumCircuit, Instruction
    from qiskit.quantum_info import PauliList
    from qiskit_addon_cutting.qpd import QPDBasis

    def note(o, p):
        keep.append(o)
        acc.setdefault(id(o), p)
        if allp is not None:
            allp.setdefault(id(o), []).append(p)
    if isinstance(x, QuantumCircuit):
        note(x, path)
        if isinstance(x.metadata, dict) and x.metadata:
            note(x.metadata, path + ".metadata")
            for mk, mv in x.metadata.items():
                if isinstance(mv, (list, dict)):
                    note(mv, path + ".metadata[%r]" % (mk,))
        for k, i in enumerate(x.data):
            mutables(i.operation, acc, keep, path + ".data[%d].op" % k, allp)
    elif isinstance(x, Instruction):
        keep.append(x)
        if hasattr(x, "basis"):
            note(x, path)
            mutables(x.basis, acc, keep, path + ".basis", allp)
        elif getattr(x, "mutable", True):
            if x.params:
                note(x, path)
            for j, p in enumerate(x.params):
                if isinstance(p, np.ndarray):
                    note(p, path + ".params[%d]" % j)
    elif isinstance(x, QPDBasis):
        note(x, path)
        note(x.maps, path + ".maps")
        if isinstance(x.coeffs, list):
            note(x.coeffs, path + ".coeffs")
        for a, m in enumerate(x.maps):
            for s, side in enumerate(m):
                if isinstance(side, list):
                    note(side, path + ".maps[%d][%d]" % (a, s))
                for o, op in enumerate(side):
                    mutables(op, acc, keep, path + ".maps[%d][%d][%d]" % (a, s, o), allp)
    elif isinstance(x, PauliList):
        note(x, path)
    elif isinstance(x, dict):
        note(x, path)
        for k, v in x.items():
            mutables(v, acc, keep, path + "[%r]" % (k,), allp)
    elif isinstance(x, (list, tuple)):
        if isinstance(x, list):
            note(x, path)
        for k, v in enumerate(x):
            mutables(v, acc, keep, path + "[%d]" % k, allp)
    elif hasattr(x, "subcircuits") and hasattr(x, "bases"):
        mutables(x.subcircuits, acc, keep, path + ".subcircuits", allp)
        mutables(list(x.bases), acc, keep, path + ".bases", allp)
        if x.subobservables is not None:
            mutables(x.subobservables, acc, keep, path + ".subobservables", allp)


def pauli_arrays(x, path="$"):
    """(path, ndarray) for the symplectic arrays of every PauliList reachable from x (memory sharing is not object identity)"""
    from qiskit.quantum_info import PauliList
    out = []
    if isinstance(x, PauliList):
        out += [(path + ".z", x.z), (path + ".x", x.x), (path + ".phase", x.phase)]
    elif isinstance(x, dict):
        for k, v in x.items():
            out += pauli_arrays(v, path + "[%r]" % (k,))
    elif isinstance(x, (list, tuple)):
        for k, v in enumerate(x):
            out += pauli_arrays(v, path + "[%d]" % k)
    elif hasattr(x, "subobservables") and x.subobservables is not None:
        out += pauli_arrays(x.subobservables, path + ".subobservables")
    return out


def norm(p):
    return re.sub(r"\[[^\]]*\]", "[]", p)


def classify(out_path, in_path):
    """sharing class of one identical object (S1..S4 of DESIGN.md section 3, or 'other')"""
    o, i = norm(out_path), norm(in_path)
    if i.endswith(".op.params[]") and "maps" not in i and o.endswith(".params[]"):
        return "S2"  # payload ndarray of an input gate (Qiskit's shallow operation copy)
    if ".basis.maps[][][]" in i and ".basis" not in o:
        return "S3"  # operations of the input bases' maps reused as subexperiment operations (or their payloads)
    if ".basis" in i and ".basis" in o:
        return "S1"  # basis object (and everything inside it) of a pre-placed placeholder
    if i.endswith(".op") and o.endswith(".op") and ".basis" not in i and ".basis" not in o:
        return "S4"  # whole (non-standard, Python-side) operation object appended again
    return "other:" + o + "<-" + i


def shared_classes(ina, outa, outall):
    """{class: (out path, in path, [ids])} of the objects reachable from both the arguments and the result.  Class S1 (the basis of a
    pre-placed placeholder) covers the parts of a basis only where the enclosing basis object itself is the caller's: a coefficient
    list or map list that is shared although the basis around it is a different object is its own class."""
    by_path = {p: i for i, ps in outall.items() for p in ps}
    classes = {}
    for i, op in outa.items():
        if i not in ina:
            continue
        c = classify(op, ina[i])
        if c == "S1":
            for q in outall.get(i, [op]):
                if ".basis" in q:
                    parent = by_path.get(q[: q.rindex(".basis") + len(".basis")])
                    if parent is not None and parent not in ina:
                        c, op = "other:detached:" + norm(q) + "<-" + norm(ina[i]), q
                        break
        classes.setdefault(c, (op, ina[i], []))[2].append(i)
    return classes


def placeholder_aliases(out, ina, keep):
    """Aliasing between the cut placeholders INSIDE one returned value: [(what, path a, path b, op a, op b)] for every pair of
    instruction slots whose placeholders belong to different cuts but are the same object, or hold the same basis object / map
    list / coefficient list / per-qubit operation list.  Sharing that the caller's arguments already had (`ina`: ids reachable
    from the arguments) is inherited, not created by the call, and is left out; the two halves of ONE cut (single-qubit
    placeholders whose labels carry the same cut id) share their basis by design."""
    from qiskit.circuit import QuantumCircuit
    slots = []

    def walk(x, path):
        if isinstance(x, QuantumCircuit):
            for k, i in enumerate(x.data):
                if hasattr(i.operation, "basis") and hasattr(i.operation, "basis_id"):
                    slots.append((path + ".data[%d].op" % k, i.operation))
        elif isinstance(x, dict):
            for k, v in x.items():
                walk(v, path + "[%r]" % (k,))
        elif isinstance(x, (list, tuple)):
            for k, v in enumerate(x):
                walk(v, path + "[%d]" % k)
        elif hasattr(x, "subcircuits") and hasattr(x, "bases"):
            walk(x.subcircuits, path + ".subcircuits")
    walk(out, "out")

    def cut_key(n, op):
        if hasattr(op, "qubit_id"):  # one half of a cut: "<label>_<cut id>"
            tail = str(op.label).rsplit("_", 1)[-1]
            return ("half", tail) if tail.isdigit() else ("slot", n)
        return ("slot", n)

    def parts(op):
        b = op.basis
        ps = [("the placeholder object", op), ("the basis object", b), ("the list of maps", b.maps)]
        if isinstance(b.coeffs, list):
            ps.append(("the coefficient list", b.coeffs))
        for a, m in enumerate(b.maps):
            for s_, side in enumerate(m):
                if isinstance(side, list):
                    ps.append(("the operation list maps[%d][%d]" % (a, s_), side))
        return ps
    seen, hits = {}, []
    for n, (path, op) in enumerate(slots):
        keep.append(op)
        ck = cut_key(n, op)
        for what, o in parts(op):
            keep.append(o)
            if id(o) in ina:
                continue
            first = seen.setdefault(id(o), (ck, path, op, what))
            if first[0] != ck:
                hits.append((what, first[1], path, first[2], op))
    return hits


def audit(fn, args, keep, changed=None):
    """run fn(*args); returns (result, mutated?, {class: example}); `changed`, if given, receives the indices of the modified arguments"""
    before = [fp(a) for a in args]
    ina = {}
    for k, a in enumerate(args):
        mutables(a, ina, keep, "arg%d" % k)
    out = fn(*args)
    after = [fp(a) for a in args]
    if changed is not None:
        changed.extend(k for k in range(len(args)) if before[k] != after[k])
    outa, outall = {}, {}
    mutables(out, outa, keep, "out", outall)
    classes = {c: v[:2] for c, v in shared_classes(ina, outa, outall).items()}
    # observables: returned Pauli lists must not be numpy views of the caller's (or of each other)
    in_arr = [pa for k, a in enumerate(args) for pa in pauli_arrays(a, "arg%d" % k)]
    out_arr = pauli_arrays(out, "out")
    for po, ao in out_arr:
        for pi, ai in in_arr:
            if ao.size and ai.size and np.shares_memory(ao, ai):
                classes.setdefault("other:view:" + norm(po) + "<-" + norm(pi), (po, pi))
    for a_, (po, ao) in enumerate(out_arr):
        for pb, ab in out_arr[a_ + 1:]:
            if ao.size and ab.size and po.rsplit(".", 1)[0] != pb.rsplit(".", 1)[0] and np.shares_memory(ao, ab):
                classes.setdefault("other:view:" + norm(po) + "<->" + norm(pb), (po, pb))
    return out, before != after, classes
