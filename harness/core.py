"""Generic runner: proof obligations (lake build + axiom audit), correspondence
(tie) between the Lean model and the real code, failing-input search, known
findings, verdict, evidence.  One flow for every property (DESIGN.md section 1.1)."""
from __future__ import annotations

import importlib
import json
import os
import random
import re
import subprocess
import sys
import time
import traceback
import signal
from collections import Counter
from fractions import Fraction
from pathlib import Path

VERIF = Path(__file__).resolve().parent.parent
LEAN = VERIF / "lean"
REPO = Path(os.environ.get("CKT_REPO", "/repo"))
DRIVER = LEAN / ".lake" / "build" / "bin" / "ckt_driver"
ALLOWED_AXIOMS = {"propext", "Classical.choice", "Quot.sound"}
FORBIDDEN = re.compile(r"\bsorry\b|\badmit\b|^\s*axiom\s|native_decide|bv_decide|implemented_by|\bunsafe\s|maxHeartbeats\s+0\b")

TRUSTED_BASE = [
    "Lean 4.33.0 kernel (leanchecker re-check in the thorough tier)",
    "Mathlib v4.33.0 as installed (single-module imports in proof files only)",
    "axioms: propext, Classical.choice, Quot.sound (audited by #print axioms on every run)",
    "hand-written Lean model tied to /repo by differential correspondence (this harness, generators bound its reach)",
    "Qiskit / numpy / rustworkx behaviour is modelled, not verified (contracts listed in DESIGN.md section 5)",
]


class Timeout(Exception):
    pass


def _alarm(signum, frame):
    raise Timeout()


def with_timeout(seconds, fn, *a, **kw):
    old = signal.signal(signal.SIGALRM, _alarm)
    signal.alarm(int(seconds))
    try:
        return fn(*a, **kw)
    finally:
        signal.alarm(0)
        signal.signal(signal.SIGALRM, old)


def frac(x) -> str:
    """Exact canonical string of a number (floats are converted exactly)."""
    if isinstance(x, Fraction):
        f = x
    elif isinstance(x, int):
        f = Fraction(x)
    else:
        f = Fraction(float(x))
    return f"{f.numerator}/{f.denominator}"


def parse_frac(s) -> Fraction:
    if isinstance(s, (int, float)):
        return Fraction(s)
    return Fraction(s)


def strip_comments(src: str) -> str:
    # remove /- ... -/ (nested not handled beyond one level) and -- comments
    out = []
    i = 0
    depth = 0
    n = len(src)
    while i < n:
        if src.startswith("/-", i):
            depth += 1
            i += 2
        elif depth and src.startswith("-/", i):
            depth -= 1
            i += 2
        elif depth:
            i += 1
        elif src.startswith("--", i):
            while i < n and src[i] != "\n":
                i += 1
        else:
            out.append(src[i])
            i += 1
    return "".join(out)


def lean_sources_for(module: str):
    """Transitive closure of CKT.* imports of `module` (files under lean/)."""
    seen = {}
    todo = [module]
    while todo:
        m = todo.pop()
        if m in seen:
            continue
        p = LEAN / (m.replace(".", "/") + ".lean")
        if not p.exists():
            continue
        txt = p.read_text()
        seen[m] = p
        for mm in re.findall(r"^import\s+((?:CKT|Driver)\.[\w.]+)", txt, flags=re.M):
            todo.append(mm)
    return seen


def run_cmd(cmd, cwd=None, timeout=3600, input=None):
    t0 = time.time()
    p = subprocess.run(cmd, cwd=cwd, capture_output=True, text=True, timeout=timeout, input=input)
    return p.returncode, p.stdout, p.stderr, time.time() - t0


class Obligations:
    """lake build of the property module + `#print axioms` audit of every theorem."""

    def __init__(self, prop):
        self.prop = prop
        self.failed = []  # (theorem or stage, reason)
        self.axioms = {}
        self.log = []

    def run(self, tier):
        prop = self.prop
        # 0. regenerate tables from /repo source
        gen_err = None
        if hasattr(prop, "regenerate"):
            try:
                prop.regenerate()
            except Exception as ex:  # translator could not read the source shape
                gen_err = f"translator failed: {type(ex).__name__}: {ex}"
                self.failed.append(("translator", gen_err))
        # 1. build
        targets = [prop.LEAN_MODULE, "ckt_driver"]
        rc, out, err, dt = run_cmd(["lake", "build"] + targets, cwd=LEAN, timeout=3000)
        self.log.append(f"lake build {' '.join(targets)} rc={rc} {dt:.1f}s")
        build_ok = rc == 0
        if not build_ok:
            msg = "\n".join(l for l in (out + err).splitlines() if "error" in l.lower())[:2000]
            self.failed.append(("build", msg or (out + err)[-2000:]))
            # try to build the driver alone so the tie can still run
            rc2, o2, e2, _ = run_cmd(["lake", "build", "ckt_driver"], cwd=LEAN, timeout=3000)
            self.driver_ok = rc2 == 0
        else:
            self.driver_ok = True
        # 2. forbidden tokens
        for m, p in lean_sources_for(prop.LEAN_MODULE).items():
            for ln in strip_comments(p.read_text()).splitlines():
                if FORBIDDEN.search(ln):
                    self.failed.append((m, f"forbidden token in: {ln.strip()[:120]}"))
        # 3. axiom audit
        thms = list(prop.THEOREMS)
        audit = LEAN / "Audit" / f"{prop.ID}.lean"
        audit.parent.mkdir(exist_ok=True)
        audit.write_text(f"import {prop.LEAN_MODULE}\n" + "".join(f"#print axioms {t}\n" for t in thms))
        discharged = []
        if build_ok:
            rc, out, err, dt = run_cmd(["lake", "env", "lean", str(audit)], cwd=LEAN, timeout=1800)
            self.log.append(f"audit rc={rc} {dt:.1f}s")
            text = out + err
            for t in thms:
                m = re.search(r"'" + re.escape(t) + r"' (depends on axioms: \[([^\]]*)\]|does not depend on any axioms)", text, flags=re.S)
                if not m:
                    self.failed.append((t, "theorem missing or audit failed"))
                    continue
                axs = [a.strip() for a in (m.group(2) or "").replace("\n", " ").split(",") if a.strip()]
                self.axioms[t] = axs
                bad = [a for a in axs if a not in ALLOWED_AXIOMS]
                if bad:
                    self.failed.append((t, f"depends on non-allowed axioms {bad}"))
                else:
                    discharged.append(t)
        else:
            for t in thms:
                self.failed.append((t, "module did not build"))
        # 4. thorough: independent re-check of the compiled modules
        if tier == "thorough" and build_ok and os.environ.get("VERIF_SKIP_LEANCHECKER") != "1":
            mods = [m for m in lean_sources_for(prop.LEAN_MODULE) if m.startswith("CKT.")]
            try:
                rc, out, err, dt = run_cmd(["lake", "env", "leanchecker"] + mods, cwd=LEAN, timeout=3000)
                self.log.append(f"leanchecker {len(mods)} modules rc={rc} {dt:.1f}s")
                if rc < 0 or rc in (137, 143):
                    # killed by a signal (out of memory under load): the re-check did not run; like a timeout this is not a verdict
                    self.log.append(f"leanchecker killed (rc={rc}; not counted)")
                elif rc != 0:
                    self.failed.append(("leanchecker", (out + err)[-1500:] or f"exit status {rc} without output"))
            except subprocess.TimeoutExpired:
                self.log.append("leanchecker timed out (not counted)")
        self.obligations = len(thms)
        self.discharged = len(discharged)
        return self


def run_driver(lines):
    """Pipe JSON lines to the Lean driver; return list of parsed outputs."""
    if not lines:
        return []
    inp = "\n".join(json.dumps(l, separators=(",", ":")) for l in lines) + "\n"
    p = subprocess.run([str(DRIVER)], input=inp, capture_output=True, text=True, timeout=3000)
    outs = [json.loads(l) for l in p.stdout.splitlines() if l.strip()]
    if len(outs) != len(lines):
        raise RuntimeError(f"driver returned {len(outs)} lines for {len(lines)} inputs; stderr={p.stderr[-500:]}")
    return outs


def call_real(fn, payload, timeout=120):
    """Run real code; map exceptions to the small error enum."""
    try:
        return with_timeout(timeout, fn, payload)
    except Timeout:
        return {"error": "Timeout"}
    except ValueError as ex:
        return {"error": "ValueError"}
    except Exception as ex:  # noqa
        return {"error": "Other:" + type(ex).__name__}


def load_known_findings():
    p = VERIF / "KNOWN_FINDINGS.json"
    if not p.exists():
        return []
    return json.loads(p.read_text()).get("findings", [])


EVID_DIR = Path(os.environ.get("VERIF_EVIDENCE_DIR") or (VERIF / "evidence"))
REPLAY_DIR = Path(os.environ.get("VERIF_REPLAY_DIR") or (VERIF / "replays"))


def write_replay(pid, obj):
    d = REPLAY_DIR / pid
    d.mkdir(parents=True, exist_ok=True)
    n = len(list(d.glob("*.json")))
    p = d / f"{n:04d}.json"
    p.write_text(json.dumps(obj, indent=1, default=str))
    try:
        return p.relative_to(VERIF)
    except ValueError:
        return p


def main(argv=None):
    import argparse

    ap = argparse.ArgumentParser()
    ap.add_argument("pid")
    ap.add_argument("--tier", default=os.environ.get("VERIF_TIER", "quick"), choices=["quick", "thorough"])
    ap.add_argument("--replay")
    ap.add_argument("--no-build", action="store_true")
    args = ap.parse_args(argv)
    pid = args.pid.upper()
    seed = int(os.environ.get("VERIF_SEED", "0") or 0)
    t0 = time.time()
    sys.path.insert(0, str(VERIF))
    prop = importlib.import_module(f"harness.props.{pid.lower()}")

    if args.replay:
        rp = json.loads(Path(args.replay).read_text())
        payload = rp.get("payload")
        if payload is None:
            print(f"replay names a broken obligation, no input: {rp.get('what')}")
            return 1
        msg = call_oracle(prop, rp.get("kind", "case"), payload)
        print("oracle on replayed input:", msg or "property holds")
        return 1 if msg else 0

    rng = random.Random(seed * 1000003 + hash_id(pid))
    # ---- 1. proof obligations
    ob = Obligations(prop).run(args.tier)
    # ---- 2. correspondence
    tie = Tie(prop, rng, args.tier, seed)
    if ob.driver_ok:
        tie.run()
    else:
        tie.broken = "driver did not build"
    # ---- 3. search / verdict
    violations = []  # (replay_path, suffix)
    known = [k for k in load_known_findings() if k.get("property") == pid and k.get("status") != "fixed"]
    known_hit = []

    def report(kind, payload, what, found_input=True):
        # known finding?
        for k in known:
            if hasattr(prop, "matches_known") and payload is not None and prop.matches_known(k, kind, payload, what):
                if k["id"] not in [x["id"] for x in known_hit]:
                    known_hit.append(k)
                return
        if len(violations) >= 5:
            violations.append((violations[-1][0], ""))
            return
        rp = write_replay(pid, {"property": pid, "kind": kind, "payload": payload, "what": what,
                                "seed": seed, "tier": args.tier})
        violations.append((rp, "" if found_input else " no-failing-input-found"))

    # oracle on every tie case flagged + the routine sample
    oracle_hits = tie.oracle_hits
    for kind, payload, msg in oracle_hits:
        report(kind, payload, msg)
    broken = []
    if ob.failed:
        broken.append("obligations: " + "; ".join(f"{t}: {r[:200]}" for t, r in ob.failed[:5]))
    if tie.broken:
        broken.append("tie: " + tie.broken)
    if tie.disagreements:
        broken.append(f"tie: {len(tie.disagreements)} disagreement(s)")
    if broken and not violations:
        # search harder for a concrete failing input
        found = tie.search(budget=(600 if args.tier == "quick" else 3000))
        for kind, payload, msg in found:
            report(kind, payload, msg)
        if not violations:
            first = tie.disagreements[0] if tie.disagreements else None
            rp = write_replay(pid, {"property": pid, "kind": "broken-obligation-or-tie", "payload": None,
                                    "what": broken, "first_disagreement": first, "seed": seed, "tier": args.tier})
            violations.append((rp, " no-failing-input-found"))
    # known findings are re-executed on the real code every run
    for k in known:
        if hasattr(prop, "replay_known"):
            still = call_known(prop, k)
            if still and k["id"] not in [x["id"] for x in known_hit]:
                known_hit.append(k)
    for k in known_hit:
        print(f"KNOWN-FINDING: property={pid} {k['id']}: {k['what']}")
    wall = time.time() - t0
    ev = {
        "property_id": pid, "tier": args.tier, "seed": seed, "level": "proof",
        "coverage": {
            "obligations": ob.obligations, "discharged": ob.discharged,
            "checker_cmd": f"cd lean && lake build {prop.LEAN_MODULE} && lake env lean Audit/{pid}.lean",
            "trusted_base": TRUSTED_BASE + list(getattr(prop, "TRUSTED_EXTRA", [])),
            "theorems": {t: ob.axioms.get(t) for t in prop.THEOREMS},
            "failed_obligations": [list(x) for x in ob.failed],
            "evaluations": tie.evaluations, "distinct_nontrivial": len(tie.nontrivial),
            "rule": getattr(prop, "RULE", ""), "samples": tie.samples[:3],
            "disagreements": len(tie.disagreements), "oracle_evaluations": tie.oracle_evals,
            "distribution": {k: dict(v) if isinstance(v, Counter) else v for k, v in tie.dist.items()},
            "known_findings_reproduced": [k["id"] for k in known_hit],
            "log": ob.log,
        },
        "assumptions": list(getattr(prop, "ASSUMPTIONS", [])),
        "wall_s": round(wall, 2), "violations": len(violations),
    }
    EVID_DIR.mkdir(exist_ok=True, parents=True)
    (EVID_DIR / f"{pid}.json").write_text(json.dumps(ev, indent=1, default=str))
    for rp, suffix in violations[:5]:
        print(f"VIOLATION property={pid} replay={rp}{suffix}")
    print(f"[{pid}] tier={args.tier} seed={seed} obligations={ob.discharged}/{ob.obligations} "
          f"cases={tie.evaluations} nontrivial={len(tie.nontrivial)} disagreements={len(tie.disagreements)} "
          f"oracle_evals={tie.oracle_evals} violations={len(violations)} wall={wall:.1f}s")
    return 1 if violations else 0


def hash_id(pid):
    return sum(ord(c) * (i + 1) for i, c in enumerate(pid))


def call_oracle(prop, kind, payload):
    try:
        return with_timeout(300, prop.oracle, kind, payload)
    except Timeout:
        return None
    except Exception as ex:
        return f"oracle crashed: {type(ex).__name__}: {ex}"


def call_known(prop, k):
    try:
        return with_timeout(300, prop.replay_known, k)
    except Exception:
        return False


class Tie:
    def __init__(self, prop, rng, tier, seed):
        self.prop, self.rng, self.tier, self.seed = prop, rng, tier, seed
        self.evaluations = 0
        self.nontrivial = set()
        self.samples = []
        self.disagreements = []
        self.oracle_hits = []
        self.oracle_evals = 0
        self.broken = None
        self.dist = {}

    def count(self, key, val):
        self.dist.setdefault(key, Counter())[str(val)] += 1

    def corpus(self):
        d = VERIF / "harness" / "corpus" / self.prop.ID
        out = []
        if d.exists():
            for p in sorted(d.glob("*.json")):
                c = json.loads(p.read_text())
                out.append((c["kind"], c["payload"]))
        return out

    def run(self):
        prop = self.prop
        cases = self.corpus()
        n_corpus = len(cases)
        try:
            for c in prop.cases(self.rng, self.tier):
                cases.append(c)
        except Exception as ex:
            self.broken = f"generator crashed: {type(ex).__name__}: {ex}\n{traceback.format_exc()[-800:]}"
        self.count("source", "corpus") if n_corpus else None
        lines, reals, kept = [], [], []
        for kind, payload in cases:
            try:
                line = prop.model_line(kind, payload)
            except Exception as ex:
                self.broken = f"adapter crashed on {kind}: {type(ex).__name__}: {ex}\n{traceback.format_exc()[-800:]}"
                continue
            real = call_real(lambda p: prop.run_real(kind, p), payload)
            lines.append(line)
            reals.append(real)
            kept.append((kind, payload))
        try:
            outs = run_driver(lines)
        except Exception as ex:
            self.broken = f"driver failed: {ex}"
            return
        osample = max(1, len(kept) // (4 if self.tier == "quick" else 1))
        for idx, ((kind, payload), real, out) in enumerate(zip(kept, reals, outs)):
            self.evaluations += 1
            try:
                model = prop.model_canon(kind, payload, out)
                why = prop.compare(kind, payload, real, model)
            except Exception as ex:
                why = f"comparison crashed: {type(ex).__name__}: {ex}"
            self.count("kind", kind)
            if isinstance(real, dict) and "error" in real:
                self.count("real_outcome", real["error"])
            else:
                self.count("real_outcome", "ok")
            try:
                for k, v in prop.describe(kind, payload).items():
                    self.count(k, v)
                key = prop.nontrivial_key(kind, payload)
                if key is not None:
                    self.nontrivial.add(key)
            except Exception:
                pass
            if len(self.samples) < 3:
                self.samples.append({"kind": kind, "payload": _short(payload), "real": _short(real)})
            if why:
                self.disagreements.append({"kind": kind, "payload": payload, "why": why, "real": real, "model": out})
            # routine failing-input search on a sample, and always on a disagreement
            if hasattr(prop, "oracle") and (why or idx < n_corpus or getattr(prop, "ORACLE_EVERY", False)
                                            or (isinstance(payload, dict) and payload.get("always_oracle"))
                                            or idx % max(1, len(kept) // osample) == 0):
                self.oracle_evals += 1
                msg = call_oracle(prop, kind, payload)
                if msg:
                    self.oracle_hits.append((kind, payload, msg))

    def search(self, budget):
        """After a broken obligation / tie: oracle over the disagreeing inputs and fresh ones."""
        prop = self.prop
        found = []
        if not hasattr(prop, "oracle"):
            return found
        t0 = time.time()
        for d in self.disagreements:
            msg = call_oracle(prop, d["kind"], d["payload"])
            self.oracle_evals += 1
            if msg:
                found.append((d["kind"], d["payload"], msg))
                return found
        rng = random.Random(self.seed + 99991)
        gen = getattr(prop, "search_cases", prop.cases)
        try:
            for kind, payload in gen(rng, "thorough"):
                if time.time() - t0 > budget:
                    break
                self.oracle_evals += 1
                msg = call_oracle(prop, kind, payload)
                if msg:
                    found.append((kind, payload, msg))
                    break
        except Exception:
            pass
        return found

def _short(x, n=600):
    s = json.dumps(x, default=str)
    return x if len(s) <= n else s[:n] + "..."


if __name__ == "__main__":
    try:
        sys.exit(main())
    except subprocess.TimeoutExpired:
        print("TIMEOUT")
        sys.exit(2)
