"""Translator: the five search actions of the cut finder (cut_finding/cutting_actions.py) -> CKT/Generated/CutActions.lean.

Each `next_state_primitive` is read statement by statement (Python AST) and turned into a small program over the IR of
`CKT/Model/CutIR.lean` — guards that make the action return no successor, and effects on the copied state — in source order; the
actions appear in the order of their `define_action` registrations, with their group names.  `CKT.Props.C07Gen` proves that interpreting
these programs gives exactly the hand-written model actions (`applyGate`, `cutGate`, `cutLeft`, `cutRight`, `cutBoth`) and that the model's
`actionList` is the registered list filtered by group, so a change to a guard, to the order of two guards, to a cost constant, to what a
wire cut allocates / merges / forbids, or to the registrations is a broken obligation.  A statement of a shape not listed here raises
TranslationError."""
from __future__ import annotations

import ast
from pathlib import Path

from .kak import TranslationError

KINDS = {"CutTwoQubitGate": "Kind.gateCut", "CutLeftWire": "Kind.left", "CutRightWire": "Kind.right", "CutBothWires": "Kind.both"}
REFS = {"r1": "Ref.r1", "r2": "Ref.r2", "rnew": "Ref.n1", "rnew_1": "Ref.n1", "rnew_2": "Ref.n2"}
# statements that only introduce the standard names (checked literally) or have no effect the model records
STANDARD = {
    "gate = gate_spec.gate", "q1 = gate.qubits[0]", "q2 = gate.qubits[1]", "w1 = state.get_wire(q1)", "w2 = state.get_wire(q2)",
    "r1 = state.find_qubit_root(q1)", "r2 = state.find_qubit_root(q2)", "r1 = state.find_qubit_root(gate.qubits[0])",
    "r2 = state.find_qubit_root(gate.qubits[1])", "new_state = state.copy()", "assert state.width is not None",
    "gamma_LB, num_bell_pairs, gamma_UB = self.get_cost_params(gate_spec)", "gamma_UB = cast(float, gamma_UB)",
    "new_state.gamma_LB = cast(float, new_state.gamma_LB)", "new_state.gamma_UB = cast(float, new_state.gamma_UB)",
    "new_state.bell_pairs = cast(list, new_state.bell_pairs)", "new_state.gamma_LB *= gamma_LB",   # the lower bound is not used by the search
}


def _u(node) -> str:
    return ast.unparse(node).strip()


def _returns_empty(body) -> bool:
    return len(body) == 1 and isinstance(body[0], ast.Return) and _u(body[0].value) == "[]"


def _ref(name: str, where) -> str:
    if name not in REFS:
        raise TranslationError(f"unknown root / wire name {name!r} at line {where.lineno}")
    return REFS[name]


def _stmt(st, has_name: bool, kind: str | None):
    """one statement -> list of IR ops (possibly empty)"""
    src = _u(st)
    if isinstance(st, ast.Expr) and isinstance(st.value, ast.Constant) and isinstance(st.value.value, str):
        return []                                  # docstring
    if src in STANDARD:
        return []
    if isinstance(st, ast.If):
        test = _u(st.test)
        if test == "len(gate.qubits) != 2" and len(st.body) == 1 and isinstance(st.body[0], ast.Raise):
            return []                              # multi-qubit gates are refused before the actions are tried (C18)
        if st.orelse:
            raise TranslationError(f"if/else at line {st.lineno}: {src}")
        if _returns_empty(st.body):
            if test.startswith("not state.can_add_wires(") and test.endswith(")"):
                return [f".gCap {int(test[len('not state.can_add_wires('):-1])}"]
            if test.startswith("max_width < "):
                return [f".gMinW {int(test[len('max_width < '):])}"]
            if test == "r1 == r2":
                return [".gSame"]
            if test in ("not state.can_expand_subcircuit(r1, 1, max_width)", "not state.can_expand_subcircuit(r2, 1, max_width)"):
                return [f".gExpand {_ref(test[len('not state.can_expand_subcircuit('):][:2], st)}"]
            if test == "r1 != r2 and state.width[r1] + state.width[r2] > max_width":
                return [".gWidthSum"]
            if test == "state.check_donot_merge_roots(r1, r2)":
                return [".gForbid"]
            if test == "gamma_LB is None":
                return [".gNoGamma"]
            raise TranslationError(f"unrecognised guard at line {st.lineno}: {test}")
        if test == "r1 != r2" and len(st.body) == 1 and _u(st.body[0]) == "new_state.merge_roots(r1, r2)":
            return [".eCondMerge"]
        raise TranslationError(f"unrecognised conditional at line {st.lineno}: {src}")
    if isinstance(st, ast.For):
        if _u(st.iter) == "range(num_bell_pairs)" and all(_u(b) in STANDARD or _u(b) == "new_state.bell_pairs.append((r1, r2))" for b in st.body):
            return []                              # entangled-pair bookkeeping (LOCC costs): not used by the LO search
        raise TranslationError(f"unrecognised loop at line {st.lineno}")
    if isinstance(st, ast.Assign) and len(st.targets) == 1 and isinstance(st.targets[0], ast.Name) and isinstance(st.value, ast.Call) \
            and _u(st.value.func) == "new_state.new_wire":
        tgt, arg = st.targets[0].id, _u(st.value.args[0])
        if arg not in ("q1", "q2") or tgt not in ("rnew", "rnew_1", "rnew_2"):
            raise TranslationError(f"unrecognised wire allocation at line {st.lineno}: {src}")
        return [f".eNew {'1' if REFS[tgt] == 'Ref.n1' else '2'} {0 if arg == 'q1' else 1}"]
    if isinstance(st, ast.Expr) and isinstance(st.value, ast.Call):
        fn, args = _u(st.value.func), st.value.args
        if fn == "new_state.merge_roots" and len(args) == 2:
            return [f".eMerge {_ref(_u(args[0]), st)} {_ref(_u(args[1]), st)}"]
        if fn == "new_state.assert_donot_merge_roots" and len(args) == 2:
            return [f".eClause {_ref(_u(args[0]), st)} {_ref(_u(args[1]), st)}"]
        if fn == "new_state.bell_pairs.append":
            return []
        if fn == "new_state.add_action" and len(args) >= 2 and _u(args[0]) == "self" and _u(args[1]) == "gate_spec":
            if not has_name:
                if len(args) != 2:
                    raise TranslationError(f"an unnamed action records arguments at line {st.lineno}")
                return []                          # add_action ignores actions whose name is None
            items = []
            rest = args[2:]
            if len(rest) == 1 and isinstance(rest[0], ast.Tuple) and rest[0].elts and isinstance(rest[0].elts[0], ast.Tuple):
                rest = rest[0].elts                # gate cut: one tuple of pairs
            for a in rest:
                if not isinstance(a, ast.Tuple) or len(a.elts) not in (2, 3):
                    raise TranslationError(f"unrecognised action argument at line {st.lineno}: {_u(a)}")
                num, w = _u(a.elts[0]), _u(a.elts[1])
                if (num, w) not in (("1", "w1"), ("2", "w2")):
                    raise TranslationError(f"unrecognised action argument at line {st.lineno}: {_u(a)}")
                new = "none" if len(a.elts) == 2 else f"(some {_ref(_u(a.elts[2]), st)})"
                items.append(f"({num}, {new})")
            return [f".eAction {kind} [{', '.join(items)}]"]
    if isinstance(st, ast.AugAssign) and isinstance(st.op, ast.Mult) and _u(st.target) == "new_state.gamma_UB":
        v = _u(st.value)
        if v == "gamma_UB":
            return [".eCostGamma"]
        if v.isdigit():
            return [f".eCost {int(v)}"]
        raise TranslationError(f"unrecognised cost factor at line {st.lineno}: {v}")
    if isinstance(st, ast.Return) and _u(st.value) == "[new_state]":
        return [".done"]
    raise TranslationError(f"unrecognised statement at line {st.lineno}: {src}")


def translate(repo: Path) -> str:
    src = (repo / "qiskit_addon_cutting" / "cut_finding" / "cutting_actions.py").read_text()
    tree = ast.parse(src)
    classes, order = {}, []
    for node in tree.body:
        if isinstance(node, ast.ClassDef) and node.name.startswith("Action"):
            meths = {m.name: m for m in node.body if isinstance(m, ast.FunctionDef)}
            if "next_state_primitive" not in meths:
                continue
            nm = meths["get_name"].body[-1]
            gr = meths["get_group_names"].body[-1]
            if not (isinstance(nm, ast.Return) and isinstance(nm.value, ast.Constant)) or not (isinstance(gr, ast.Return) and isinstance(gr.value, ast.List)):
                raise TranslationError(f"{node.name}: name / group names are not literals")
            name = nm.value.value
            groups = [g.value for g in gr.value.elts if isinstance(g, ast.Constant)]
            if len(groups) != len(gr.value.elts):
                raise TranslationError(f"{node.name}: group names are not literals")
            if name is not None and name not in KINDS:
                raise TranslationError(f"{node.name}: unknown action name {name!r}")
            ops = []
            for st in meths["next_state_primitive"].body:
                ops += _stmt(st, name is not None, KINDS.get(name))
            if not ops or ops[-1] != ".done" or ".done" in ops[:-1]:
                raise TranslationError(f"{node.name}: the body does not end with exactly one `return [new_state]`")
            classes[node.name] = (name, groups, ops[:-1])
        elif isinstance(node, ast.Expr) and isinstance(node.value, ast.Call) and _u(node.value.func) == "disjoint_subcircuit_actions.define_action":
            a = node.value.args
            if len(a) != 1 or not isinstance(a[0], ast.Call) or a[0].args:
                raise TranslationError(f"unrecognised registration at line {node.lineno}")
            order.append(_u(a[0].func))
    if sorted(order) != sorted(classes) or len(set(order)) != len(order):
        raise TranslationError(f"registrations {order} do not match the action classes {sorted(classes)}")

    def lit(x):
        return "none" if x is None else f'(some "{x}")'
    rows = []
    for cn in order:
        name, groups, ops = classes[cn]
        rows.append(f'  {{ cls := "{cn}", name := {lit(name)}, groups := [{", ".join(lit(g) for g in groups)}],\n    prog := [{", ".join(ops)}] }}')
    return ("import CKT.Model.CutIR\n"
            "/-! Generated by harness/translate/actions.py from cut_finding/cutting_actions.py — do not edit. -/\n"
            "namespace CKT.Generated\nopen CKT.CF CKT.CutIR\n\n"
            "/-- the search actions in registration order: class, look-up name, group names, and the body of `next_state_primitive` as an IR program -/\n"
            "def cutActions : List ActionDef := [\n" + ",\n".join(rows) + " ]\n\nend CKT.Generated\n")


def regenerate(repo: Path, lean_dir: Path):
    out = lean_dir / "CKT" / "Generated" / "CutActions.lean"
    text = translate(repo)
    if not out.exists() or out.read_text() != text:
        out.write_text(text)
    return out
