"""Translator: the sampling-overhead reference table of docs/explanation/index.rst -> CKT/Generated/DocTable.lean."""
from __future__ import annotations

import re
from pathlib import Path


class TranslationError(Exception):
    pass


def parse(repo: Path):
    txt = (repo / "docs" / "explanation" / "index.rst").read_text()
    m = re.search(r"Sampling overhead reference table\n-+\n(.*?)\nCurrent limitations", txt, flags=re.S)
    if not m:
        raise TranslationError("overhead table section not found")
    lines = [l for l in m.group(1).splitlines() if l.startswith(("+", "|"))]
    if not lines:
        raise TranslationError("no table")
    # column boundaries from the first border line
    border = lines[0]
    cols = [i for i, ch in enumerate(border) if ch == "+"]
    if len(cols) != 4:
        raise TranslationError(f"expected 3 columns, got {len(cols) - 1}")
    groups, cur = [], [[], [], []]
    for l in lines[1:]:
        if l.startswith("+"):
            if any(cur[k] for k in range(3)):
                groups.append(cur)
            cur = [[], [], []]
            # a border that does not close the third column means the cell continues (vertical merge)
            seg3 = l[cols[2] + 1:cols[3]]
            if seg3.strip() == "":
                cur.append("merge3")
            continue
        for k in range(3):
            cell = l[cols[k] + 1:cols[k + 1]].strip()
            if cell:
                cur[k].append(cell)
    rows = []
    header_seen = False
    last_formula = None
    for g in groups:
        c1 = " ".join(g[0])
        if not header_seen:
            header_seen = True
            if "Instruction" not in c1:
                raise TranslationError("header row missing")
            continue
        names = re.findall(r":class:`~?\.?(?:[\w.]*\.)?(\w+)`", c1)
        if not names:
            raise TranslationError(f"no instruction names in row: {c1}")
        f = re.findall(r":math:`([^`]*)`", " ".join(g[2]))
        if f:
            last_formula = f[0]
        elif last_formula is None:
            raise TranslationError("row without formula")
        rows.append((names, last_formula))
    return rows


def lean_str(s):
    return '"' + s.replace("\\", "\\\\").replace('"', '\\"') + '"'


def translate(repo: Path):
    rows = parse(repo)
    out = ["/-! GENERATED from docs/explanation/index.rst by harness/translate/doctable.py — do not edit -/",
           "namespace CKT.Generated", "",
           "def docTable : List (List String × String) := ["]
    out.append(",\n".join("  ([" + ", ".join(lean_str(n) for n in names) + "], " + lean_str(f) + ")" for names, f in rows))
    out.append("]\n\nend CKT.Generated\n")
    return "\n".join(out)


def regenerate(repo: Path, lean_dir: Path):
    txt = translate(repo)
    p = lean_dir / "CKT" / "Generated" / "DocTable.lean"
    if not p.exists() or p.read_text() != txt:
        p.write_text(txt)
    return p


if __name__ == "__main__":
    import sys
    print(regenerate(Path(sys.argv[1] if len(sys.argv) > 1 else "/repo"), Path(__file__).resolve().parents[2] / "lean"))
