"""Translator: the three reset optimisations of cutting_experiments.py (`_remove_resets_in_zero_state`, `_remove_final_resets`,
`_consolidate_resets`) -> CKT/Generated/ResetScans.lean.

All three are one scan over `circuit.data` with a set (or flag list) of qubits: a reset is marked for deletion depending on whether its qubit is
in the set, any other instruction adds / removes ALL its qubits, the scan may stop early, and the marked positions are deleted from the back.
Each function is read off the Python AST into a `ScanSpec` (direction, initial set, the test on a reset, what a kept reset and another instruction
do to the set, the early exit); `CKT.Props.C12Gen` proves that the generic scan run on these specs is the hand-written model pass
(`removeInitialResets`, `removeFinalResets`, `consolidateResets`).  Anything of another shape — an update of only the first qubit, another
deletion order, another index formula, another exit test — raises TranslationError."""
from __future__ import annotations

import ast
from pathlib import Path

from .kak import TranslationError


def _u(n) -> str:
    return ast.unparse(n).strip()


def _body(fn):
    return [s for s in fn.body if not (isinstance(s, ast.Expr) and isinstance(s.value, ast.Constant) and isinstance(s.value.value, str))]


def _spec(fn) -> dict:
    name = fn.name
    b = _body(fn)
    if [a.arg for a in fn.args.args] != ["circuit", "inplace"]:
        raise TranslationError(f"{name}: unexpected parameters")
    if not (isinstance(b[0], ast.If) and _u(b[0].test) == "not inplace" and [_u(s) for s in b[0].body] == ["circuit = circuit.copy()"]):
        raise TranslationError(f"{name}: missing `if not inplace: circuit = circuit.copy()`")
    b = b[1:]
    # trailer: delete marked positions from the back, return the circuit
    if len(b) < 4 or _u(b[-1]) != "return circuit":
        raise TranslationError(f"{name}: does not end with `return circuit`")
    dele = b[-2]
    if not (isinstance(dele, ast.For) and _u(dele.target) == "i" and _u(dele.iter) == "sorted(remove_ids, reverse=True)"
            and [_u(s) for s in dele.body] == ["del circuit.data[i]"]):
        raise TranslationError(f"{name}: unexpected deletion loop: {_u(dele)[:120]}")
    pre, loop = b[:-3], b[-3]
    pre_src = [_u(s) for s in pre]
    spec = {}
    # the set of qubits and its initial value
    setname = None
    for s in pre_src:
        if s == "remove_ids = []":
            continue
        if s == "num_inst = len(circuit.data)":
            spec["num_inst"] = True
            continue
        if s in ("active_qubits: set[int] = set()",):
            setname, spec["initAll"], spec["kind"] = "active_qubits", False, "set"
        elif s == "qubit_ended = set(range(circuit.num_qubits))":
            setname, spec["initAll"], spec["kind"] = "qubit_ended", True, "set"
        elif s == "resets = [False] * circuit.num_qubits":
            setname, spec["initAll"], spec["kind"] = "resets", False, "flags"
        else:
            raise TranslationError(f"{name}: unexpected set-up statement: {s}")
    if setname is None or "remove_ids = []" not in pre_src:
        raise TranslationError(f"{name}: no qubit set / no remove_ids")
    # the scan
    if not (isinstance(loop, ast.For) and _u(loop.target) == "(i, inst)" and not loop.orelse):
        raise TranslationError(f"{name}: unexpected scan loop")
    it = _u(loop.iter)
    if it == "enumerate(circuit.data)":
        spec["reversed"] = False
    elif it == "enumerate(reversed(circuit.data))":
        spec["reversed"] = True
    else:
        raise TranslationError(f"{name}: unexpected iteration {it}")
    lb = loop.body
    if len(lb) != 2 or _u(lb[0]) != "qargs = [circuit.find_bit(q).index for q in inst.qubits]":
        raise TranslationError(f"{name}: unexpected loop body start")
    br = lb[1]
    if not (isinstance(br, ast.If) and _u(br.test) == "inst.operation.name == 'reset'" and br.orelse):
        raise TranslationError(f"{name}: no reset / other branch")
    # reset branch
    idx = "num_inst - 1 - i" if spec["reversed"] else "i"
    if spec["reversed"] and not spec.get("num_inst"):
        raise TranslationError(f"{name}: reversed scan without num_inst = len(circuit.data)")
    if len(br.body) != 1 or not isinstance(br.body[0], ast.If):
        raise TranslationError(f"{name}: unexpected reset branch")
    rb = br.body[0]
    test = _u(rb.test)
    if [_u(s) for s in rb.body] != [f"remove_ids.append({idx})"]:
        raise TranslationError(f"{name}: a reset is not marked with position {idx}: {[_u(s) for s in rb.body]}")
    if spec["kind"] == "set":
        if test == f"qargs[0] in {setname}":
            spec["removeWhenIn"] = True
        elif test == f"qargs[0] not in {setname}":
            spec["removeWhenIn"] = False
        else:
            raise TranslationError(f"{name}: unexpected test on a reset: {test}")
        if rb.orelse:
            raise TranslationError(f"{name}: unexpected else branch on a reset")
        spec["resetAdds"] = False
    else:
        if test != f"{setname}[qargs[0]]":
            raise TranslationError(f"{name}: unexpected test on a reset: {test}")
        spec["removeWhenIn"] = True
        if [_u(s) for s in rb.orelse] != [f"{setname}[qargs[0]] = True"]:
            raise TranslationError(f"{name}: a kept reset does not set its flag: {[_u(s) for s in rb.orelse]}")
        spec["resetAdds"] = True
    # other branch: every qubit of the instruction is updated
    ob = br.orelse
    upd = ob[0]
    if not (isinstance(upd, ast.For) and _u(upd.target) == "q" and _u(upd.iter) == "qargs" and len(upd.body) == 1 and not upd.orelse):
        raise TranslationError(f"{name}: another instruction does not update all its qubits: {_u(upd)[:100]}")
    u = _u(upd.body[0])
    if u == f"{setname}.add(q)":
        spec["otherAdds"] = True
    elif u in (f"{setname}.discard(q)", f"{setname}[q] = False"):
        spec["otherAdds"] = False
    else:
        raise TranslationError(f"{name}: unexpected update {u}")
    # early exit
    if len(ob) == 1:
        spec["exitWhen"] = None
    elif len(ob) == 2 and isinstance(ob[1], ast.If) and [_u(s) for s in ob[1].body] == ["break"] and not ob[1].orelse:
        t = _u(ob[1].test)
        if t == f"len({setname}) == circuit.num_qubits" and spec["otherAdds"]:
            spec["exitWhen"] = True
        elif t == f"not {setname}" and not spec["otherAdds"]:
            spec["exitWhen"] = False
        else:
            raise TranslationError(f"{name}: unexpected early-exit test {t}")
    else:
        raise TranslationError(f"{name}: unexpected statements after the update")
    return spec


def _lean(sp) -> str:
    b = lambda x: "true" if x else "false"
    ex = "none" if sp["exitWhen"] is None else f"some {b(sp['exitWhen'])}"
    return (f"{{ reversed := {b(sp['reversed'])}, initAll := {b(sp['initAll'])}, removeWhenIn := {b(sp['removeWhenIn'])}, "
            f"resetAdds := {b(sp['resetAdds'])}, otherAdds := {b(sp['otherAdds'])}, exitWhen := {ex} }}")


def translate(repo: Path) -> str:
    src = (repo / "qiskit_addon_cutting" / "cutting_experiments.py").read_text()
    fns = {n.name: n for n in ast.parse(src).body if isinstance(n, ast.FunctionDef)}
    out = []
    for fn, lean in (("_remove_resets_in_zero_state", "removeInitialSpec"), ("_remove_final_resets", "removeFinalSpec"), ("_consolidate_resets", "consolidateSpec")):
        if fn not in fns:
            raise TranslationError(f"{fn} not found")
        out.append(f"/-- `{fn}` -/\ndef {lean} : ScanSpec := {_lean(_spec(fns[fn]))}\n")
    return ("import CKT.Model.ResetScan\n"
            "/-! Generated by harness/translate/resets.py from cutting_experiments.py — do not edit. -/\n"
            "namespace CKT.Generated\nopen CKT\n\n" + "\n".join(out) + "\nend CKT.Generated\n")


def regenerate(repo: Path, lean_dir: Path):
    out = lean_dir / "CKT" / "Generated" / "ResetScans.lean"
    text = translate(repo)
    if not out.exists() or out.read_text() != text:
        out.write_text(text)
    return out
