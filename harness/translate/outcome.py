"""Translator: the outcome arithmetic of `_process_outcome` / `_process_outcome_v2` (cutting_reconstruction.py) -> CKT/Generated/Outcome.lean.

The integer expressions that split a packed outcome into the observable and the QPD register and turn bit parities into signs are read off
the Python AST and emitted as Lean definitions over `Nat` / `Int` (bit operations stay on naturals, `1 - 2 * (...)` is an integer expression);
the loop over `cog.pauli_bitmasks` becomes a `map`.  `CKT.Props.C06Gen.processOutcome_translated` proves that the hand-written model function
`processOutcome` (which all C06 theorems are about) is this translated code.  Any statement or expression of a shape not listed here raises
TranslationError."""
from __future__ import annotations

import ast
from pathlib import Path

from .kak import TranslationError


def _u(n) -> str:
    return ast.unparse(n).strip()


def _nat(e, env) -> str:
    """expression in a natural-number context (bit operations, shifts, truncated `(1 << n) - 1`)"""
    if isinstance(e, ast.Constant) and isinstance(e.value, int) and e.value >= 0:
        return str(e.value)
    if isinstance(e, ast.Name):
        if e.id not in env:
            raise TranslationError(f"unknown name {e.id!r}")
        return env[e.id]
    if isinstance(e, ast.BinOp):
        a, b = _nat(e.left, env), _nat(e.right, env)
        if isinstance(e.op, ast.BitAnd):
            return f"({a} &&& {b})"
        if isinstance(e.op, ast.BitOr):
            return f"({a} ||| {b})"
        if isinstance(e.op, ast.LShift):
            return f"({a} <<< {b})"
        if isinstance(e.op, ast.RShift):
            return f"({a} >>> {b})"
        if isinstance(e.op, ast.Sub) and _u(e.left).startswith("1 <<") and _u(e.right) == "1":
            return f"({a} - {b})"                  # (1 << n) - 1: never negative
        if isinstance(e.op, ast.Add):
            return f"({a} + {b})"
        raise TranslationError(f"unrecognised natural-number operation: {_u(e)}")
    if isinstance(e, ast.Call) and _u(e.func) == "bit_count" and len(e.args) == 1:
        return f"(bitCount {_nat(e.args[0], env)})"
    raise TranslationError(f"unrecognised natural-number expression: {_u(e)}")


def _int(e, env, ienv) -> str:
    """expression in an integer context"""
    if isinstance(e, ast.Constant) and isinstance(e.value, int):
        return f"({e.value} : Int)"
    if isinstance(e, ast.Name) and e.id in ienv:
        return ienv[e.id]
    if isinstance(e, ast.BinOp) and isinstance(e.op, (ast.Sub, ast.Mult, ast.Add)):
        op = {ast.Sub: "-", ast.Mult: "*", ast.Add: "+"}[type(e.op)]
        return f"({_int(e.left, env, ienv)} {op} {_int(e.right, env, ienv)})"
    return f"(({_nat(e, env)} : Nat) : Int)"


def translate(repo: Path) -> str:
    src = (repo / "qiskit_addon_cutting" / "cutting_reconstruction.py").read_text()
    fns = {n.name: n for n in ast.parse(src).body if isinstance(n, ast.FunctionDef)}
    for f in ("_process_outcome", "_process_outcome_v2"):
        if f not in fns:
            raise TranslationError(f"{f} not found")
    p1, p2 = fns["_process_outcome"], fns["_process_outcome_v2"]
    if [a.arg for a in p1.args.posonlyargs + p1.args.args] != ["cog", "outcome"]:
        raise TranslationError("_process_outcome: unexpected parameters")
    if [a.arg for a in p2.args.posonlyargs + p2.args.args] != ["cog", "obs_outcomes", "qpd_outcomes"]:
        raise TranslationError("_process_outcome_v2: unexpected parameters")
    body1 = [s for s in p1.body if not (isinstance(s, ast.Expr) and isinstance(s.value, ast.Constant))]
    exp1 = ["num_meas_bits = len(_get_pauli_indices(cog))", "outcome = _outcome_to_int(outcome)"]
    if [_u(s) for s in body1[:2]] != exp1 or len(body1) != 5:
        raise TranslationError("_process_outcome: unexpected statements " + repr([_u(s) for s in body1]))
    env = {"outcome": "outcome", "num_meas_bits": "numMeasBits"}
    defs = {}
    for s in body1[2:4]:
        if not (isinstance(s, ast.Assign) and len(s.targets) == 1 and isinstance(s.targets[0], ast.Name)):
            raise TranslationError(f"_process_outcome: unexpected statement {_u(s)}")
        defs[s.targets[0].id] = _nat(s.value, env)
    if sorted(defs) != ["obs_outcomes", "qpd_outcomes"] or _u(body1[4]) != "return _process_outcome_v2(cog, obs_outcomes, qpd_outcomes)":
        raise TranslationError("_process_outcome: the two registers are not handed to _process_outcome_v2 as (obs, qpd)")
    body2 = [s for s in p2.body if not (isinstance(s, ast.Expr) and isinstance(s.value, ast.Constant))]
    if len(body2) != 4 or _u(body2[1]) != "rv = np.zeros(len(cog.pauli_bitmasks))" or _u(body2[3]) != "return rv":
        raise TranslationError("_process_outcome_v2: unexpected statements " + repr([_u(s) for s in body2]))
    env2 = {"obs_outcomes": "obs", "qpd_outcomes": "qpd", "mask": "mask"}
    s0 = body2[0]
    if not (isinstance(s0, ast.Assign) and _u(s0.targets[0]) == "qpd_factor"):
        raise TranslationError("_process_outcome_v2: qpd_factor is not computed first")
    qpd_factor = _int(s0.value, env2, {})
    loop = body2[2]
    if not (isinstance(loop, ast.For) and _u(loop.target) == "(i, mask)" and _u(loop.iter) == "enumerate(cog.pauli_bitmasks)" and len(loop.body) == 2):
        raise TranslationError("_process_outcome_v2: unexpected loop " + _u(loop)[:120])
    l0, l1 = loop.body
    if not (isinstance(l0, ast.Assign) and _u(l0.targets[0]) == "obs" and isinstance(l1, ast.Assign) and _u(l1.targets[0]) == "rv[i]"):
        raise TranslationError("_process_outcome_v2: unexpected loop body")
    obs = _int(l0.value, env2, {})
    entry = _int(l1.value, env2, {"qpd_factor": "qpdFactor", "obs": "obsSign"})
    return ("import CKT.Model.Reconstruct\n"
            "/-! Generated by harness/translate/outcome.py from cutting_reconstruction.py (`_process_outcome`, `_process_outcome_v2`) — do not edit. -/\n"
            "namespace CKT.Generated\nopen CKT\n\n"
            f"/-- `obs_outcomes` -/\ndef obsOutcomes (outcome numMeasBits : Nat) : Nat := {defs['obs_outcomes']}\n\n"
            f"/-- `qpd_outcomes` -/\ndef qpdOutcomes (outcome numMeasBits : Nat) : Nat := {defs['qpd_outcomes']}\n\n"
            f"/-- `qpd_factor` -/\ndef qpdFactor (qpd : Nat) : Int := {qpd_factor}\n\n"
            f"/-- `obs` inside the loop over the bitmasks -/\ndef obsSign (obs mask : Nat) : Int := {obs}\n\n"
            f"/-- `rv[i]` -/\ndef entry (qpdFactor obsSign : Int) : Int := {entry}\n\n"
            "/-- `_process_outcome_v2`: one entry per bitmask, in order -/\n"
            "def processOutcomeV2 (masks : List Nat) (obs qpd : Nat) : List Int := masks.map fun mask => entry (qpdFactor qpd) (obsSign obs mask)\n\n"
            "/-- `_process_outcome` on an integer outcome -/\n"
            "def processOutcome (masks : List Nat) (numMeasBits outcome : Nat) : List Int :=\n"
            "  processOutcomeV2 masks (obsOutcomes outcome numMeasBits) (qpdOutcomes outcome numMeasBits)\n\nend CKT.Generated\n")


def regenerate(repo: Path, lean_dir: Path):
    out = lean_dir / "CKT" / "Generated" / "Outcome.lean"
    text = translate(repo)
    if not out.exists() or out.read_text() != text:
        out.write_text(text)
    return out
