"""Translator: the 58-row table of `_nonlocal_qpd_basis_from_u` (qpd/decompositions.py) -> CKT/Generated/KakTable.lean.

Reads the Python AST of the current working tree.  Any shape it does not recognise raises TranslationError
(reported by the check as a broken tie, followed by the failing-input search)."""
from __future__ import annotations

import ast
import math
from fractions import Fraction
from pathlib import Path


class TranslationError(Exception):
    pass


GATES = {"XGate": "x", "YGate": "y", "ZGate": "z", "HGate": "h", "SGate": "s", "SdgGate": "sdg", "SXGate": "sx",
         "SXdgGate": "sxdg", "TGate": "t", "TdgGate": "tdg", "QPDMeasure": "qpd_measure", "Reset": "reset"}
ROT = {"RXGate": ("rx", 1), "RYGate": ("ry", 2), "RZGate": ("rz", 3)}


def _num(node):
    """numeric value of a constant expression (np.pi allowed)"""
    src = ast.unparse(node)
    try:
        return eval(compile(ast.Expression(node), "<k>", "eval"), {"np": math, "__builtins__": {}})
    except Exception as ex:
        raise TranslationError(f"cannot evaluate constant {src}: {ex}")


def _rat(x):
    f = Fraction(x).limit_denominator(64)
    if abs(float(f) - x) > 1e-12:
        raise TranslationError(f"constant {x} is not a small rational")
    return f


def _lean_rat(f):
    return f"({f.numerator}/{f.denominator} : Rat)" if f.denominator != 1 else f"({f.numerator} : Rat)"


def _op(node):
    if not isinstance(node, ast.Call) or not isinstance(node.func, ast.Name):
        raise TranslationError(f"unrecognised operation {ast.unparse(node)}")
    n = node.func.id
    if n in GATES and not node.args:
        return 'MEAS' if n == "QPDMeasure" else ('RESET' if n == "Reset" else f'g "{GATES[n]}"')
    if n in ROT and len(node.args) == 1:
        ang = _num(node.args[0])
        c, s = math.cos(ang), math.sin(ang)
        cr, sr = _rat(round(c, 12)), _rat(round(s, 12))
        nm, ax = ROT[n]
        return f'rotOp "{nm}" {ax} (pc {_lean_rat(cr)}) (pc {_lean_rat(sr)})'
    raise TranslationError(f"unrecognised operation {ast.unparse(node)}")


def _oplist(node, env):
    """list expression: [ops...], Name, or sums of those"""
    if isinstance(node, ast.List):
        return [_op(e) for e in node.elts]
    if isinstance(node, ast.Name):
        if node.id not in env:
            raise TranslationError(f"unknown list {node.id}")
        return list(env[node.id])
    if isinstance(node, ast.BinOp) and isinstance(node.op, ast.Add):
        return _oplist(node.left, env) + _oplist(node.right, env)
    raise TranslationError(f"unrecognised list expression {ast.unparse(node)}")


def _idx(node):
    if isinstance(node, ast.Subscript) and isinstance(node.value, ast.Name) and node.value.id == "u":
        return int(_num(node.slice))
    raise TranslationError(f"expected u[k], got {ast.unparse(node)}")


def _coef(node, uu):
    """-> Lean KCoef"""
    sign = 1
    while isinstance(node, ast.UnaryOp) and isinstance(node.op, ast.USub):
        sign, node = -sign, node.operand
    factor = Fraction(1)
    if isinstance(node, ast.BinOp) and isinstance(node.op, ast.Mult):
        factor, node = _rat(_num(node.left)), node.right
    elif isinstance(node, ast.BinOp) and isinstance(node.op, ast.Pow):
        # np.abs(u[k]) ** 2
        base, ex = node.left, node.right
        if (isinstance(base, ast.Call) and ast.unparse(base.func) == "np.abs" and _num(ex) == 2 and sign == 1):
            return f".abs2 {_idx(base.args[0])}"
        raise TranslationError(f"unrecognised coefficient {ast.unparse(node)}")
    if isinstance(node, ast.Call) and ast.unparse(node.func) in ("np.real", "np.imag") and isinstance(node.args[0], ast.Name):
        kind = "re" if ast.unparse(node.func) == "np.real" else "im"
        nm = node.args[0].id
        if nm not in uu:
            raise TranslationError(f"unknown product {nm}")
        j, k = uu[nm]
        return f".{kind} {_lean_rat(sign * factor)} {j} {k}"
    raise TranslationError(f"unrecognised coefficient {ast.unparse(node)}")


def translate(repo: Path):
    src = (repo / "qiskit_addon_cutting" / "qpd" / "decompositions.py").read_text()
    tree = ast.parse(src)
    fn = next((n for n in tree.body if isinstance(n, ast.FunctionDef) and n.name == "_nonlocal_qpd_basis_from_u"), None)
    if fn is None:
        raise TranslationError("_nonlocal_qpd_basis_from_u not found")
    env, uu, rows = {}, {}, None
    order = None
    maps_ok = False
    for st in fn.body:
        if isinstance(st, ast.Assign) and len(st.targets) == 1:
            tgt, val = st.targets[0], st.value
            if isinstance(tgt, ast.Name):
                if tgt.id == "u":
                    continue
                if tgt.id.startswith("uu"):
                    # u[j] * np.conj(u[k])
                    if (isinstance(val, ast.BinOp) and isinstance(val.op, ast.Mult) and isinstance(val.right, ast.Call)
                            and ast.unparse(val.right.func) == "np.conj"):
                        uu[tgt.id] = (_idx(val.left), _idx(val.right.args[0]))
                        continue
                    raise TranslationError(f"unrecognised product {ast.unparse(st)}")
                if tgt.id == "maps":
                    if ast.unparse(val).replace(" ", "") != "list(zip(maps1,_copy_unique_sublists(maps2)))":
                        raise TranslationError(f"unexpected maps construction: {ast.unparse(val)}")
                    maps_ok = True
                    continue
                env[tgt.id] = _oplist(val, env)
                continue
            if isinstance(tgt, ast.Tuple) and isinstance(val, ast.Call) and ast.unparse(val.func) == "zip":
                order = [e.id for e in tgt.elts]
                rows = val.args
                continue
        if isinstance(st, ast.Return):
            if ast.unparse(st.value).replace(" ", "") != "QPDBasis(maps,coeffs)":
                raise TranslationError(f"unexpected return {ast.unparse(st.value)}")
            continue
        if isinstance(st, (ast.If, ast.Expr)):
            continue
        raise TranslationError(f"unrecognised statement {ast.unparse(st)[:80]}")
    if rows is None or order != ["coeffs", "maps1", "maps2"] or not maps_ok:
        raise TranslationError(f"table layout changed: {order}")
    lists = {}
    out_rows = []
    for i, r in enumerate(rows):
        if not isinstance(r, ast.Tuple) or len(r.elts) != 3:
            raise TranslationError(f"row {i} is not a triple")
        c = _coef(r.elts[0], uu)
        names = []
        for side, e in enumerate(r.elts[1:]):
            if isinstance(e, ast.Name):
                nm = e.id
                lists[nm] = env[nm] if nm in env else (_ for _ in ()).throw(TranslationError(f"unknown list {nm}"))
            else:
                nm = f"_row{i}_{side}"
                lists[nm] = _oplist(e, env)
            names.append(nm)
        out_rows.append((c, names[0], names[1]))
    lean = ["import CKT.Model.Gates", "/-! GENERATED from qiskit_addon_cutting/qpd/decompositions.py by harness/translate/kak.py — do not edit -/",
            "namespace CKT.Generated", "open CKT", "",
            "def kakLists : List (String × List SOp) := ["]
    lean.append(",\n".join(f'  ("{n}", [{", ".join(ops)}])' for n, ops in lists.items()))
    lean.append("]\n")
    lean.append("def kakRows : List (KCoef × String × String) := [")
    lean.append(",\n".join(f'  ({c}, "{a}", "{b}")' for c, a, b in out_rows))
    lean.append("]\n\nend CKT.Generated\n")
    return "\n".join(lean)


def regenerate(repo: Path, lean_dir: Path):
    txt = translate(repo)
    p = lean_dir / "CKT" / "Generated" / "KakTable.lean"
    if not p.exists() or p.read_text() != txt:
        p.write_text(txt)
    return p


if __name__ == "__main__":
    import sys
    print(regenerate(Path(sys.argv[1] if len(sys.argv) > 1 else "/repo"), Path(__file__).resolve().parents[2] / "lean"))
