"""Independent numeric channel arithmetic (Pauli transfer matrices) used by the C02/C15 tie and failing-input search."""
from __future__ import annotations

import numpy as np

PAULI = [np.eye(2, dtype=complex), np.array([[0, 1], [1, 0]], dtype=complex), np.array([[0, -1j], [1j, 0]]), np.diag([1.0 + 0j, -1])]
P0 = np.diag([1, 0]).astype(complex)
P1 = np.diag([0, 1]).astype(complex)


def ptm_kraus(Ks, signs=None):
    R = np.zeros((4, 4))
    signs = signs or [1] * len(Ks)
    for a in range(4):
        for b in range(4):
            out = sum(s * K @ PAULI[b] @ K.conj().T for K, s in zip(Ks, signs))
            R[a, b] = 0.5 * np.trace(PAULI[a] @ out).real
    return R


def ptm_op(op):
    from qiskit.quantum_info import Operator
    if op.name == "qpd_measure":
        return ptm_kraus([P0, P1], [1, -1])
    if op.name == "reset":
        return ptm_kraus([P0, PAULI[1] @ P1])
    return ptm_kraus([Operator(op).data])


def ptm_seq(ops):
    R = np.eye(4)
    for op in ops:
        R = ptm_op(op) @ R
    return R


def ptm2_kraus(Ks):
    R = np.zeros((16, 16))
    for b in range(16):
        Pb = np.kron(PAULI[b // 4], PAULI[b % 4])
        out = sum(K @ Pb @ K.conj().T for K in Ks)
        for a in range(16):
            R[a, b] = 0.25 * np.trace(np.kron(PAULI[a // 4], PAULI[a % 4]) @ out).real
    return R


def ptm2_gate(gate):
    """transfer matrix of a two-qubit instruction, index 4*a1+a0 (qubit 0 least significant)"""
    from qiskit.quantum_info import Operator
    if gate.name == "move":
        from qiskit.circuit.library import SwapGate
        SW = Operator(SwapGate()).data
        return ptm2_kraus([SW @ np.kron(P0, np.eye(2)), SW @ np.kron(PAULI[1] @ P1, np.eye(2))])
    return ptm2_kraus([Operator(gate).data])


def basis_ptm(basis):
    tot = np.zeros((16, 16))
    for c, m in zip(basis.coeffs, basis.maps):
        tot += c * np.kron(ptm_seq(m[1]), ptm_seq(m[0]))
    return tot


def exactness_error(gate):
    from qiskit_addon_cutting.qpd import QPDBasis
    b = QPDBasis.from_instruction(gate)
    return float(np.abs(basis_ptm(b) - ptm2_gate(gate)).max()), b
