import numpy as np
from qiskit.quantum_info import Operator
def apply_op(rho, mat, qs, n):
    # rho: 2^n x 2^n, little-endian qubit order (qubit 0 = least significant)
    k = len(qs)
    t = rho.reshape([2]*(2*n))
    # axes: row indices axes 0..n-1 correspond to qubits n-1..0
    def ax(q): return n-1-q
    m = mat.reshape([2]*(2*k))  # out indices (k), in indices (k); qiskit: qubit qs[0] least significant
    rows = [ax(q) for q in reversed(qs)]
    t = np.tensordot(m, t, axes=(list(range(k,2*k)), rows))
    t = np.moveaxis(t, list(range(k)), rows)
    cols = [n+ax(q) for q in reversed(qs)]
    t = np.tensordot(m.conj(), t, axes=(list(range(k,2*k)), cols))
    t = np.moveaxis(t, list(range(k)), cols)
    return t.reshape(2**n,2**n)
P0=np.array([[1,0],[0,0]],dtype=complex); P1=np.array([[0,0],[0,1]],dtype=complex); X=np.array([[0,1],[1,0]],dtype=complex)
def kraus(rho, K, q, n):
    # apply K rho K^dag on qubit q (K arbitrary 2x2)
    return apply_op(rho, K, [q], n)
def simulate(qc):
    n=qc.num_qubits
    rho=np.zeros((2**n,2**n),dtype=complex); rho[0,0]=1
    br={0:rho}
    for inst in qc.data:
        nm=inst.operation.name
        qs=[qc.find_bit(q).index for q in inst.qubits]
        if nm=="barrier": continue
        if nm=="measure":
            c=qc.find_bit(inst.clbits[0]).index
            new={}
            for k,r in br.items():
                for b,P in ((0,P0),(1,P1)):
                    rb=kraus(r,P,qs[0],n)
                    kk=(k & ~(1<<c)) | (b<<c)
                    new[kk]=new.get(kk,0)+rb
            br=new
        elif nm=="reset":
            br={k: kraus(r,P0,qs[0],n)+kraus(r,X@P1,qs[0],n) for k,r in br.items()}
        else:
            U=Operator(inst.operation).data
            br={k: apply_op(r,U,qs,n) for k,r in br.items()}
    return br
def dist(br, tol=1e-12):
    return {k: np.trace(r).real for k,r in br.items() if np.trace(r).real>tol}
