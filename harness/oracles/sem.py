"""Reference semantics used only by failing-input searches: density-matrix branch simulation."""
from __future__ import annotations

import numpy as np
from .refsim import apply_op, kraus, P0, P1, X

SWAP = np.array([[1, 0, 0, 0], [0, 0, 1, 0], [0, 1, 0, 0], [0, 0, 0, 1]], dtype=complex)
PAULI = {"I": np.eye(2, dtype=complex), "X": np.array([[0, 1], [1, 0]], dtype=complex),
         "Y": np.array([[0, -1j], [1j, 0]], dtype=complex), "Z": np.array([[1, 0], [0, -1]], dtype=complex)}


def simulate(qc, skip=("barrier", "cut_wire")):
    """{classical outcome: unnormalised density matrix}; Move (also when wrapped as a cut placeholder) = reset(dst); swap."""
    from qiskit.quantum_info import Operator
    n = qc.num_qubits
    rho = np.zeros((2 ** n, 2 ** n), dtype=complex)
    rho[0, 0] = 1
    br = {0: rho}
    for inst in qc.data:
        nm = inst.operation.name
        qs = [qc.find_bit(q).index for q in inst.qubits]
        if nm in skip or not qs:
            continue   # directives, markers, and operations without qubit operands (a global phase leaves the density matrix alone)
        if nm == "qpd_2q":
            lab = inst.operation.label or ""
            if "move" in lab:
                nm = "move"
            else:
                raise ValueError("cannot simulate an undecomposed cut gate")
        if nm == "measure":
            c = qc.find_bit(inst.clbits[0]).index
            new = {}
            for k, r in br.items():
                for b, P in ((0, P0), (1, P1)):
                    rb = kraus(r, P, qs[0], n)
                    kk = (k & ~(1 << c)) | (b << c)
                    new[kk] = new.get(kk, 0) + rb
            br = new
        elif nm == "reset":
            br = {k: kraus(r, P0, qs[0], n) + kraus(r, X @ P1, qs[0], n) for k, r in br.items()}
        elif nm == "move":
            br = {k: kraus(r, P0, qs[1], n) + kraus(r, X @ P1, qs[1], n) for k, r in br.items()}
            br = {k: apply_op(r, SWAP, qs, n) for k, r in br.items()}
        else:
            U = Operator(inst.operation).data
            br = {k: apply_op(r, U, qs, n) for k, r in br.items()}
    return br


def pauli_matrix(letters):
    """letters indexed by qubit (qubit 0 first) -> matrix in little-endian convention."""
    m = np.array([[1]], dtype=complex)
    for c in letters:  # qubit 0 is least significant => kron(new, m)
        m = np.kron(PAULI[c], m)
    return m


def expectations(qc, paulis):
    """paulis: list of letter strings indexed by qubit."""
    br = simulate(qc)
    rho = sum(br.values())
    return [float(np.real(np.trace(rho @ pauli_matrix(p)))) for p in paulis]
