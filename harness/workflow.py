"""Cut problems: circuit x partition x observables, built so that the number and kind of cuts is controlled."""
from __future__ import annotations

import math
import numpy as np

from . import canon, gen

SMALL_CUT = ["cx", "cy", "cz", "ch", "ecr", "cs", "csdg", "csx", "csxdg"]
PARAM_CUT = ["rxx", "ryy", "rzz", "crx", "cry", "crz", "cp"]
BIG_CUT = ["swap", "iswap", "dcx", "rzx", "xx_plus_yy", "xx_minus_yy", "unitary"]


def rand_cut_gate(rng, qubits, allow_big):
    r = rng.random()
    if r < 0.4:
        return {"name": rng.choice(SMALL_CUT), "qubits": qubits}
    if r < 0.85 or not allow_big:
        return {"name": rng.choice(PARAM_CUT), "qubits": qubits, "params": [gen.rand_angle(rng)]}
    nm = rng.choice(BIG_CUT)
    if nm == "unitary":
        return {"name": "unitary", "qubits": qubits, "params": [rng.randrange(10 ** 6), 2]}
    if nm in ("xx_plus_yy", "xx_minus_yy"):
        return {"name": nm, "qubits": qubits, "params": [gen.rand_angle(rng), gen.rand_angle(rng)]}
    if nm == "rzx":
        return {"name": nm, "qubits": qubits, "params": [gen.rand_angle(rng)]}
    return {"name": nm, "qubits": qubits}


def gen_problem(rng, max_q=5, max_cuts=2, allow_big=True, moves=False, idle_ok=True, depth=8, idle_obs=False):
    nq = rng.choice([1] + list(range(2, max_q + 1)) * 3)
    nidle = rng.choice([0, 0, 0, 1]) if (nq > 1 and idle_ok) else 0
    idle = sorted(rng.sample(range(nq), nidle))
    live = [q for q in range(nq) if q not in idle]
    npart = rng.choice([1] + list(range(2, min(4, len(live)) + 1)) * 3) if len(live) >= 2 else 1
    part = {q: rng.randrange(npart) for q in live}
    # make sure every partition index is used
    used = sorted(set(part.values()))
    part = {q: used.index(p) for q, p in part.items()}
    npart = len(used)
    groups = [[q for q in live if part[q] == g] for g in range(npart)]
    instrs = []
    for _ in range(rng.randint(1, depth)):
        g = rng.choice(groups)
        r = rng.random()
        if len(g) >= 2 and r < 0.4:
            instrs.append(gen.rand_2q(rng, rng.sample(g, 2)))
        elif r < 0.5:
            k = rng.randint(1, len(live))
            instrs.append({"name": "barrier", "qubits": rng.sample(live, k)})
        else:
            instrs.append(gen.rand_1q(rng, rng.choice(g)))
    ncuts = (rng.randint(1, max_cuts) if rng.random() < 0.85 else 0) if (npart >= 2 and max_cuts >= 1) else 0
    big_used = False
    for _ in range(ncuts):
        a, b = rng.sample(range(npart), 2)
        qs = [rng.choice(groups[a]), rng.choice(groups[b])]
        gate = rand_cut_gate(rng, qs, allow_big and not big_used and ncuts <= 2)
        if gate["name"] in BIG_CUT:
            big_used = True
        instrs.insert(rng.randint(0, len(instrs)), gate)
    # make sure every live qubit is touched (otherwise it is idle under automatic labelling)
    for q in live:
        if not any(q in i["qubits"] for i in instrs if i["name"] != "barrier"):
            instrs.insert(rng.randint(0, len(instrs)), gen.rand_1q(rng, q))
    pool_idx = rng.sample(range(len(gen.LABEL_POOL)), npart)
    mode = rng.random()
    if mode < 0.3:
        labels = None
    else:
        labels = [part.get(q) for q in range(nq)]
        for q in idle:
            labels[q] = None if rng.random() < 0.7 else rng.randrange(npart)
    nobs = rng.randint(1, 4)
    obs = gen.rand_paulis(rng, nq, nobs, rng.choice(["IIXYZ", "IZ", "XYZ", "IXYZ"]))
    for o in obs:
        o["l"] = "".join("I" if q in idle else c for q, c in enumerate(o["l"]))
    if idle_obs and idle and rng.random() < 0.6:
        # one observable acts on an idle qubit (X, Y or Z there): to be refused, or evaluated on |0> (never silently dropped)
        o = rng.choice(obs)
        q = rng.choice(idle)
        o["l"] = o["l"][:q] + rng.choice("XYYZ") + o["l"][q + 1:]
    if rng.random() < 0.3:
        obs.append(dict(rng.choice(obs)))
    if rng.random() < 0.15:
        obs.append({"l": "I" * nq, "p": 0})
    return {"nq": nq, "qregs": gen.rand_regs(rng, nq), "instrs": instrs, "labels": labels, "pool_idx": pool_idx,
            "obs": obs, "idle": idle, "part": [part.get(q) for q in range(nq)]}


def gen_chain_problem(rng, force=None):
    """three or four partitions in a chain; the partition holding qubit 0 takes no part in cut 0 but in a later cut, and the cut
    gates belong to different families (so that the order of the joint basis list matters)"""
    npart = rng.randint(3, 4)
    sizes = [rng.randint(1, 2) for _ in range(npart)]
    nq = sum(sizes)
    part, q = [], 0
    groups = []
    for k, sz in enumerate(sizes):
        groups.append(list(range(q, q + sz)))
        part += [k] * sz
        q += sz
    fams = [{"name": "cx"}, {"name": "rzz", "params": [0.7]}, {"name": "crx", "params": [1.1]}, {"name": "cz"}, {"name": "ryy", "params": [-0.4]}]
    rng.shuffle(fams)
    if force is not None:
        # the first link is a gate of the given family at a whole-turn-plus angle
        fams.insert(0, {"name": force, "params": [rng.choice([1, -1]) * (2 * math.pi * rng.choice([1, 3]) + rng.choice([0.7, 1.9, math.pi / 2]))]})
    instrs = []
    for q_ in range(nq):
        instrs.append(gen.rand_1q(rng, q_))
    # cut 0 between the last two partitions, later cuts walk towards partition 0
    links = [(k, k + 1) for k in range(npart - 1)][::-1]
    for j, (a, b) in enumerate(links):
        g = dict(fams[j % len(fams)])
        if "params" in g and rng.random() < 0.5 and not (force is not None and j == 0):
            # whole-turn and multi-turn angles (the half-angle decompositions are 4*pi-periodic for the controlled rotations)
            g["params"] = [rng.choice([1, -1]) * (2 * math.pi * rng.randint(1, 3) + rng.choice([0.0, 0.7, 1.9, math.pi / 2, math.pi]))]
        g["qubits"] = [rng.choice(groups[a]), rng.choice(groups[b])]
        if rng.random() < 0.5:
            g["qubits"].reverse()
        instrs.append(g)
        instrs.append(gen.rand_1q(rng, rng.randrange(nq)))
    nobs = rng.randint(1, 3)
    obs = gen.rand_paulis(rng, nq, nobs, "IXYZ")
    return {"nq": nq, "qregs": [nq], "instrs": instrs, "labels": list(part), "pool_idx": rng.sample(range(len(gen.LABEL_POOL)), npart),
            "obs": obs, "idle": [], "part": list(part)}


def gen_many_cuts(rng):
    """two partitions joined by 11-12 cut gates (two-digit cut ids) of two different families"""
    n = rng.randint(11, 12)
    special = set(rng.sample(range(n), rng.randint(1, 2)))
    instrs = [gen.rand_1q(rng, 0), gen.rand_1q(rng, 1)]
    for k in range(n):
        # negative angles flip the sign pattern of the coefficients relative to the cx basis: a permuted basis list then shows in the signs
        instrs.append({"name": rng.choice(["rzz", "ryy", "rxx"]), "qubits": [0, 1], "params": [rng.choice([-0.9, -2.2, 0.9])]} if k in special
                      else {"name": "cx", "qubits": [0, 1]})
    return {"nq": 2, "qregs": [2], "instrs": instrs, "labels": [0, 1], "pool_idx": [0, 1], "obs": gen.rand_paulis(rng, 2, 2, "XYZ"),
            "idle": [], "part": [0, 1]}


def build(payload):
    from qiskit.quantum_info import PauliList
    qc = canon.build_circuit({"nq": payload["nq"], "qregs": payload.get("qregs"), "instrs": payload["instrs"]})
    labels = None if payload["labels"] is None else gen.labels_from_idx(payload["labels"], payload["pool_idx"])
    obs = PauliList([o["l"][::-1] for o in payload["obs"]])
    return qc, labels, obs


def label_index(payload, lab):
    if payload["labels"] is None:
        return lab
    pool = [gen.LABEL_POOL[i] for i in payload["pool_idx"]]
    for k, p in enumerate(pool):
        if p == lab and type(p) == type(lab):
            return k
    for k, p in enumerate(pool):
        if p == lab:
            return k
    raise KeyError(lab)


def uncut_expectations(payload):
    """Expectation values of the uncut circuit (reference simulator)."""
    from .oracles import sem
    qc, _, _ = build(payload)
    return sem.expectations(qc, [o["l"] for o in payload["obs"]])


def exact_quasi_dists(circuits):
    """Exact outcome distributions of subexperiments, by the reference simulator (not the package's sampler)."""
    from .oracles import sem
    out = []
    for c in circuits:
        br = sem.simulate(c)
        out.append({k: float(np.real(np.trace(r))) for k, r in br.items() if abs(np.trace(r)) > 1e-15})
    return out
