"""Shared machinery of the cut-finder properties C07, C08, C09: generators, real run, canonical form, model line,
and the independent segment-model brute force used by the failing-input search."""
from __future__ import annotations

import itertools
import json
import math
import numpy as np
from fractions import Fraction

from . import canon, gen
from .core import frac, call_real

INT_GATES = ["cx", "cz", "cy", "ch", "ecr"]
_EXPLICIT = set(gen.FIXED_2Q + gen.PARAM_2Q + ["move"]) - {"rzx"}   # names with an explicit decomposition (exactness: C02)
KAK_FAMS = ["rzx", "xx_plus_yy", "xx_minus_yy", "unitary", "blk", "blk"]


def gen_kak(rng, tier):
    """two blocks joined by one or two gates that go through the KAK path (rzx, xx+-yy, unitary, and a user-defined gate class whose
    instances share name and (empty) parameter list but not their unitary)"""
    k = rng.randint(1, 2)
    nq = 2 * k + 2
    A, B = list(range(k + 1)), list(range(k + 1, nq))

    def kak_gate(qs):
        fam = rng.choice(KAK_FAMS)
        g = {"name": fam, "qubits": qs}
        if fam == "rzx":
            g["params"] = [rng.choice([0.7, 0.7, 1.9, -0.4])]
        elif fam in ("xx_plus_yy", "xx_minus_yy"):
            g["params"] = [rng.choice([0.7, 2.1]), rng.choice([0.0, 0.3])]
        elif fam == "unitary":
            g["params"] = [rng.randrange(4), 2]
        elif fam == "blk":
            g["params"] = [rng.choice(["cx", "cz", "swap", "iswap", "dcx", "0.7"])]
        return g
    instrs = []
    for blk in (A, B):
        for a, b in zip(blk, blk[1:]):
            instrs.append({"name": "cx", "qubits": [a, b]})
    for _ in range(rng.randint(1, 2)):
        instrs.insert(rng.randint(0, len(instrs)), kak_gate([rng.choice(A), rng.choice(B)]))
    for blk in (A, B):
        for a, b in zip(blk, blk[1:]):
            instrs.append({"name": "cx", "qubits": [b, a]})
    return {"nq": nq, "instrs": instrs, "seed": rng.randrange(1 << 30), "max_gamma": 1e6, "max_backjumps": None, "gate_lo": True,
            "wire_lo": rng.random() < 0.5, "width": k + 1, "exact": False}


def gen_dense(rng, tier, exact=True):
    """few qubits, many two-qubit gates on repeated pairs, tight width, both cut kinds: plans that wire-cut a qubit and later
    gate-cut a gate on the same qubit (and vice versa) are optimal here"""
    nq = rng.randint(3, 4)
    instrs = []
    for _ in range(rng.randint(3, 6 if tier == "quick" else 7)):
        qs = rng.sample(range(nq), 2)
        if exact:
            instrs.append({"name": rng.choice(INT_GATES), "qubits": qs})
        else:
            instrs.append({"name": rng.choice(["swap", "cx", "cz", "iswap"]), "qubits": qs})
    glo = rng.random() < 0.65   # otherwise wire cuts only: repeated pairs then force "cut both wires" plans
    return {"nq": nq, "instrs": instrs, "seed": rng.choice([0, 1, rng.randrange(1 << 30)]), "max_gamma": 1e6, "max_backjumps": None,
            "gate_lo": glo, "wire_lo": True, "width": rng.choice([2, 2, 3]), "exact": exact}


def gen_mixed_cost(rng, tier):
    """three or four qubits in a line, width 2, both cut kinds, expensive (swap, iswap: kappa 7) and cheap (cx, cz: kappa 3) gates on
    repeated neighbouring pairs: the optimum wire-cuts a qubit and later gate-cuts a cheap gate on that same qubit"""
    nq = rng.randint(3, 4)
    pairs = [(i, i + 1) for i in range(nq - 1)]
    instrs = []
    for _ in range(rng.randint(3, 5)):
        a, b = rng.choice(pairs)
        if rng.random() < 0.6:
            a, b = b, a
        instrs.append({"name": rng.choice(["swap", "swap", "iswap", "cx", "cx", "cz"]), "qubits": [a, b]})
    return {"nq": nq, "instrs": instrs, "seed": rng.randrange(1 << 30), "max_gamma": 1e6, "max_backjumps": None,
            "gate_lo": True, "wire_lo": True, "width": 2, "exact": False}


def gen_near_tie(rng, tier):
    """a chain in which the width limit forces one cut and the candidates' overheads differ by a relative 1e-6 .. 1e-5 (or one of them is
    within 1e-5 of an integer kappa): a flag or a comparison with a loose tolerance picks the dearer one"""
    import math
    nq = rng.randint(3, 4)
    fam = rng.choice(["rzz", "rxx", "ryy", "crz", "cp"])
    base = rng.choice([0.5, 1.1, math.pi / 2 - 0.002, math.pi / 6])
    eps = rng.choice([4e-6, -4e-6, 1e-5, 2e-6])
    angles = [base + eps, base] if rng.random() < 0.5 else [base, base + eps]
    if rng.random() < 0.6:
        # the greedy warm start applies the first gate and has to cut the last one: make that the (slightly) dearer of the two
        nq, angles = 3, [base, base + abs(eps)]
    instrs = [{"name": fam, "qubits": [k, k + 1], "params": [angles[k % 2]]} for k in range(nq - 1)]
    if nq > 3 and rng.random() < 0.4:
        instrs[rng.randrange(len(instrs))] = {"name": "cx", "qubits": instrs[0]["qubits"] if rng.random() < 0.5 else instrs[-1]["qubits"]}
    return {"nq": nq, "instrs": instrs, "seed": rng.randrange(1 << 30), "max_gamma": 1e6, "max_backjumps": None,
            "gate_lo": True, "wire_lo": rng.random() < 0.5, "width": 2, "exact": False}


def gen_trivial_gate(rng, tier):
    """a two-qubit gate at an angle where it is the identity up to local phases (kappa exactly 1) sits where the width limit forces a cut:
    cutting it is free, so the optimum is the product of the other forced cuts only"""
    import math
    nq = rng.randint(3, 4)
    triv = rng.choice([("rzz", 0.0), ("rxx", 0.0), ("cp", 0.0), ("crz", 0.0), ("ryy", 0.0), ("crx", 0.0)])
    pos = rng.randrange(nq - 1)
    instrs = []
    for k in range(nq - 1):
        if k == pos:
            instrs.append({"name": triv[0], "qubits": [k, k + 1], "params": [triv[1]]})
        else:
            instrs.append({"name": rng.choice(["cx", "cx", "swap", "cz"]), "qubits": [k, k + 1]})
    if rng.random() < 0.5:
        instrs.append({"name": "cx", "qubits": [pos, pos + 1] if rng.random() < 0.3 else [0, 1]})
    return {"nq": nq, "instrs": instrs, "seed": rng.randrange(1 << 30), "max_gamma": 1e6, "max_backjumps": None,
            "gate_lo": True, "wire_lo": rng.random() < 0.5, "width": rng.choice([2, 2, 3]), "exact": False}


def gen_repeat(rng, tier):
    """gates repeated on the same pair (the second one finds both qubits already in one subcircuit) followed by a gate that needs
    a cut; wire cuts only or both kinds; tight width"""
    nq = rng.randint(3, 4)
    pool = [rng.sample(range(nq), 2) for _ in range(rng.randint(2, 3))]
    instrs, prev = [], None
    for _ in range(rng.randint(4, 6)):
        q = prev if (prev is not None and rng.random() < 0.5) else rng.choice(pool)
        if rng.random() < 0.3:
            q = q[::-1]
        instrs.append({"name": rng.choice(["cx", "cx", "cz"]), "qubits": list(q)})
        prev = q
    return {"nq": nq, "instrs": instrs, "seed": rng.randrange(1 << 30), "max_gamma": 1e6, "max_backjumps": None,
            "gate_lo": rng.random() < 0.4, "wire_lo": True, "width": rng.choice([2, 2, 3]), "exact": True}


def gen_bridge(rng, tier, fam=None):
    """two blocks joined by one gate of a random family (every registered name), so that this gate is the one that gets cut and its
    own overhead is the reported one; qubits are first touched out of index order"""
    import math
    k = rng.randint(1, 2)
    nq = 2 * k + 2
    order = list(range(nq))
    rng.shuffle(order)
    A, B = order[: k + 1], order[k + 1:]
    fam = fam or rng.choice(gen.FIXED_2Q + gen.PARAM_2Q)
    bridge = {"name": fam, "qubits": [A[-1], B[0]]}
    if fam in gen.PARAM_2Q:
        bridge["params"] = [gen.rand_angle(rng)]
    instrs = []
    for blk in (B, A):   # the higher block is touched first
        for a, b in zip(blk, blk[1:]):
            instrs.append({"name": "cx", "qubits": [a, b]})
    instrs.insert(rng.randint(0, len(instrs)), bridge)
    for blk in (A, B):
        for a, b in zip(blk, blk[1:]):
            instrs.append({"name": "cx", "qubits": [b, a]})
    glo, wlo = rng.choice([(True, True), (True, False), (False, True)])
    return {"nq": nq, "instrs": instrs, "seed": rng.randrange(1 << 30), "max_gamma": 1e6, "max_backjumps": None, "gate_lo": glo, "wire_lo": wlo,
            "width": k + 1, "exact": fam in INT_GATES}


def gen_tie_rich(rng, tier):
    """symmetric circuits of identical gates (chains, stars, rings): many equal-cost plans, so the random tie-break decides"""
    nq = rng.randint(4, 7)
    shape = rng.choice(["chain", "star", "ring"])
    pairs = {"chain": [(i, i + 1) for i in range(nq - 1)], "star": [(0, i) for i in range(1, nq)],
             "ring": [(i, (i + 1) % nq) for i in range(nq)]}[shape]
    if rng.random() < 0.5:
        pairs = pairs + pairs[: rng.randint(1, 2)]
    instrs = [{"name": "cx", "qubits": list(p)} for p in pairs]
    glo, wlo = rng.choice([(False, True), (True, True), (False, True)])
    return {"nq": nq, "instrs": instrs, "seed": rng.choice([0, 0, 1, 2, rng.randrange(1 << 30)]), "max_gamma": 1024.0,
            "max_backjumps": rng.choice([None, 10000]), "gate_lo": glo, "wire_lo": wlo, "width": rng.randint(2, max(2, nq // 2 + 1)), "exact": True}


def gen_case(rng, tier, exact=None, restricted=None):
    """A find_cuts request.  exact=True: only gates with integer kappa (float products exact, tie-breaks reproducible)."""
    if restricted is None and exact in (None, True):
        r0 = rng.random()
        if r0 < 0.15:
            return gen_dense(rng, tier, exact=(exact is True) or rng.random() < 0.6)
        if r0 < 0.27:
            return gen_tie_rich(rng, tier)
        if r0 < 0.40 and exact is None:
            return gen_bridge(rng, tier)
        if r0 < 0.50:
            return gen_repeat(rng, tier)
    if exact is None:
        exact = rng.random() < 0.6
    nq = rng.randint(2, 6 if tier == "quick" else 8)
    ngates = rng.randint(1, 7 if tier == "quick" else 10)
    instrs = []
    live = list(range(nq))
    for _ in range(ngates):
        r = rng.random()
        if r < 0.6:
            qs = rng.sample(live, 2)
            if exact:
                instrs.append({"name": rng.choice(INT_GATES), "qubits": qs})
            else:
                instrs.append(gen.rand_2q(rng, qs))
        elif r < 0.68 and exact:
            instrs.append({"name": "move", "qubits": rng.sample(live, 2)})
        elif r < 0.75:
            k = rng.randint(1, nq)
            instrs.append({"name": "barrier", "qubits": rng.sample(live, k) if k < nq else list(range(nq))})
        else:
            instrs.append(gen.rand_1q(rng, rng.choice(live)))
    if not any(len(i["qubits"]) == 2 and i["name"] != "barrier" for i in instrs):
        instrs.append({"name": "cx", "qubits": rng.sample(live, 2)})
    if rng.random() < 0.03 and nq >= 3:
        instrs.insert(rng.randint(0, len(instrs)), {"name": "ccx", "qubits": rng.sample(live, 3)})
    width = rng.choice([1, 2, 2, 3, 3, 4, nq])
    if restricted is None:
        restricted = rng.random() < 0.35
    mg, mb = 1024.0, None
    if restricted:
        mg = rng.choice([1.0, 2.5, 3.0, 4.0, 9.0, 16.0, 50.0, 1024.0])
        mb = rng.choice([None, 0, 1, 2, 5, 100])
    else:
        mg = rng.choice([1024.0, 1e6])
        mb = rng.choice([None, 10000])
    glo, wlo = rng.choice([(True, True), (True, True), (True, False), (False, True)])
    p = {"nq": nq, "instrs": instrs, "seed": rng.choice([0, rng.randrange(1 << 30), rng.randrange(1 << 30), rng.randrange(1 << 30)]), "max_gamma": mg, "max_backjumps": mb, "gate_lo": glo, "wire_lo": wlo,
         "width": width, "exact": exact}
    r = rng.random()
    if r < 0.02:
        p["width"] = rng.choice([0, -1])
    elif r < 0.04:
        p["max_gamma"] = rng.choice([0.5, 0.0, -1.0, 0.999999])
    elif r < 0.06:
        p["max_backjumps"] = -1
    return p


def build(payload):
    """optional payload keys (absent in all older payloads): "qregs": [sizes] — the qubits live in several quantum registers (instruction qubits
    stay positions in the circuit); instructions {"name": "delay", "qubits": [q], "params": [duration]} — idle time, legal circuit content that
    is an ordinary one-qubit instruction for the cut finder"""
    desc = {"nq": payload["nq"], "instrs": payload["instrs"]}
    if payload.get("qregs"):
        desc["qregs"] = list(payload["qregs"])
    delays = [k for k, i in enumerate(payload["instrs"]) if i["name"] == "delay"]
    if not delays:
        return canon.build_circuit(desc)
    from qiskit.circuit import CircuitInstruction, Delay
    # canon.mk_op has no delay: build with a one-qubit placeholder at those positions and replace it afterwards
    desc["instrs"] = [{"name": "id", "qubits": i["qubits"]} if k in delays else i for k, i in enumerate(payload["instrs"])]
    qc = canon.build_circuit(desc)
    for k in delays:
        ps = payload["instrs"][k].get("params") or [100]
        qc.data[k] = CircuitInstruction(Delay(int(ps[0])), list(qc.data[k].qubits), [])
    return qc


def _params(payload):
    from qiskit_addon_cutting import OptimizationParameters, DeviceConstraints
    return (OptimizationParameters(seed=payload["seed"], max_gamma=payload["max_gamma"], max_backjumps=payload["max_backjumps"],
                                   gate_lo=payload["gate_lo"], wire_lo=payload["wire_lo"]), payload["width"])


def canon_output(qc, out, meta):
    """Map the returned circuit back onto the input instruction list."""
    items = []
    bases = []
    j = 0
    data = qc.data
    for inst in out.data:
        nm = inst.operation.name
        qs = [out.find_bit(q).index for q in inst.qubits]
        if nm == "cut_wire":
            items.append(["marker", qs[0]])
            continue
        if j >= len(data):
            return {"mismatch": "extra instruction in output"}
        oq = [qc.find_bit(q).index for q in data[j].qubits]
        if nm == "qpd_2q":
            if oq != qs:
                return {"mismatch": f"cut gate {j} on qubits {qs}, original on {oq}"}
            items.append(["cut", j])
            b = inst.operation.basis
            # fingerprint of the decomposition attached to the cut gate (a function of the gate alone, whatever was decomposed before)
            bases.append([[round(float(c), 9) for c in b.coeffs], [[[o.name for o in side] for side in m] for m in b.maps]])
            if data[j].operation.name not in _EXPLICIT:
                from .oracles import channel
                longest = max((len(side) for m in b.maps for side in m), default=0)
                if longest > 12:
                    # a KAK decomposition has at most five operations per side (local unitary, up to three, local unitary);
                    # much longer lists mean the local unitaries were applied again and again — not worth multiplying out
                    return {"mismatch": f"the basis attached to cut gate {j} ({data[j].operation.name}) is not a decomposition of that gate: "
                                        f"{longest} operations on one side of a map"}
                err = float(np.abs(channel.basis_ptm(b) - channel.ptm2_gate(data[j].operation)).max())
                if err > 1e-7:
                    return {"mismatch": f"the basis attached to cut gate {j} ({data[j].operation.name}) is not a decomposition of that gate: "
                                        f"max transfer-matrix error {err:.2e}"}
        else:
            if oq != qs or data[j].operation != inst.operation:
                return {"mismatch": f"instruction {j} changed"}
            items.append(["orig", j])
        j += 1
    if j != len(data):
        return {"mismatch": "instructions missing from output"}
    return {"items": items, "cuts": [[c[0], int(c[1])] for c in meta["cuts"]], "overhead": float(meta["sampling_overhead"]),
            "minimum_reached": bool(meta["minimum_reached"]), "bases": bases}


def poke_engine_selection():
    """what a caller trying out another search engine does on *its own* settings object (the attempt is refused)"""
    from qiskit_addon_cutting.cut_finding.optimization_settings import OptimizationSettings
    from qiskit_addon_cutting.cut_finding.lo_cuts_optimizer import LOCutsOptimizer
    from qiskit_addon_cutting.cut_finding.circuit_interface import SimpleGateList
    st = OptimizationSettings(seed=1)
    st.set_engine_selection("CutOptimization", "BeamSearch")
    try:
        from qiskit_addon_cutting.automated_cut_finding import DeviceConstraints
        LOCutsOptimizer(SimpleGateList([]), st, DeviceConstraints(2))
    except Exception:
        pass


def run_real(payload, with_stats=False):
    from qiskit_addon_cutting import find_cuts, DeviceConstraints
    if payload.get("special") == "engine":
        try:
            poke_engine_selection()
        except Exception:
            pass
        return {"ok": "poked"}
    qc = build(payload)
    opt, width = _params(payload)
    if payload.get("reuse_constraints"):
        # a constraints object built for another width and then edited (width sweep), possibly through a shallow copy
        import copy
        cons = DeviceConstraints(max(1, width) + 2)
        if payload["reuse_constraints"] == "copy":
            cons = copy.copy(cons)
        cons.qubits_per_subcircuit = width
    else:
        cons = DeviceConstraints(width)
    out, meta = find_cuts(qc, opt, cons)
    return {"ok": canon_output(qc, out, meta)}


def gammas(payload):
    """per instruction: exact kappa (two-qubit Gate), None, or 'error' (decomposition refused)"""
    from qiskit.circuit import Gate
    from qiskit_addon_cutting.qpd import QPDBasis
    qc = build(payload)
    res = []
    for inst in qc.data:
        g = None
        if isinstance(inst.operation, Gate) and len(inst.qubits) == 2:
            try:
                g = frac(QPDBasis.from_instruction(inst.operation).kappa)
            except ValueError:
                g = "error"
        res.append(g)
    return res


def rnd_stream(seed, n):
    rg = np.random.default_rng(seed)
    return [frac(rg.random()) for _ in range(n)]


def model_line(payload, nrnd=None):
    gs = gammas(payload)
    instrs = [{"name": i["name"], "qubits": i["qubits"], "gamma": g} for i, g in zip(payload["instrs"], gs)]
    ng = sum(1 for i in payload["instrs"] if len(i["qubits"]) >= 2 and i["name"] != "barrier")
    if nrnd is None:
        nrnd = min(60000, 200 + 40 * (5 ** min(ng, 5)))
    payload["_nrnd"] = nrnd
    return {"op": "c07.find_cuts", "instrs": instrs, "nq": payload["nq"], "max_gamma": frac(payload["max_gamma"]),
            "max_backjumps": payload["max_backjumps"], "gate_lo": payload["gate_lo"], "wire_lo": payload["wire_lo"],
            "width": payload["width"], "rnds": rnd_stream(payload["seed"], nrnd), "fuel": 400000}


def model_canon(out):
    if "driver_error" in out:
        raise RuntimeError(out["driver_error"])
    if "error" in out:
        return out
    o = out["ok"]
    return {"ok": {"items": o["items"], "cuts": o["cuts"], "overhead": Fraction(o["overhead"]), "minimum_reached": o["minimum_reached"],
                   "enqueued": o["enqueued"], "visited": o["visited"]}}


def compare(payload, real, model):
    if "error" in real or "error" in model:
        return None if real == model else f"real={str(real)[:200]} model={str(model)[:200]}"
    r, m = real["ok"], model["ok"]
    if m["enqueued"] + 50 > payload.get("_nrnd", 10 ** 9):
        return None  # the supplied random stream was too short for this search: inconclusive, not compared
    if "mismatch" in r:
        return "output is not the input with markers: " + r["mismatch"]
    unrestricted = payload["max_backjumps"] is None and payload["max_gamma"] >= 1024
    if payload["exact"]:
        if r["items"] != m["items"]:
            return f"cut circuit differs: real {r['items']} model {m['items']}"
        if r["cuts"] != m["cuts"]:
            return f"metadata cuts differ: real {r['cuts']} model {m['cuts']}"
        if Fraction(r["overhead"]) != m["overhead"]:
            return f"overhead {r['overhead']} vs model {float(m['overhead'])}"
        if r["minimum_reached"] != m["minimum_reached"]:
            return f"minimum_reached {r['minimum_reached']} vs model {m['minimum_reached']}"
        return None
    # general gates: float rounding may reorder equal-cost states; compare what does not depend on tie-breaks
    if unrestricted:
        if abs(r["overhead"] - float(m["overhead"])) > 1e-9 * max(1.0, r["overhead"]):
            return f"overhead {r['overhead']} vs model {float(m['overhead'])}"
        if r["minimum_reached"] != m["minimum_reached"]:
            return f"minimum_reached {r['minimum_reached']} vs model {m['minimum_reached']}"
    return None


# ---------------------------------------------------------------- independent segment model

def two_qubit_gates(payload):
    return [(k, i) for k, i in enumerate(payload["instrs"]) if len(i["qubits"]) >= 2 and i["name"] != "barrier"]


def widths_of_plan(nq, gates, plan):
    """plan[k] in {'leave','gate','L','R','B'} for the k-th two-qubit gate; returns list of component sizes (segments)."""
    parent = {}

    def find(x):
        while parent[x] != x:
            parent[x] = parent[parent[x]]
            x = parent[x]
        return x

    def union(a, b):
        a, b = find(a), find(b)
        if a != b:
            parent[a] = b
    seg = {}
    cnt = 0
    used = set()
    for (_, g), ch in zip(gates, plan):
        for q in g["qubits"]:
            if q not in seg:
                seg[q] = cnt
                parent[cnt] = cnt
                cnt += 1
        q1, q2 = g["qubits"]
        if ch in ("L", "B"):
            seg[q1] = cnt
            parent[cnt] = cnt
            cnt += 1
        if ch in ("R", "B"):
            seg[q2] = cnt
            parent[cnt] = cnt
            cnt += 1
        if ch != "gate":
            union(seg[q1], seg[q2])
    comp = {}
    for s in range(cnt):
        comp[find(s)] = comp.get(find(s), 0) + 1
    return list(comp.values()) or [1]


def brute_force(payload, gs=None, limit=7):
    """minimum gamma over all permitted plans meeting the width limit (None if infeasible); None,None if too large"""
    gates = two_qubit_gates(payload)
    if any(len(g["qubits"]) != 2 for _, g in gates) or len(gates) > limit:
        return "skip", None
    gs = gs if gs is not None else gammas(payload)
    best, best_plan = None, None
    choices = []
    for k, g in gates:
        c = ["leave"]
        if payload["gate_lo"] and gs[k] not in (None, "error"):
            c.append("gate")
        if payload["wire_lo"]:
            c += ["L", "R", "B"]
        choices.append(c)
    W = payload["width"]
    for plan in itertools.product(*choices):
        if max(widths_of_plan(payload["nq"], gates, plan)) > W:
            continue
        cost = 1.0
        for (k, g), ch in zip(gates, plan):
            cost *= {"leave": 1.0, "L": 4.0, "R": 4.0, "B": 16.0}.get(ch) or float(Fraction(gs[k]))
        if best is None or cost < best - 1e-12:
            best, best_plan = cost, plan
    return best, best_plan


def analyse_output(payload, r, gs):
    """Independent re-analysis of a returned (items, cuts, overhead): the clauses of C07."""
    if "mismatch" in r:
        return "output is not the input with only markers added: " + r["mismatch"]
    items = r["items"]
    # metadata = positions and kinds of the markers
    exp = [["Gate Cut", i] for i, it in enumerate(items) if it[0] == "cut"] + [["Wire Cut", i] for i, it in enumerate(items) if it[0] == "marker"]
    if sorted(map(tuple, r["cuts"])) != sorted(map(tuple, exp)):
        return f"metadata {r['cuts']} does not list exactly the markers {exp}"
    instrs = payload["instrs"]
    # wire-cut markers sit directly before a two-qubit gate on their qubit
    plan = {}
    pending = []
    for it in items:
        if it[0] == "marker":
            pending.append(it[1])
            continue
        k = it[1]
        ins = instrs[k]
        if pending:
            if len(ins["qubits"]) != 2 or ins["name"] == "barrier" or any(q not in ins["qubits"] for q in pending) or len(set(pending)) != len(pending):
                return f"wire-cut marker(s) on {pending} are not directly before a two-qubit gate on those qubits (next instruction {k})"
            sides = sorted(ins["qubits"].index(q) for q in pending)
            plan[k] = {(0,): "L", (1,): "R", (0, 1): "B"}[tuple(sides)]
            if it[0] == "cut":
                return f"gate {k} is both wire cut and gate cut"
            pending = []
        elif it[0] == "cut":
            plan[k] = "gate"
    if pending:
        return "dangling wire-cut marker at the end"
    gates = two_qubit_gates(payload)
    full = [plan.get(k, "leave") for k, _ in gates]
    if not payload["gate_lo"] and "gate" in full:
        return "gate cut used although gate cuts are not permitted"
    if not payload["wire_lo"] and any(c in ("L", "R", "B") for c in full):
        return "wire cut used although wire cuts are not permitted"
    ws = widths_of_plan(payload["nq"], gates, full)
    if max(ws) > payload["width"]:
        return f"a subcircuit needs {max(ws)} qubits, limit {payload['width']} (plan {full})"
    cost = 1.0
    for (k, g), ch in zip(gates, full):
        cost *= {"leave": 1.0, "L": 4.0, "R": 4.0, "B": 16.0}.get(ch) or float(Fraction(gs[k]))
    if abs(cost * cost - r["overhead"]) > 1e-9 * max(1.0, r["overhead"]):
        return f"reported overhead {r['overhead']} but the cuts made cost {cost * cost}"
    return None


def describe(payload):
    g = two_qubit_gates(payload)
    return {"nq": payload["nq"], "gates2q": len(g), "width": payload["width"], "gate_lo": payload["gate_lo"], "wire_lo": payload["wire_lo"],
            "max_backjumps": str(payload["max_backjumps"]), "max_gamma": payload["max_gamma"], "exact": payload["exact"]}


# ---------------------------------------------------------------- deterministic families (independent of the run's seed)

def _fam(nq, instrs, width, glo=True, wlo=True, seed=0, mg=1e6, mb=None, exact=True, **extra):
    p = {"nq": nq, "instrs": [dict(i) for i in instrs], "seed": seed, "max_gamma": mg, "max_backjumps": mb, "gate_lo": glo, "wire_lo": wlo,
         "width": width, "exact": exact, "always_oracle": True}
    p.update(extra)
    return p


def _g(name, *qs, params=None):
    d = {"name": name, "qubits": list(qs)}
    if params is not None:
        d["params"] = list(params)
    return d


def family_delays():
    """Circuits that contain Delay instructions (idle time: an ordinary one-qubit instruction for the finder) before, directly in front of,
    between and after the gates that have to be cut, on busy and on otherwise idle qubits; gate cuts, wire cuts, both; unrestricted search
    and the greedy answer (max_backjumps=0).  Positions reported by the finder are positions in the *input* circuit, delays included."""
    d = lambda q, t=100: _g("delay", q, params=[t])
    chain4 = [_g("cx", 0, 1), _g("cx", 1, 2), _g("cx", 2, 3)]
    out = []
    # a delay before everything (the instruction one position before the gate to be cut is another two-qubit gate)
    lead = [d(0, 50)] + chain4
    out += [_fam(4, lead, 2), _fam(4, lead, 2, wlo=False, seed=5, mb=0), _fam(4, lead, 2, glo=False, seed=1)]
    # a delay directly in front of the gate that has to be cut (the instruction one position earlier is the delay / a one-qubit gate)
    between = [_g("h", 0), _g("cx", 0, 1), d(1), _g("cx", 1, 2), _g("cx", 2, 3)]
    out += [_fam(4, between, 2), _fam(4, between, 2, wlo=False, seed=3), _fam(4, between, 2, glo=False, seed=2, mb=0)]
    # several delays, blocks {0,1,2} and {3,4}, limit 3
    two = [_g("cx", 0, 1), d(0, 10), _g("cx", 1, 2), d(4, 10), _g("cx", 3, 4), _g("cx", 2, 3), _g("cx", 3, 4)]
    out += [_fam(5, two, 3, glo=False), _fam(5, two, 3, seed=7)]
    # delays on an otherwise idle qubit and on a qubit that is first used late; a one-qubit gate before the gate to be cut
    idle = [d(4, 20), d(3, 20), _g("cx", 1, 0), _g("x", 1), _g("cz", 1, 2), d(2, 5), _g("cx", 3, 2)]
    out += [_fam(5, idle, 2, seed=11), _fam(5, idle, 2, glo=False, seed=11)]
    # control: the only delay comes after the last cut position
    after = [_g("h", 0)] + chain4 + [d(3), _g("rx", 3, params=[0.1])]
    out += [_fam(4, after, 2, seed=4)]
    return out


def family_registers():
    """Circuits whose qubits live in several quantum registers (data + ancilla, two named registers, three registers), with gates inside
    the second register and gates that cross registers; instruction qubits are positions in the circuit (find_bit), whatever the register."""
    out = []
    # two registers of three, a pair inside each: nothing needs cutting at width 2
    out += [_fam(6, [_g("cx", 0, 1), _g("h", 3), _g("cx", 4, 5)], 2, qregs=[3, 3]),
            _fam(6, [_g("cx", 0, 1), _g("h", 3), _g("cx", 4, 5)], 2, glo=False, seed=1, qregs=[3, 3])]
    # data register + one ancilla that talks to every data qubit
    star = [_g("cx", 0, 3), _g("cx", 1, 3), _g("cx", 2, 3)]
    out += [_fam(4, star, 3, qregs=[3, 1]), _fam(4, star, 2, seed=2, qregs=[3, 1]), _fam(4, star, 2, glo=False, seed=3, qregs=[1, 3])]
    # a chain that crosses from one register into the next
    chain = [_g("cx", 0, 1), _g("rzz", 1, 2, params=[0.4]), _g("cx", 2, 3)]
    out += [_fam(4, chain, 2, exact=False, qregs=[2, 2]), _fam(4, chain, 2, exact=False, seed=9, qregs=[1, 2, 1])]
    # gates only in the later registers, repeated pairs, wire cuts only
    rep = [_g("cx", 3, 4), _g("cx", 3, 4), _g("cz", 4, 2), _g("cx", 3, 4), _g("cx", 2, 1)]
    out += [_fam(5, rep, 2, glo=False, seed=6, qregs=[2, 3]), _fam(5, rep, 3, seed=6, qregs=[1, 1, 3])]
    return out


def family_bound_gap():
    """Unrestricted searches in which the greedy warm start contains wire cuts (an expensive gate — swap, iswap, dcx — sits where the width
    limit forces a cut) while the optimum cuts cheaper gates instead and costs less than the greedy answer but more than what the greedy
    answer would cost with entangled-pair (LOCC) wire cuts (3 instead of 4 per wire; 7 instead of 16 for two between the same parts)."""
    import math
    a45, a25, a40 = math.asin(0.45), math.asin(0.25), math.asin(0.40)
    out = []
    # two cheap rotations (kappa 1.9 each, product 3.61) vs one wire cut (4) in front of the expensive gate
    for big, fam, seed in (("swap", "rzz", 0), ("iswap", "rxx", 1), ("dcx", "ryy", 2)):
        out.append(_fam(3, [_g(fam, 1, 2, params=[a45]), _g(fam, 1, 2, params=[a45]), _g(big, 0, 1)], 2, exact=False, seed=seed))
    # three rotations of kappa 1.5 (3.375), kappas 1.8 * 2.0 = 3.6 from controlled rotations (kappa = 1 + 2 sin(theta/2))
    out.append(_fam(3, [_g("rzz", 2, 1, params=[a25])] * 3 + [_g("swap", 1, 0)], 2, exact=False, seed=3))
    out.append(_fam(4, [_g("h", 0), _g("crz", 2, 3, params=[2 * a40]), _g("cp", 2, 3, params=[math.pi / 3]), _g("iswap", 1, 2), _g("x", 0)], 2,
                    exact=False, seed=4))
    # the expensive gate first: the greedy pass wire-cuts in front of the later gates
    out.append(_fam(3, [_g("swap", 0, 1), _g("rzz", 1, 2, params=[a45]), _g("rzz", 2, 1, params=[a45])], 2, exact=False, seed=5))
    # two wire cuts between the same two parts in the greedy answer (16; 7 with entangled pairs) vs two cx gate cuts (9)
    out.append(_fam(3, [_g("cx", 1, 2), _g("swap", 0, 1), _g("cx", 1, 2), _g("swap", 0, 1)], 2, exact=False, seed=6))
    out.append(_fam(4, [_g("swap", 0, 1), _g("cx", 1, 2), _g("swap", 2, 3), _g("cx", 1, 2), _g("iswap", 0, 1)], 2, exact=False, seed=7))
    # controls: same shapes, optimum equal to the greedy answer
    out.append(_fam(3, [_g("rzz", 1, 2, params=[1.2]), _g("rzz", 1, 2, params=[1.2]), _g("swap", 0, 1)], 2, exact=False, seed=8))
    return out


def family_full_pair():
    """Both cut kinds permitted, unrestricted search: two subcircuits that are exactly full (width == limit) and a qubit pair across them that
    is hit by several two-qubit gates whose kappas multiply to more than 16.  Neither wire can be cut on its own (the other side has no room),
    so the candidates are "cut every crossing gate" and "cut both wires in front of the first crossing gate" (16, all later gates on the pair
    are then free inside a fresh two-wire subcircuit) — the latter is the optimum.  Controls: one crossing gate (the gate cut wins), one side
    with room (a single wire cut wins), kappa product below 16, wire cuts not permitted."""
    out = []
    two_pairs = lambda g: [_g(g, 0, 1), _g(g, 2, 3)]
    # swap-like gates (kappa 7): two crossing gates are enough (49 > 16)
    out.append(_fam(4, two_pairs("swap") + [_g("swap", 1, 2), _g("swap", 1, 2)], 2, exact=False, seed=0))
    out.append(_fam(4, [_g("iswap", 1, 0), _g("iswap", 3, 2), _g("swap", 2, 1), _g("iswap", 1, 2)], 2, exact=False, seed=1))
    out.append(_fam(4, [_g("swap", 3, 1), _g("iswap", 0, 2), _g("dcx", 0, 1), _g("h", 0), _g("swap", 1, 0)], 2, exact=False, seed=2))
    # kappa-3 gates: three crossing gates (27 > 16)
    out.append(_fam(4, two_pairs("swap") + [_g("cx", 1, 2), _g("cz", 1, 2), _g("cy", 2, 1)], 2, exact=False, seed=3))
    out.append(_fam(4, [_g("cx", 0, 1)] * 2 + [_g("cx", 2, 3)] * 2 + [_g("cx", 1, 2)] * 3, 2, seed=4))
    # a cheap and an expensive crossing gate (21 > 16), a one-qubit gate between them
    out.append(_fam(4, two_pairs("iswap") + [_g("cx", 2, 1), _g("x", 1), _g("swap", 1, 2)], 2, exact=False, seed=5))
    # three qubits per subcircuit
    blocks3 = [_g("swap", 0, 1), _g("swap", 1, 2), _g("swap", 3, 4), _g("swap", 4, 5)]
    out.append(_fam(6, blocks3 + [_g("swap", 2, 3), _g("iswap", 3, 2)], 3, exact=False, seed=6))
    # the crossing gates are followed by a gate between the old blocks (the fresh two-wire subcircuit stays apart, one more cut is needed)
    out.append(_fam(4, two_pairs("swap") + [_g("swap", 1, 2), _g("iswap", 1, 2), _g("cx", 0, 3)], 2, exact=False, seed=8))
    # controls
    out.append(_fam(4, two_pairs("swap") + [_g("swap", 1, 2)], 2, exact=False, seed=9))                       # one crossing gate
    out.append(_fam(3, [_g("swap", 0, 1), _g("swap", 1, 2), _g("swap", 1, 2)], 2, exact=False, seed=10))       # one side has room
    out.append(_fam(4, two_pairs("cx") + [_g("cx", 1, 2), _g("cx", 1, 2)], 2, seed=11))                       # 9 < 16
    out.append(_fam(4, two_pairs("swap") + [_g("swap", 1, 2), _g("swap", 1, 2)], 2, wlo=False, exact=False, seed=12))
    out.append(_fam(4, two_pairs("swap") + [_g("swap", 1, 2), _g("swap", 1, 2)], 2, glo=False, exact=False, seed=13))
    return out


def min_gate_cut_partition(payload, gs=None, max_nq=12):
    """Independent optimum for requests that permit gate cuts only, whatever the number of gates: a plan is a set of cut gates, the uncut gates'
    connected components must meet the width limit — so the minimum is, over all partitions of the touched qubits into blocks of at most
    `width` qubits, the smallest product of the kappas of the gates that cross blocks (a gate without a decomposition may not cross).
    Branch and bound over set partitions (kappa >= 1, so the partial product is a lower bound).  Returns the minimum gamma, None if no plan
    meets the limit, "skip" if not applicable."""
    if payload["wire_lo"] or not payload["gate_lo"]:
        return "skip"
    gates = two_qubit_gates(payload)
    if any(len(g["qubits"]) != 2 for _, g in gates):
        return "skip"
    gs = gs if gs is not None else gammas(payload)
    qs = sorted({q for _, g in gates for q in g["qubits"]})
    if len(qs) > max_nq:
        return "skip"
    pos = {q: i for i, q in enumerate(qs)}
    n, W = len(qs), payload["width"]
    INF = float("inf")
    w = [[1.0] * n for _ in range(n)]
    for k, g in gates:
        a, b = (pos[q] for q in g["qubits"])
        kap = INF if gs[k] in (None, "error") else float(Fraction(gs[k]))
        if kap < 1.0 - 1e-12:
            return "skip"
        w[a][b] *= kap
        w[b][a] *= kap
    best = [INF]
    block, sizes = [-1] * n, []

    def rec(q, cost):
        if cost >= best[0]:
            return
        if q == n:
            best[0] = cost
            return
        for blk in range(len(sizes) + 1):
            new = blk == len(sizes)
            if new:
                sizes.append(0)
            if sizes[blk] < W:
                c = cost
                for p in range(q):
                    if block[p] != blk:
                        c *= w[q][p]
                block[q] = blk
                sizes[blk] += 1
                rec(q + 1, c)
                sizes[blk] -= 1
                block[q] = -1
            if new:
                sizes.pop()
    if n and W >= 1:
        rec(0, 1.0)
    elif not n:
        return 1.0
    return None if best[0] == INF else best[0]


_LONG_A = [(0, 3), (1, 7), (7, 1), (2, 4), (8, 0), (6, 4), (9, 8), (9, 3), (2, 5), (1, 4), (4, 3), (9, 8), (1, 0), (4, 3), (3, 9), (8, 3), (7, 5), (6, 7),
           (1, 5), (1, 7), (4, 7), (0, 9), (5, 7), (0, 3), (8, 2), (0, 6), (1, 3), (0, 4), (9, 5), (1, 9), (4, 9), (2, 3), (8, 2), (7, 0), (6, 7), (0, 9)]
_LONG_B = [(5, 8), (1, 5), (0, 6), (4, 9), (7, 4), (8, 2), (2, 7), (5, 0), (5, 7), (3, 6), (0, 7), (8, 2), (3, 9), (9, 6), (1, 2), (3, 5), (0, 6), (7, 9),
           (8, 2), (7, 8), (2, 0), (6, 4), (8, 7), (0, 9), (6, 4), (1, 6), (2, 9), (0, 8), (3, 2), (0, 2), (6, 5), (2, 4), (0, 8), (5, 1), (0, 4), (3, 2)]


def family_long_search():
    """Unrestricted requests (max_backjumps=None, gamma limit far above the optimum) whose search is long: dense circuits on ten qubits with 36
    two-qubit gates, gate cuts only, for which the best-first search performs about 13 000 backjumps (more than the default limit of 10 000)
    before the frontier reaches the incumbent.  "No backjump limit" must mean none: the minimum is reported as reached and equals the
    independent optimum (`min_gate_cut_partition`).  Routed through the oracle only (`oracle_only`: the model's search is not run on them —
    random stream and fuel of the driver line are sized for small instances); `oracle_seeds` limits the oracle's re-runs under other seeds."""
    out = []
    out.append(_fam(10, [_g("cx", a, b) for a, b in _LONG_A], 4, wlo=False, mg=1e12, seed=0, oracle_only=True, oracle_seeds=[]))
    out.append(_fam(10, [_g("cz" if k % 3 == 0 else "cx", a, b) for k, (a, b) in enumerate(_LONG_B)], 6, wlo=False, mg=1e12, seed=3,
                    oracle_only=True, oracle_seeds=[]))
    return out


def family_fractional_limit():
    """Unrestricted searches under a NON-INTEGER gamma limit that lies a little above the optimum while its integer part lies below it
    (floor(M) < optimum <= M), on circuits whose greedy warm start is not optimal (a weak rotation is applied first, a dearer gate then has to
    be cut; the optimum cuts the rotation instead).  "Gamma limit above the optimum" is a statement about the limit the caller gave, whatever
    its type: the minimum must be reported as reached and returned.  Optima by construction (kappa of rzz/rxx(t) = 1 + 2|sin t|, of
    crz(t) = 1 + 2|sin t/2|, cx 3, swap-like 7, wire cut 4).  Controls: the next integer, a fractional limit whose integer part is already
    above the optimum, a fractional limit below the optimum (only the flag's soundness is demanded there)."""
    import math
    a45, a25 = math.asin(0.45), math.asin(0.25)
    out = []
    # optimum 2.5667 (cut rzz(0.9)); greedy: gate cut of the cx, 3
    line = [_g("rzz", 0, 1, params=[0.9]), _g("h", 1), _g("cx", 1, 2)]
    out += [_fam(3, line, 2, exact=False, mg=2.62, seed=0), _fam(3, line, 2, exact=False, mg=2.97, seed=1),
            _fam(3, line, 2, exact=False, mg=2.97, wlo=False, seed=2)]
    # optimum 1.9 * 1.9 = 3.61 (two rotations); greedy: wire cut in front of the swap, 4
    two = [_g("rxx", 1, 2, params=[a45]), _g("rxx", 1, 2, params=[a45]), _g("swap", 0, 1)]
    out += [_fam(3, two, 2, exact=False, mg=3.7, seed=3), _fam(3, two, 2, exact=False, mg=3.995, seed=4)]
    # optimum 2.6829 (cut rzz(1.0)); greedy 4
    out += [_fam(3, [_g("rzz", 0, 2, params=[1.0]), _g("swap", 1, 2)], 2, exact=False, mg=2.75, seed=5)]
    # optimum 1.5, limit below 2; gate cuts only and both kinds
    weak = [_g("rzz", 0, 1, params=[a25]), _g("x", 0), _g("cx", 1, 2)]
    out += [_fam(3, weak, 2, exact=False, mg=1.6, seed=6), _fam(3, weak, 2, exact=False, mg=1.99, wlo=False, seed=7)]
    # optimum 1.3973 * 4 = 5.589 (rotation cut, then one wire of the last swap); greedy 7; controlled rotation: 1 + 2 sin(0.35/2) = 1.3482, * 4 = 5.393
    out += [_fam(4, [_g("swap", 2, 3), _g("rzz", 0, 1, params=[0.2]), _g("swap", 1, 2)], 2, exact=False, mg=5.9, seed=8),
            _fam(4, [_g("crz", 1, 0, params=[0.35]), _g("swap", 2, 3), _g("iswap", 1, 2)], 2, exact=False, mg=5.5, seed=9)]
    # controls: the next integer; integer part already above the optimum; limit below the optimum; greedy answer already optimal
    out += [_fam(3, line, 2, exact=False, mg=3.0, seed=10), _fam(3, two, 2, exact=False, mg=4.4, seed=11),
            _fam(3, line, 2, exact=False, mg=2.5, seed=12), _fam(3, weak, 2, exact=False, mg=1.45, seed=13),
            _fam(3, [_g("cx", 0, 1), _g("rzz", 1, 2, params=[0.9])], 2, exact=False, mg=2.6, seed=14)]
    return out


def family_child_order():
    """Both cut kinds permitted, unrestricted search: an expensive gate (swap, iswap, dcx: kappa 7, dearer than a wire cut, 4) stands where
    one of its wires can be cut, at a search state of accumulated cost c with 4c < incumbent < 7c (the incumbent is the greedy warm start).
    The children of that state are then NOT in order of cost — the gate-cut child exceeds the incumbent and is pruned, the single-wire-cut
    children generated after it do not — and the optimum goes through one of those wire cuts: directly (c = 1), after an earlier non-greedy
    cheap cut (weak rotation, cx), at width limits 2 and 3, with the wire to cut on either side of the gate.  Controls: the same shapes with
    cx in place of the expensive gate, room for the whole circuit, and wire cuts not permitted."""
    import math
    a25, a45 = math.asin(0.25), math.asin(0.45)
    out = []
    # weak rotation in one full block, swap in the other, a swap across: greedy 7, optimum 1.397 * 4 (rotation cut + second wire of the last swap)
    out.append(_fam(4, [_g("swap", 2, 3), _g("rzz", 0, 1, params=[0.2]), _g("swap", 1, 2)], 2, exact=False, seed=0))
    out.append(_fam(4, [_g("h", 0), _g("iswap", 3, 2), _g("rzz", 1, 0, params=[0.35]), _g("rx", 1, params=[0.3]), _g("dcx", 1, 2)], 2,
                    exact=False, seed=1))
    # first wire of the crossing gate; the rotation first
    out.append(_fam(4, [_g("crz", 1, 0, params=[0.35]), _g("swap", 2, 3), _g("iswap", 2, 1)], 2, exact=False, seed=2))
    out.append(_fam(5, [_g("rzz", 2, 4, params=[0.2]), _g("iswap", 1, 3), _g("iswap", 1, 4)], 2, exact=False, seed=3))
    # the early non-greedy cut is a cx (c = 3): greedy 16 (both wires), optimum 12
    out.append(_fam(4, [_g("cx", 3, 1), _g("iswap", 2, 1), _g("iswap", 0, 1)], 2, exact=False, seed=4))
    out.append(_fam(4, [_g("cx", 3, 2), _g("swap", 1, 3), _g("swap", 3, 0)], 2, exact=False, seed=5))
    # c = 1, width limit 3: greedy cuts a later rotation after wire/gate cuts (6 resp. 6.74), optimum: one wire cut (4) of the expensive gate
    out.append(_fam(5, [_g("swap", 2, 1), _g("swap", 4, 3), _g("dcx", 3, 1), _g("rxx", 1, 4, params=[a25])], 3, exact=False, seed=6))
    out.append(_fam(4, [_g("swap", 0, 2), _g("iswap", 0, 3), _g("dcx", 1, 3), _g("rzz", 1, 0, params=[0.35])], 3, exact=False, seed=7))
    # two early cheap cuts (1.5 * 1.5), then the wire cut: optimum 9, greedy 10.5
    out.append(_fam(4, [_g("rzz", 2, 0, params=[a25]), _g("iswap", 1, 3), _g("rzz", 3, 2, params=[a25]), _g("swap", 1, 0)], 2, exact=False, seed=8))
    # longer: gates inside the blocks before the crossing gate
    out.append(_fam(4, [_g("swap", 3, 1), _g("cz", 3, 1), _g("crz", 1, 3, params=[0.2]), _g("crz", 2, 0, params=[0.2]), _g("dcx", 1, 0)], 2,
                    exact=False, seed=9))
    # controls
    out.append(_fam(4, [_g("cx", 2, 3), _g("rzz", 0, 1, params=[0.2]), _g("cx", 1, 2)], 2, exact=False, seed=10))
    out.append(_fam(4, [_g("swap", 2, 3), _g("rzz", 0, 1, params=[0.2]), _g("swap", 1, 2)], 3, exact=False, seed=11))
    out.append(_fam(4, [_g("swap", 2, 3), _g("rzz", 0, 1, params=[0.2]), _g("swap", 1, 2)], 2, wlo=False, exact=False, seed=12))
    return out


def family_tight_gamma():
    """The gamma limit is NOT a feasibility constraint: a search whose limit lies below the cost of the cuts the width limit needs is cut short
    and falls back to the greedy answer.  Circuits that need one, two and three cuts (chains, a ring, a star, a repeated pair) under limits
    that admit fewer wire cuts than needed (limit 1: none; 2..3.99: one; 4..7: two; 15.9: three of cost 4 but not 64), with wire cuts only,
    gate cuts only and both kinds, backjump limits None / 0 / 10000.  Controls: the same circuits under a generous limit."""
    cx = lambda *ps: [_g("cx", a, b) for a, b in ps]
    chain3, chain4, chain5 = cx((0, 1), (1, 2)), cx((0, 1), (1, 2), (2, 3), (0, 1)), cx((0, 1), (1, 2), (2, 3), (3, 4))
    ring = [_g("cz", 0, 1), _g("h", 1), _g("cx", 1, 2), _g("cx", 2, 3), _g("cz", 3, 0)]
    star = [_g("cx", 0, 3), _g("x", 3), _g("cx", 1, 3), _g("cx", 2, 3), _g("cx", 3, 4)]
    out = []
    k = 0
    for nq, prog, width, limits in ((3, chain3, 2, (1.0, 3.5)), (4, chain4, 2, (1.0, 4.0, 7.0)), (5, chain5, 3, (1.0, 2.0)),
                                    (4, ring, 2, (3.0, 15.9)), (5, star, 2, (1.0, 7.0)), (5, star, 3, (3.99,))):
        for mg in limits:
            for glo, wlo in ((False, True), (True, False), (True, True)):
                if (glo, wlo) != (False, True) and mg not in (1.0, limits[-1]):
                    continue
                out.append(_fam(nq, prog, width, glo=glo, wlo=wlo, seed=k, mg=mg, mb=(None, 0, 10000)[k % 3]))
                k += 1
        out.append(_fam(nq, prog, width, glo=False, wlo=True, seed=k, mg=1e6, mb=None))     # control
        k += 1
    return out
