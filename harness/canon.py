"""Canonical JSON <-> real Qiskit objects (the glue; itself exercised by every tie)."""
from __future__ import annotations

import hashlib
import math
import numpy as np
from fractions import Fraction

from .core import frac


def _lib():
    from qiskit.circuit import library as L
    from qiskit.circuit import Reset, Measure, Barrier
    from qiskit_addon_cutting.qpd import QPDMeasure
    from qiskit_addon_cutting.instructions import Move, CutWire
    return {
        "id": L.IGate, "x": L.XGate, "y": L.YGate, "z": L.ZGate, "h": L.HGate, "s": L.SGate, "sdg": L.SdgGate,
        "sx": L.SXGate, "sxdg": L.SXdgGate, "t": L.TGate, "tdg": L.TdgGate, "rx": L.RXGate, "ry": L.RYGate,
        "rz": L.RZGate, "p": L.PhaseGate, "cx": L.CXGate, "cy": L.CYGate, "cz": L.CZGate, "ch": L.CHGate,
        "cs": L.CSGate, "csdg": L.CSdgGate, "csx": L.CSXGate, "rxx": L.RXXGate, "ryy": L.RYYGate,
        "rzz": L.RZZGate, "crx": L.CRXGate, "cry": L.CRYGate, "crz": L.CRZGate, "ecr": L.ECRGate,
        "cp": L.CPhaseGate, "swap": L.SwapGate, "iswap": L.iSwapGate, "dcx": L.DCXGate, "rzx": L.RZXGate,
        "xx_plus_yy": L.XXPlusYYGate, "xx_minus_yy": L.XXMinusYYGate, "ccx": L.CCXGate, "cswap": L.CSwapGate, "ccz": L.CCZGate, "u": L.UGate,
        "rccx": L.RCCXGate, "c3x": L.C3XGate, "rcccx": L.RC3XGate,
        "r": L.RGate, "u1": L.U1Gate, "u2": L.U2Gate, "u3": L.U3Gate,
        "reset": Reset, "measure": Measure, "qpd_measure": QPDMeasure, "move": Move, "cut_wire": CutWire,
        "global_phase": L.GlobalPhaseGate,
    }


_BLK = {}


def _blk(variant):
    """a user-defined two-qubit gate class: every instance is named 'blk' and has no parameters; its unitary (given by __array__)
    depends on the variant only"""
    from qiskit.circuit import Gate
    from qiskit.circuit import library as L
    if "cls" not in _BLK:
        class Blk(Gate):
            def __init__(self, mat):
                super().__init__("blk", 2, [])
                self._mat = np.asarray(mat, dtype=complex)

            def __array__(self, dtype=None, copy=None):
                return self._mat if dtype is None else self._mat.astype(dtype)

            def __eq__(self, other):
                return isinstance(other, Blk) and np.array_equal(self._mat, other._mat)

            __hash__ = None
        _BLK["cls"] = Blk
    mats = {"cx": L.CXGate, "cz": L.CZGate, "swap": L.SwapGate, "iswap": L.iSwapGate, "dcx": L.DCXGate}
    if variant in mats:
        m = mats[variant]().to_matrix()
    else:
        m = L.RZXGate(float(variant)).to_matrix()
    return _BLK["cls"](m)


def mk_op(name, params=(), label=None):
    """Build a real operation from a canonical (name, params) pair."""
    lib = _lib()
    if name == "csxdg":
        return lib["csx"]().inverse()
    if name == "barrier":
        from qiskit.circuit import Barrier
        return Barrier(int(params[0]) if params else 1, label=label)
    if name == "blk":
        return _blk(str(params[0]) if params else "cx")
    if name == "unitary":
        from qiskit.circuit.library import UnitaryGate
        from qiskit.quantum_info import random_unitary
        seed, nq = int(params[0]), int(params[1])
        return UnitaryGate(random_unitary(2 ** nq, seed=seed), label=label)
    if name == "unitary_kron":
        # a two-qubit UnitaryGate WITHOUT non-local content: e^{i phase} (A (x) B), A and B Haar-random one-qubit unitaries (seeds), or, with
        # seeds given as lists of angles, A / B = rz.ry.rx layers; optional third parameter = global phase
        from qiskit.circuit.library import UnitaryGate
        from qiskit.quantum_info import random_unitary, Operator

        def one(s):
            if isinstance(s, (list, tuple)):
                m = np.eye(2, dtype=complex)
                for nm, a in zip(("rx", "ry", "rz"), s):
                    m = Operator(lib[nm](float(a))).data @ m
                return m
            return random_unitary(2, seed=int(s)).data
        ph = float(params[2]) if len(params) > 2 else 0.0
        return UnitaryGate(np.exp(1j * ph) * np.kron(one(params[0]), one(params[1])), label=label)
    cls = lib[name]
    ps = [float(Fraction(p)) if isinstance(p, str) and "/" in p else (float(p) if not isinstance(p, float) else p) for p in params]
    op = cls(*ps)
    if label is not None:
        op = op.to_mutable() if hasattr(op, "to_mutable") else op
        op.label = label
    return op


def canon_param(p):
    if isinstance(p, (float, np.floating)):
        return repr(float(p))
    if isinstance(p, (int, np.integer)):
        return repr(float(p))
    if isinstance(p, np.ndarray):
        return "nd:" + hashlib.sha1(np.round(p, 9).tobytes()).hexdigest()[:12]
    try:
        return repr(float(p))
    except Exception:
        return str(p)


def canon_op(op):
    return {"name": op.name, "params": [canon_param(p) for p in op.params]}


class BasisTable:
    """Numbers QPDBasis objects by identity in order of first appearance."""

    def __init__(self):
        self.objs = []

    def index(self, basis):
        for i, b in enumerate(self.objs):
            if b is basis:
                return i
        self.objs.append(basis)
        return len(self.objs) - 1

    def canon(self):
        return [canon_basis(b) for b in self.objs]


def canon_basis(b):
    return {"maps": [[[canon_op(op) for op in side] for side in m] for m in b.maps],
            "coeffs": [frac(c) for c in b.coeffs]}


def canon_instr(circ, inst, table=None):
    from qiskit_addon_cutting.qpd import BaseQPDGate, SingleQubitQPDGate
    op = inst.operation
    d = {"name": op.name, "qubits": [circ.find_bit(q).index for q in inst.qubits],
         "clbits": [circ.find_bit(c).index for c in inst.clbits],
         "params": [canon_param(p) for p in op.params], "label": getattr(op, "label", None),
         "basis": None, "half": None, "basis_id": None}
    if isinstance(op, BaseQPDGate):
        if table is not None:
            d["basis"] = table.index(op.basis)
        d["basis_id"] = op.basis_id
        if isinstance(op, SingleQubitQPDGate):
            d["half"] = op.qubit_id
    return d


def canon_circuit(circ, table=None):
    return {"nq": circ.num_qubits, "cregs": [[r.name, r.size] for r in circ.cregs],
            "instrs": [canon_instr(circ, i, table) for i in circ.data]}


def build_basis(desc):
    from qiskit_addon_cutting.qpd import QPDBasis
    if desc["kind"] == "gate":
        return QPDBasis.from_instruction(mk_op(desc["gate"], desc.get("params", ())))
    maps = [tuple([mk_op(o["name"], o.get("params", ()), o.get("label")) for o in side] for side in m) for m in desc["maps"]]
    return QPDBasis(maps, [float(Fraction(c)) for c in desc["coeffs"]])


def build_circuit(desc, bases=None):
    """desc: {nq, cregs:[[name,size]], qregs:[sizes]?, instrs:[{name,qubits,clbits?,params?,label?,basis?,half?,basis_id?}]}"""
    from qiskit.circuit import QuantumCircuit, QuantumRegister, ClassicalRegister, CircuitInstruction
    from qiskit_addon_cutting.qpd import TwoQubitQPDGate, SingleQubitQPDGate
    regs = []
    if desc.get("qregs"):
        regs = [QuantumRegister(s, f"q{i}") for i, s in enumerate(desc["qregs"])]
    else:
        regs = [QuantumRegister(desc["nq"], "q")] if desc["nq"] else []
    cregs = [ClassicalRegister(s, n) for n, s in desc.get("cregs", [])]
    qc = QuantumCircuit(*regs, *cregs)
    shared = {}
    for ins in desc["instrs"]:
        name = ins["name"]
        qs = [qc.qubits[q] for q in ins["qubits"]]
        cs = [qc.clbits[c] for c in ins.get("clbits", [])]
        if name == "qpd_2q" and ins.get("obj") is not None and ("o", ins["obj"]) in shared:
            op = shared[("o", ins["obj"])]   # the very same gate object appended at several places
        elif name == "qpd_2q":
            op = TwoQubitQPDGate(bases[ins["basis"]], basis_id=ins.get("basis_id"), label=ins.get("label"))
            if ins.get("obj") is not None:
                shared[("o", ins["obj"])] = op
        elif name == "qpd_1q":
            op = SingleQubitQPDGate(bases[ins["basis"]], ins["half"], basis_id=ins.get("basis_id"), label=ins.get("label"))
        elif name == "barrier":
            op = mk_op("barrier", [len(qs)], ins.get("label"))
        else:
            op = mk_op(name, ins.get("params", ()), ins.get("label"))
        qc.append(CircuitInstruction(op, qs, cs))
    return qc


def snapshot(circ):
    """Deep structural snapshot of a circuit (for 'input untouched' checks)."""
    from qiskit_addon_cutting.qpd import BaseQPDGate
    t = BasisTable()
    c = canon_circuit(circ, t)
    c["bases"] = t.canon()
    c["qubit_ids"] = [id(q) for q in circ.qubits]
    return c
