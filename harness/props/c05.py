"""C05 — generated subexperiments and coefficients follow the documented contract."""
from __future__ import annotations

import json
import math
import numpy as np
from fractions import Fraction

from .. import canon, gen, workflow
from ..core import frac, call_real
from .c04 import ScriptedChoice

ID = "C05"
LEAN_MODULE = "CKT.Props.C05Gen"
THEOREMS = [
    # the coefficient arithmetic of the model is the translated source (harness/translate/coeffs.py -> Generated/Coeffs.lean)
    "CKT.C05Gen.coeffOf_translated",
    "CKT.C05.insertByWeight_perm", "CKT.C05.sortByWeight_perm", "CKT.C05.sortByWeight_length", "CKT.C05.abs_coeffOf",
    "CKT.C05.sum_abs_coeff", "CKT.C05.sign_coeffOf", "CKT.C05.exact_coeff", "CKT.C05.forMR_length", "CKT.C05.forMR_mem", "CKT.C05.counts",
]
RULE = ("cut problems on 1-5 qubits, 1-4 partitions, 0-2 cuts over every gate family (58-map bases at most once), idle qubits, duplicates and identity "
        "observables; budgets N in {1..5000, inf} under a scripted numpy sampler; separated (dict) and unseparated (single circuit) call forms, the two dictionaries also with "
        "their keys listed in different orders; the joint "
        "weights returned by generate_qpd_weights and Qiskit's grouping are captured from the real run and given to the model; non-trivial = at least one cut; "
        "distinct by payload")
ASSUMPTIONS = ["generate_qpd_weights is covered by C04; its returned dict (captured in the real run) is an input of this model",
               "ObservableCollection grouping is covered by C11; groups are captured from the real run",
               "coefficients are compared to 1e-9 (float rounding), circuits exactly"]
_cache = {}


def _small_angle_case(rng):
    """two cut rotations by small angles: the joint maps that combine the rare branches of both have probability between 1e-14 and 1e-8,
    which an infinite budget must still list (C04/C05: everything above 1e-14, each coefficient exactly the product)"""
    fams = [("rzz", 0.02), ("rxx", 0.004), ("crx", 0.01), ("cp", 0.02), ("ryy", -0.01), ("crz", 0.03)]
    instrs = [workflow.gen.rand_1q(rng, 0), workflow.gen.rand_1q(rng, 1)]
    for name, th in rng.sample(fams, 2):
        qs = [0, 1] if rng.random() < 0.5 else [1, 0]
        instrs.append({"name": name, "qubits": qs, "params": [th]})
        instrs.append(workflow.gen.rand_1q(rng, rng.randrange(2)))
    return {"nq": 2, "qregs": [2], "instrs": instrs, "labels": [0, 1], "pool_idx": rng.sample(range(len(workflow.gen.LABEL_POOL)), 2),
            "obs": workflow.gen.rand_paulis(rng, 2, 2, "XYZ"), "idle": [], "part": [0, 1], "form": rng.choice(["dict", "single"]), "N": None,
            "seed": rng.randrange(1 << 30), "always_oracle": True}


def _reordered(d, how):
    """the same mapping with its keys listed in another order (a dictionary keyed by partition label is a mapping: which observables belong to
    which subcircuit is given by the key, not by the position)"""
    items = list(d.items())
    if how == "reversed":
        items = items[::-1]
    elif how == "rotated":
        items = items[1:] + items[:1]
    elif how:
        raise ValueError(how)
    return dict(items)


def _key_order_cases(rng):
    """separated problems whose `circuits` and `observables` dictionaries hold the same keys in DIFFERENT iteration orders (the caller re-keyed
    one of them: sorted by label, rebuilt by hand, decomposed separately): partitions of equal size with different observables and different
    numbers of groups / the same number of groups, partitions of different sizes, three partitions"""
    body4 = [{"name": "h", "qubits": [0]}, {"name": "cx", "qubits": [0, 1]}, {"name": "ry", "qubits": [2], "params": [0.4]},
             {"name": "cx", "qubits": [1, 2]}, {"name": "cx", "qubits": [2, 3]}, {"name": "rx", "qubits": [0], "params": [0.3]}]
    body3 = [{"name": "h", "qubits": [0]}, {"name": "cx", "qubits": [0, 1]}, {"name": "rzz", "qubits": [1, 2], "params": [0.8]},
             {"name": "ry", "qubits": [2], "params": [0.3]}]
    body6 = [{"name": "h", "qubits": [0]}, {"name": "cx", "qubits": [0, 1]}, {"name": "ry", "qubits": [2], "params": [0.7]},
             {"name": "cz", "qubits": [1, 2]}, {"name": "cx", "qubits": [2, 3]}, {"name": "ry", "qubits": [4], "params": [1.1]},
             {"name": "rzz", "qubits": [3, 4], "params": [0.6]}, {"name": "cx", "qubits": [4, 5]}, {"name": "rx", "qubits": [5], "params": [0.2]}]
    fam = [
        # labels listed second-first ("BBAA"): subcircuits come back as {B, A}; equal sizes, 2 groups vs 1 group
        (4, body4, [1, 1, 0, 0], ["ZZXX", "IZYI", "ZIIX"], {"obs_order": "reversed"}, None),
        (4, body4, [1, 1, 0, 0], ["ZZXX", "IZYI", "ZIIX"], {"obs_order": "reversed"}, 4),
        # one group per partition: the numbers of circuits agree, only rotations / measured qubits tell the partitions apart
        (4, body4, [1, 1, 0, 0], ["ZZXX"], {"obs_order": "reversed"}, None),
        (4, body4, [0, 0, 1, 1], ["XZYI", "IXZZ"], {"circ_order": "reversed"}, None),
        # partitions of different sizes
        (3, body3, [0, 0, 1], ["ZZZ", "IXX", "ZIY"], {"obs_order": "reversed"}, None),
        (3, body3, [0, 0, 1], ["ZZZ", "IXX", "ZIY"], {"circ_order": "reversed"}, 6),
        # three partitions, both dictionaries re-keyed differently
        (6, body6, [0, 0, 1, 1, 2, 2], ["ZZXXIZ", "XIZIYY", "IZIXZI"], {"obs_order": "rotated", "circ_order": "reversed"}, None),
        (6, body6, [2, 2, 0, 0, 1, 1], ["ZZXXIZ", "XIZIYY"], {"obs_order": "rotated"}, 5),
    ]
    for k, (nq, body, labels, obs, order, n_) in enumerate(fam):
        npart = max(labels) + 1
        p = {"nq": nq, "qregs": [nq], "instrs": [dict(i) for i in body], "labels": labels, "pool_idx": [0, 1, 4][:npart],
             "obs": [{"l": l, "p": 0} for l in obs], "idle": [], "part": labels, "form": "dict", "N": n_,
             "seed": 50512 + k, "always_oracle": True}   # fixed sampler seeds: the random stream of the later families is left untouched
        p.update(order)
        yield ("generate", p)


def _several_reset_runs_cases():
    """one partition whose subexperiments contain SEVERAL separate runs of back-to-back resets (two or three places where a wire is reset twice
    in a row, a triple reset, a doubled reset on each of two wires): written by the user (re-initialisation of a used wire) or arising from qubit
    re-use (a Move back onto the wire a Move has just left), next to an ordinary gate cut / the Moves' wire cuts.  Whatever the reset removals
    do with these runs, every other operation of the subcircuit and of the chosen maps must still be there, on its wire, in order."""
    def g(name, qs, *params):
        return {"name": name, "qubits": list(qs), **({"params": list(params)} if params else {})}
    r = lambda q: {"name": "reset", "qubits": [q]}   # noqa: E731
    fam = [
        # a doubled reset on each of the two wires of partition A, then gates on both; cut: cx(0,2)
        (3, [g("h", [0]), g("h", [1]), r(0), r(0), g("ry", [0], 0.4), r(1), r(1), g("ry", [1], 0.7), g("cx", [0, 2]), g("cx", [0, 1]), g("h", [2])],
         [0, 0, 1], ["ZZZ", "IZI", "IIX"], "dict", None),
        (3, [g("h", [0]), g("h", [1]), r(0), r(0), g("ry", [0], 0.4), r(1), r(1), g("ry", [1], 0.7), g("cx", [0, 2]), g("cx", [0, 1]), g("h", [2])],
         [0, 0, 1], ["ZZZ", "IZI", "IIX"], "single", 5),
        # two doubled resets one after the other on the SAME wire, the cut gate directly behind the second one
        (2, [g("h", [0]), g("ry", [1], 0.8), r(0), r(0), g("ry", [0], 0.5), g("rx", [0], 0.3), r(0), r(0), g("rzz", [0, 1], 0.9), g("ry", [0], 1.2),
             g("rx", [1], 0.2)], [0, 1], ["ZZ", "XI", "IY"], "dict", None),
        # a triple reset (two removals at neighbouring positions) and a doubled reset on another wire; finite budget
        (3, [g("h", [0]), g("ry", [1], 0.6), g("cx", [0, 1]), r(1), r(1), r(1), g("ry", [1], 0.9), g("cz", [1, 2]), r(0), r(0), g("h", [0]),
             g("cx", [0, 1]), g("ry", [2], 0.3)], [0, 0, 1], ["ZZI", "XZZ", "IYX"], "dict", 9),
        # three runs in one partition, unseparated call form
        (3, [g("h", [0]), g("h", [1]), g("cx", [0, 1]), r(0), r(0), g("ry", [0], 0.4), r(1), r(1), g("ry", [1], 0.7), g("crx", [1, 2], 1.1),
             r(0), r(0), g("rx", [0], 0.6), g("cx", [0, 1]), g("ry", [2], 0.5)], [0, 0, 1], ["ZZZ", "IXI", "YII"], "single", None),
        # qubit re-use: Move 1->2, work there, Move 2->1 back onto the wire just left (reset, reset), and wire 0 re-initialised by hand as well
        (3, [g("h", [0]), g("ry", [1], 0.5), g("cx", [0, 1]), g("move", [1, 2]), g("ry", [2], 0.3), g("move", [2, 1]), r(0), r(0), g("ry", [0], 0.6),
             g("cx", [0, 1])], [0, 0, 1], ["ZZI", "IXI"], "dict", None),
        (3, [g("h", [0]), g("ry", [1], 0.5), g("cx", [0, 1]), g("move", [1, 2]), g("ry", [2], 0.3), g("move", [2, 1]), r(0), r(0), g("ry", [0], 0.6),
             g("cx", [0, 1])], [0, 0, 1], ["ZZI", "IXI"], "dict", 25),
    ]
    for k, (nq, instrs, labels, obs, form, n_) in enumerate(fam):
        yield ("generate", {"nq": nq, "qregs": [nq], "instrs": instrs, "labels": labels, "pool_idx": [0, 1], "obs": [{"l": l, "p": 0} for l in obs],
                            "idle": [], "part": labels, "form": form, "N": n_, "seed": 51600 + k, "always_oracle": True})


def _reset_then_second_operand_cases():
    """a used wire is re-initialised by a reset and afterwards touched ONLY as the second (target / later) operand of multi-qubit instructions
    inside its partition - cz(0, q), cx(ctrl, q), two such gates, a barrier listing q second in between - while the observables are the identity
    on it (no measurement follows on the wire): the reset is neither a reset of an untouched wire, nor repeated, nor final, so it belongs to the
    subexperiment.  Cut before / after the reset, the wire in the first / second partition, both call forms, infinite and finite budgets."""
    def g(name, qs, *params):
        return {"name": name, "qubits": list(qs), **({"params": list(params)} if params else {})}
    r = lambda q: {"name": "reset", "qubits": [q]}   # noqa: E731
    fam = [
        # cz(0, q) behind the reset, cut cx(0,2) in front of it
        (3, [g("h", [0]), g("h", [1]), g("rx", [2], 0.4), g("cx", [0, 2]), r(1), g("cz", [0, 1]), g("ry", [2], 0.3)], [0, 0, 1], ["XIZ"], "dict", None),
        (3, [g("h", [0]), g("h", [1]), g("rx", [2], 0.4), g("cx", [0, 2]), r(1), g("cz", [0, 1]), g("ry", [2], 0.3)], [0, 0, 1], ["XIZ", "ZIX"], "single", 7),
        # cx(ctrl, q) behind the reset, the wire entangled before; cut rzz(0,2) at the end
        (3, [g("h", [0]), g("ry", [1], 0.8), g("cx", [0, 1]), r(1), g("cx", [0, 1]), g("ry", [0], 0.5), g("rzz", [0, 2], 0.9), g("rx", [2], 0.3)],
         [0, 0, 1], ["ZIZ", "XIX"], "dict", None),
        (3, [g("h", [0]), g("ry", [1], 0.8), g("cx", [0, 1]), r(1), g("cx", [0, 1]), g("ry", [0], 0.5), g("rzz", [0, 2], 0.9), g("rx", [2], 0.3)],
         [0, 0, 1], ["ZIZ", "XIX"], "dict", 9),
        # two second-operand gates behind the reset, four qubits, the cut in front of the reset
        (4, [g("h", [0]), g("h", [1]), g("ry", [2], 0.6), g("cx", [0, 1]), g("cz", [1, 2]), r(1), g("cx", [0, 1]), g("cz", [0, 1]), g("cx", [2, 3]),
             g("ry", [0], 0.7)], [0, 0, 1, 1], ["XIZZ", "ZIIX"], "dict", None),
        # the wire in the second partition (q = 2), unseparated call form
        (3, [g("h", [1]), g("ry", [2], 1.1), g("ry", [0], 0.4), g("cx", [1, 2]), r(2), g("cz", [1, 2]), g("cx", [0, 1]), g("rx", [1], 0.2)],
         [0, 1, 1], ["ZXI", "XZI"], "single", None),
        # a barrier listing q second between the reset and the gate
        (3, [g("h", [0]), g("h", [1]), g("cx", [0, 2]), r(1), g("barrier", [0, 1]), g("cx", [0, 1]), g("ry", [0], 0.3), g("ry", [2], 0.3)],
         [0, 0, 1], ["XIZ", "YII"], "dict", 12),
        # the partition's observables are the identity (placeholder measurement on qubit 0), cut behind the reset: the QPD outcomes depend on it
        (3, [g("h", [0]), g("h", [1]), r(1), g("cz", [0, 1]), g("ry", [0], 0.6), g("cx", [0, 2]), g("ry", [2], 0.3)], [0, 0, 1], ["IIZ", "IIX"],
         "dict", None),
    ]
    for k, (nq, instrs, labels, obs, form, n_) in enumerate(fam):
        yield ("generate", {"nq": nq, "qregs": [nq], "instrs": instrs, "labels": labels, "pool_idx": [0, 1], "obs": [{"l": l, "p": 0} for l in obs],
                            "idle": [], "part": labels, "form": form, "N": n_, "seed": 51700 + k, "always_oracle": True})


def regenerate():
    """the coefficient expression of generate_cutting_experiments (and the reset passes it applies), translated on every run"""
    from ..translate import coeffs, resets
    from ..core import REPO, LEAN
    coeffs.regenerate(REPO, LEAN)
    resets.regenerate(REPO, LEAN)


def cases(rng, tier):
    N = 100 if tier == "quick" else 800
    yield from _reset_then_second_operand_cases()
    yield from _several_reset_runs_cases()
    yield from _key_order_cases(rng)
    for _ in range(3 if tier == "quick" else 20):
        yield ("generate", _small_angle_case(rng))
    # a budget of exactly one sample (int, float): accepted, one joint map with coefficient ± the product of the kappas
    for k, n_ in enumerate((1, 1.0, 1)):
        p = workflow.gen_problem(rng, max_q=4, max_cuts=2, depth=5)
        p.update(form="single" if k == 2 else "dict", N=n_, seed=rng.randrange(1 << 30), always_oracle=True)
        yield ("generate", p)
    # a reset, then the wire only as the second operand of two-qubit gates, then another reset that is not the last thing on the wire:
    # both resets matter (written by the user on a used qubit, with a cut elsewhere)
    for k in range(2):
        instrs = [{"name": "h", "qubits": [0]}, {"name": "ry", "qubits": [1], "params": [0.9]}, {"name": "cx", "qubits": [0, 1]},
                  {"name": "reset", "qubits": [1]}, {"name": "cx", "qubits": [0, 1]}] + ([{"name": "cz", "qubits": [0, 1]}] if k else []) + [
                  {"name": "reset", "qubits": [1]}, {"name": "ry", "qubits": [1], "params": [0.4]}, {"name": "cx", "qubits": [1, 2]},
                  {"name": "ry", "qubits": [2], "params": [0.3]}]
        yield ("generate", {"nq": 3, "qregs": [3], "instrs": instrs, "labels": [0, 0, 1], "pool_idx": [0, 1],
                            "obs": [{"l": "IZI", "p": 0}, {"l": "IZZ", "p": 0}, {"l": "ZZX", "p": 0}, {"l": "XIZ", "p": 0}], "idle": [], "part": [0, 0, 1],
                            "form": "dict" if k == 0 else "single", "N": None, "seed": rng.randrange(1 << 30), "always_oracle": True})
    for _ in range(N):
        r0 = rng.random()
        if r0 < 0.12:
            # explicit resets (also trailing ones) and observable lists supported on a single qubit, in particular qubit 0:
            # a trailing reset in front of a real measurement must stay, one in front of the dummy measurement of an identity group goes
            p = workflow.gen_problem(rng, max_q=3, max_cuts=1, depth=4, idle_ok=False)
            nq = p["nq"]
            for _ in range(rng.randint(1, 3)):
                p["instrs"].insert(rng.randint(0, len(p["instrs"])), {"name": "reset", "qubits": [rng.randrange(nq)]})
            for q in rng.sample(range(nq), rng.randint(1, nq)):
                p["instrs"].append({"name": "reset", "qubits": [q]})
            sup = rng.choice([0, 0, rng.randrange(nq)])
            p["obs"] = [{"l": "".join(rng.choice("XYZ") if q == sup else "I" for q in range(nq)), "p": 0} for _ in range(rng.randint(1, 2))]
            if rng.random() < 0.3:
                p["obs"].append({"l": "I" * nq, "p": 0})
            p["form"] = rng.choice(["dict", "single"])
            p["N"] = rng.choice([None, 5, 50])
        elif r0 < 0.24:
            p = workflow.gen_chain_problem(rng)
            p["form"] = "dict"
            p["N"] = rng.choice([None, 7, 50, 500])
        elif r0 < 0.29:
            p = workflow.gen_many_cuts(rng)
            p["form"] = "dict"
            p["N"] = rng.choice([20, 60])
        else:
            p = workflow.gen_problem(rng, max_q=5, max_cuts=2, depth=6)
            p["form"] = "single" if rng.random() < 0.25 else "dict"
            p["N"] = rng.choice([None, None, None, 1, 2, 7, 50, 50, 500, 500, 5000, 17.5])
            if rng.random() < 0.25:
                p["reweight"] = rng.randrange(1, 1 << 30)   # the user re-weights the bases after the cuts were placed
        p["seed"] = rng.randrange(1 << 30)
        yield ("generate", p)


def _reweight(circuits, payload):
    """re-assign (through the public setter) the coefficients of the bases the cut gates carry: same maps, other magnitudes"""
    if not payload.get("reweight"):
        return
    import random
    from qiskit_addon_cutting.qpd import BaseQPDGate
    rr = random.Random(payload["reweight"])
    seen = set()
    for c in (circuits.values() if isinstance(circuits, dict) else [circuits]):
        for inst in c.data:
            op = inst.operation
            if isinstance(op, BaseQPDGate) and id(op.basis) not in seen:
                seen.add(id(op.basis))
                op.basis.coeffs = [float(x) * rr.choice([0.5, 2.0, -1.0, 1.5, 0.25]) for x in op.basis.coeffs]


def _inputs(payload):
    out = _inputs0(payload)
    _reweight(out[0], payload)
    return out


def _inputs0(payload):
    """Real inputs of generate_cutting_experiments for this payload."""
    from qiskit_addon_cutting import partition_problem, cut_gates
    qc, labels, obs = workflow.build(payload)
    part = payload["part"]
    ids = [i for i, ins in enumerate(payload["instrs"]) if ins["name"] != "barrier" and len(ins["qubits"]) == 2
           and part[ins["qubits"][0]] != part[ins["qubits"][1]]]
    if payload["form"] == "dict":
        if labels is None:
            # automatic labelling: the crossing gates are marked as cut beforehand (they are ignored for connectivity)
            qc, _ = cut_gates(qc, ids)
        pp = partition_problem(qc, labels, obs)
        # optionally the same two mappings with their keys listed in other orders
        return _reordered(pp.subcircuits, payload.get("circ_order")), _reordered(pp.subobservables, payload.get("obs_order")), qc
    # single form: cut the gates that cross the generator's partition
    cut, _ = cut_gates(qc, ids)
    return cut, obs, qc


def _run(payload):
    import qiskit_addon_cutting.cutting_experiments as CE
    from qiskit_addon_cutting.utils.observable_grouping import ObservableCollection
    circuits, observables, qc = _inputs(payload)
    Nv = math.inf if payload["N"] is None else payload["N"]
    captured = {}
    real_gqw = CE.generate_qpd_weights

    def wrapper(bases, num_samples=1000):
        out = real_gqw(bases, num_samples=num_samples)
        captured["weights"] = [{"key": [int(i) for i in k], "w": frac(v[0]), "ty": v[1].name} for k, v in out.items()]
        captured["bases"] = list(bases)
        return out

    sc = ScriptedChoice(payload["seed"])
    old = np.random.choice
    np.random.choice = sc
    CE.generate_qpd_weights = wrapper
    try:
        exps, coeffs = CE.generate_cutting_experiments(circuits, observables, Nv)
    except ValueError as ex:
        if "num_samples" in str(ex) and Nv >= 1:
            # a legitimate budget (at least one sample, or infinity) is not a malformed request
            raise RuntimeError(f"generate_cutting_experiments refused the valid budget num_samples={Nv!r}: {ex}")
        raise
    finally:
        CE.generate_qpd_weights = real_gqw
        np.random.choice = old
    return circuits, observables, exps, coeffs, captured


def _groups(pl):
    from qiskit_addon_cutting.utils.observable_grouping import ObservableCollection
    from .c11 import _ps
    oc = ObservableCollection(pl)
    return [{"general": _ps(g.general_observable), "members": [_ps(m) for m in g.commuting_observables],
             "indices": [int(i) for i in g.pauli_indices], "masks": [int(m) for m in g.pauli_bitmasks]} for g in oc.groups]


def _strip(c):
    return {"nq": c["nq"], "cregs": [list(r) for r in c["cregs"]],
            "instrs": [{k: i.get(k) for k in ("name", "qubits", "clbits", "params", "label")} for i in c["instrs"]]}


def _key(payload):
    return json.dumps(payload, sort_keys=True, default=str)


def _real(payload):
    circuits, observables, exps, coeffs, captured = _run(payload)
    t = canon.BasisTable()
    if payload["form"] == "dict":
        parts = []
        for lab, so in observables.items():
            parts.append({"label": workflow.label_index(payload, lab), "circuit": canon.canon_circuit(circuits[lab], t), "groups": _groups(so)})
        res_exps = [[workflow.label_index(payload, lab), [_strip(canon.canon_circuit(c)) for c in cs]] for lab, cs in exps.items()]
    else:
        parts = [{"label": 0, "circuit": canon.canon_circuit(circuits, t), "groups": _groups(observables)}]
        res_exps = [[0, [_strip(canon.canon_circuit(c)) for c in exps]]]
    line = {"op": "c05.generate", "bases": t.canon(), "parts": parts, "separated": payload["form"] == "dict",
            "weights": captured.get("weights", [])}
    return {"ok": {"experiments": res_exps, "coefficients": [[frac(c), w.name] for c, w in coeffs]}}, line


def model_line(kind, payload):
    try:
        res, line = _real(payload)
    except ValueError:
        res, line = {"error": "ValueError"}, None
    except RuntimeError as ex:
        res, line = {"error": "Other:" + str(ex)}, None
    _cache[_key(payload)] = res
    if line is None:
        # the real pipeline refused before reaching experiment generation (idle-qubit observable etc.): nothing to model
        return {"op": "c05.generate", "bases": [], "parts": [], "separated": True, "weights": []}
    return line


def run_real(kind, payload):
    r = _cache.get(_key(payload))
    if r is None:
        r, _ = _real(payload)
    return r


def model_canon(kind, payload, out):
    if "driver_error" in out:
        raise RuntimeError(out["driver_error"])
    if "error" in out:
        return {"error": out["error"]}
    o = out["ok"]
    return {"ok": {"experiments": [[l, [_strip(c) for c in cs]] for l, cs in o["experiments"]], "coefficients": o["coefficients"]}}


def compare(kind, payload, real, model):
    if str(real.get("error", "")).startswith("Other:"):
        return real["error"][6:]
    if "error" in real:
        return None  # refused upstream (partition_problem); covered by C10/C18
    if "error" in model:
        return f"model refuses ({model}) but the real code returned a result"
    r, m = real["ok"], model["ok"]
    if len(r["coefficients"]) != len(m["coefficients"]):
        return f"{len(r['coefficients'])} coefficients vs model {len(m['coefficients'])}"
    for (a, ta), (b, tb) in zip(r["coefficients"], m["coefficients"]):
        if ta != tb or abs(Fraction(a) - Fraction(b)) > Fraction(1, 10 ** 9) * max(1, abs(Fraction(b))):
            return f"coefficient mismatch real={(float(Fraction(a)), ta)} model={(float(Fraction(b)), tb)}"
    if r["experiments"] != m["experiments"]:
        for (l1, c1), (l2, c2) in zip(r["experiments"], m["experiments"]):
            if l1 != l2 or len(c1) != len(c2):
                return f"partition {l1}/{l2}: {len(c1)} vs {len(c2)} circuits"
            for k, (x, y) in enumerate(zip(c1, c2)):
                if x != y:
                    return f"partition {l1} circuit {k}: real={json.dumps(x)[:400]} model={json.dumps(y)[:400]}"
        return "experiment structure differs"
    return None


def describe(kind, payload):
    r = _cache.get(_key(payload)) or {}
    ncoef = len(r["ok"]["coefficients"]) if "ok" in r else -1
    return {"form": payload["form"], "N": "inf" if payload["N"] is None else str(payload["N"]), "nq": payload["nq"],
            "coeffs": "refused" if ncoef < 0 else ("1" if ncoef == 1 else ("<=10" if ncoef <= 10 else ">10"))}


def nontrivial_key(kind, payload):
    r = _cache.get(_key(payload)) or {}
    if "ok" not in r or len(r["ok"]["coefficients"]) <= 1:
        return None
    return hash(_key(payload))


def oracle(kind, payload):
    """The contract's clauses, recomputed from the returned objects."""
    why = _oracle_contract(kind, payload)
    if why is None and payload["N"] is None and not payload.get("reweight"):
        # with exact weights the experiments and coefficients must reconstruct the uncut expectation values
        # (not after a re-weighting: the bases then describe another operation than the gate they replaced)
        from . import c01
        try:
            why = c01.oracle("roundtrip", {k: v for k, v in payload.items()})
        except Exception:
            why = None
        if why:
            why = "exact round trip of the generated experiments fails: " + why
    return why


def _same_mapping_reference(payload, exps, coeffs, error=None):
    """The two dictionaries are mappings keyed by partition label: listing their keys in another order is the same cut problem, so (under the
    same sampler script) the result must be the one obtained from the dictionaries as partition_problem returned them - partition by partition."""
    base = {k: v for k, v in payload.items() if k not in ("obs_order", "circ_order")}
    how = {k: payload[k] for k in ("obs_order", "circ_order") if payload.get(k)}
    try:
        _, _, exps0, coeffs0, _ = _run(base)
    except Exception:
        return None   # the problem itself is refused: nothing to compare with
    if error is not None:
        return (f"dictionaries with the same keys listed in another order ({how}) are refused with ValueError: {error}; the same mappings in "
                f"partition_problem's order are accepted")
    if set(map(repr, exps)) != set(map(repr, exps0)):
        return f"key order {how}: partitions {sorted(map(repr, exps))} returned instead of {sorted(map(repr, exps0))}"
    if len(coeffs) != len(coeffs0) or any(ta != tb or abs(a - b) > 1e-9 * max(1.0, abs(b)) for (a, ta), (b, tb) in zip(coeffs, coeffs0)):
        return f"key order {how}: the coefficients depend on the order in which the dictionaries list their keys"
    for lab, cs in exps.items():
        cs0 = exps0[lab]
        if len(cs) != len(cs0):
            return f"key order {how}: partition {lab!r} has {len(cs)} circuits, but {len(cs0)} when the dictionaries list their keys alike"
        for k, (a, b) in enumerate(zip(cs, cs0)):
            ca, cb = _strip(canon.canon_circuit(a)), _strip(canon.canon_circuit(b))
            if ca != cb:
                return (f"key order {how}: subexperiment {k} of partition {lab!r} is not the one generated for this partition's subcircuit and "
                        f"observables (looked up by label): {[i['name'] for i in ca['instrs']]} / cregs {ca['cregs']} instead of "
                        f"{[i['name'] for i in cb['instrs']]} / cregs {cb['cregs']}")
    return None


def _wire_sequences(nq, items):
    per = {q: [] for q in range(nq)}
    for it in items:
        for q in it[2]:
            per[q].append(it)
    return per


def _substitution_mismatch(sub, key_of, key, c, identity_group=False):
    """None when subexperiment `c` is, wire by wire, the subcircuit `sub` with every cut placeholder replaced by the operations of the map that
    the joint map `key` selects for it (mid-circuit measurements of the maps going to the `qpd_measurements` register in circuit order), followed
    only by basis rotations / observable measurements - where reset instructions of that substituted circuit may be missing (the documented
    reset removals, C19) but nothing else may be missing, added, re-parametrised or moved along a wire.  Otherwise a description.

    A reset may be missing only where one of the documented removals applies to it (barriers do not count as operations here): the wire has not
    been operated on before it (reset of a wire still in |0>), the previous operation on the wire is a reset (a repeated reset), or no operation
    and no measurement follows on the wire (a final reset; `identity_group`: the group's only measurement is the ignored placeholder one, which
    does not count).  A reset that re-initialises a used wire for a later operation - whichever operand of that operation the wire is - belongs
    to the subcircuit like any other instruction."""
    ref, nmeas, n2 = [], 0, 0
    for inst in sub.data:
        op = inst.operation
        qs = tuple(sub.find_bit(q).index for q in inst.qubits)
        if op.name in ("qpd_1q", "qpd_2q"):
            sides = op.basis.maps[key[key_of(op, n2)]]
            n2 += op.name == "qpd_2q"
            halves = [(op.qubit_id, qs[0])] if op.name == "qpd_1q" else [(0, qs[0]), (1, qs[1])]
            for side, q in halves:
                for o in sides[side]:
                    if o.name == "qpd_measure":
                        ref.append(("measure", (), (q,), (("qpd_measurements", nmeas),)))
                        nmeas += 1
                    else:
                        ref.append((o.name, tuple(canon.canon_param(p) for p in o.params), (q,), ()))
        else:
            ref.append((op.name, tuple(canon.canon_param(p) for p in op.params), qs, ()))
    got = []
    for inst in c.data:
        cl = []
        for b in inst.clbits:
            loc = c.find_bit(b).registers
            cl.append((loc[0][0].name, loc[0][1]) if loc else ("", c.find_bit(b).index))
        got.append((inst.operation.name, tuple(canon.canon_param(p) for p in inst.operation.params),
                    tuple(c.find_bit(q).index for q in inst.qubits), tuple(cl)))
    if c.num_qubits != sub.num_qubits:
        return f"{c.num_qubits} qubits instead of {sub.num_qubits}"
    rw, gw = _wire_sequences(sub.num_qubits, ref), _wire_sequences(sub.num_qubits, got)
    show = lambda it: it[0] + (str(list(it[2])) if len(it[2]) > 1 else "")   # noqa: E731
    for q in range(sub.num_qubits):
        r, g = rw[q], gw[q]
        i = j = 0
        dropped = []
        while i < len(r):
            if j < len(g) and r[i] == g[j]:
                i += 1
                j += 1
            elif r[i][0] == "reset":
                dropped.append(i)
                i += 1      # a removed reset
            else:
                return (f"wire {q}: operation {show(r[i])} (position {i} of the substituted subcircuit's wire {[show(x) for x in r]}) is missing "
                        f"or altered; the subexperiment's wire is {[show(x) for x in g]}")
        rest = g[j:]
        if len(rest) > 2 or any(not (x[0] in ("h", "sx") or (x[0] == "measure" and x[3] and x[3][0][0] == "observable_measurements")) for x in rest):
            return (f"wire {q}: after the substituted subcircuit's operations {[show(x) for x in r]} the subexperiment carries {[show(x) for x in rest]}, "
                    f"which is not a basis rotation and observable measurement")
        for i in dropped:
            before = [x for x in r[:i] if x[0] != "barrier"]
            after = [x for x in r[i + 1:] if x[0] != "barrier"]
            fresh = all(x[0] == "reset" for x in before)
            repeated = bool(before) and before[-1][0] == "reset"
            final = all(x[0] == "reset" for x in after) and (not rest or identity_group)
            if not (fresh or repeated or final):
                nxt = next(x for x in after + rest if x[0] != "reset")
                return (f"wire {q}: the reset at position {i} of the substituted subcircuit's wire {[show(x) for x in r]} is missing from the "
                        f"subexperiment (wire {[show(x) for x in g]}), although the wire was operated on before it ({show(before[-1])}) and is "
                        f"used after it ({show(nxt)} on qubits {list(nxt[2])}): not a reset of an untouched wire, a repeated or a final reset")
    return None


def _oracle_substitution(circuits, observables, exps, coeffs, captured):
    """every circuit is the partition's subcircuit with every cut placeholder replaced by the chosen map's operations (sample-major, then groups)"""
    from qiskit_addon_cutting.utils.observable_grouping import ObservableCollection
    ws = captured.get("weights", [])
    if len(ws) != len(coeffs):
        return None   # reported by the counting clause
    separated = isinstance(circuits, dict)
    subs = circuits if separated else {"A": circuits}
    cut_ids, n2 = set(), 0
    for lab, sub in subs.items():
        for inst in sub.data:
            nm = inst.operation.name
            if nm == "qpd_1q":
                if not separated:
                    return None
                try:
                    cut_ids.add(int(inst.operation.label.rsplit("_", 1)[1]))
                except Exception:
                    return None
            elif nm == "qpd_2q":
                if separated:
                    return None   # not produced by partition_problem; out of this clause's reach
                n2 += 1
    pos = {d: k for k, d in enumerate(sorted(cut_ids))}
    ncuts = len(pos) if separated else n2
    if any(len(w["key"]) != ncuts for w in ws):
        return None

    def key_of(op, nth_2q):
        # separated: the cut id is the `_<id>` suffix of the placeholder's label; unseparated: the cut gates count in circuit order
        return pos[int(op.label.rsplit("_", 1)[1])] if separated else nth_2q

    # sample `rank` belongs to the joint map of rank `rank` by weight; maps of equal weight may be listed in any order
    order = sorted(range(len(ws)), key=lambda i: -Fraction(ws[i]["w"]))
    it = exps.items() if isinstance(exps, dict) else [("A", exps)]
    it = [(lab, cs) for lab, cs in it]
    for rank, i in enumerate(order):
        cands = [i] + [j for j in order if j != i and Fraction(ws[j]["w"]) == Fraction(ws[i]["w"])]
        first = None
        for j in cands:
            key, bad = ws[j]["key"], None
            for lab, cs in it:
                so = observables[lab] if separated else observables
                groups = ObservableCollection(so).groups
                G = len(groups)
                if len(cs) != len(coeffs) * G:
                    return None   # reported by the counting clause
                for g_i in range(G):
                    why = _substitution_mismatch(subs[lab], key_of, key, cs[rank * G + g_i], identity_group=not len(groups[g_i].pauli_indices))
                    if why:
                        bad = (f"partition {lab!r}, sample {rank} (joint map {list(key)}), group {g_i}: the subexperiment is not the subcircuit with the "
                               f"chosen map's operations in place of the cut placeholders: {why}")
                        break
                if bad:
                    break
            if bad is None:
                first = None
                break
            first = first or bad
        if first:
            return first
    return None


def _oracle_contract(kind, payload):
    reordered = payload.get("obs_order") or payload.get("circ_order")
    try:
        circuits, observables, exps, coeffs, captured = _run(payload)
    except ValueError as ex:
        if reordered:
            return _same_mapping_reference(payload, None, None, error=ex)
        return None
    except Exception as ex:
        return f"generate_cutting_experiments raised {type(ex).__name__}: {ex}"
    from qiskit_addon_cutting.utils.observable_grouping import ObservableCollection
    bases = captured.get("bases", [])
    if isinstance(circuits, dict) and bases:
        # the joint basis list must be ordered by cut id (the `_<id>` label suffix), independently of the order in which the cuts are met
        by_id = {}
        for c in circuits.values():
            for inst in c.data:
                if inst.operation.name == "qpd_1q":
                    by_id[int(inst.operation.label.rsplit("_", 1)[1])] = inst.operation.basis
        want = [by_id[d] for d in sorted(by_id)]
        if len(want) != len(bases) or any(a is not b for a, b in zip(want, bases)):
            pos = [sorted(by_id).index(d) for d in by_id]
            return (f"the joint basis list handed to the sampler is not ordered by cut id: {len(bases)} bases, position of each cut id in it "
                    f"{[next((k for k, b in enumerate(bases) if b is w), None) for w in want]} instead of {list(range(len(want)))}")
    kappa = float(np.prod([b.kappa for b in bases])) if bases else 1.0
    tot = sum(abs(c) for c, _ in coeffs)
    if abs(tot - kappa) > 1e-8 * max(1.0, kappa):
        return f"sum |coeff| = {tot} but product of kappas = {kappa}"
    ws = captured.get("weights", [])
    order = sorted(range(len(ws)), key=lambda i: -Fraction(ws[i]["w"]))
    if len(coeffs) != len(ws):
        return f"{len(coeffs)} coefficients for {len(ws)} sampled joint maps"
    # multiset of (sign, type, |coeff|) per weight value (ties may be listed in any order)
    for rank, i in enumerate(order):
        key = ws[i]["key"]
        act = np.prod([b.coeffs[k] for b, k in zip(bases, key)]) if bases else 1.0
        c, ty = coeffs[rank]
        same_w = [j for j in order if Fraction(ws[j]["w"]) == Fraction(ws[i]["w"])]
        if len(same_w) == 1:
            if np.sign(c) != np.sign(act):
                return f"coefficient {rank} has sign {np.sign(c)} but the chosen maps' product is {act}"
            if payload["N"] is None and abs(c - act) > 1e-9:
                return f"infinite budget: coefficient {c} != product of map coefficients {act}"
    if payload["N"] is None and bases and int(np.prod([len(b.coeffs) for b in bases])) <= 20000:
        # infinite budget: one coefficient per joint map of probability above 1e-14, each exactly the product of the maps' coefficients
        import itertools
        probs = [[abs(c) / b.kappa for c in b.coeffs] for b in bases]
        want, borderline = [], False
        for key in itertools.product(*[range(len(b.coeffs)) for b in bases]):
            pr = float(np.prod([probs[i][k] for i, k in enumerate(key)]))
            if 2e-15 < pr < 5e-14:
                borderline = True   # too close to the cut-off to be decided in floating point
            if pr >= 1e-14:
                want.append(float(np.prod([b.coeffs[k] for b, k in zip(bases, key)])))
        if not borderline:
            got = sorted(float(c) for c, _ in coeffs)
            want.sort()
            if len(got) != len(want):
                return f"infinite budget: {len(got)} coefficients, but {len(want)} joint maps have probability above 1e-14"
            for a, b in zip(got, want):
                if abs(a - b) > 1e-12 * max(1.0, abs(b)):
                    return f"infinite budget: coefficient {a!r} is not the product of the chosen maps' coefficients {b!r}"
    it = exps.items() if isinstance(exps, dict) else [("A", exps)]
    for lab, cs in it:
        so = observables[lab] if isinstance(observables, dict) else observables
        G = len(ObservableCollection(so).groups)
        if len(cs) != len(coeffs) * G:
            return f"partition {lab!r}: {len(cs)} circuits for {len(coeffs)} coefficients x {G} groups"
        groups = ObservableCollection(so).groups
        for idx_c, c in enumerate(cs):
            # measurement tail: basis rotation (h for X, sx for Y, nothing for Z) directly before the measurement of each measured qubit
            cog = groups[idx_c % G]
            gx, gz = cog.general_observable.x, cog.general_observable.z
            meas = {}
            for k_i, inst in enumerate(c.data):
                if inst.operation.name == "measure" and c.find_bit(inst.clbits[0]).registers[0][0].name == "observable_measurements":
                    meas[c.find_bit(inst.qubits[0]).index] = k_i
            # exactly the qubits of this partition's group are measured (one ignored placeholder measurement when the group is the identity)
            if sorted(meas) != sorted(int(q) for q in cog.pauli_indices) and (len(cog.pauli_indices) or len(meas) != 1):
                return (f"partition {lab!r}, group {cog.general_observable.to_label()} (circuit {idx_c}): the observable measurements are on qubits "
                        f"{sorted(meas)}, the group acts on {sorted(int(q) for q in cog.pauli_indices)}")
            for q in (cog.pauli_indices if len(cog.pauli_indices) else []):
                if q not in meas:
                    return f"partition {lab!r}: qubit {q} of the commuting group is not measured"
                prev = [i.operation.name for i in c.data[:meas[q]] if q in [c.find_bit(b).index for b in i.qubits]]
                want_rot = "sx" if (gx[q] and gz[q]) else ("h" if gx[q] else None)
                if want_rot and (not prev or prev[-1] != want_rot):
                    return (f"partition {lab!r}, group {cog.general_observable.to_label()}: qubit {q} must be rotated with {want_rot} before its "
                            f"measurement, found {prev[-1] if prev else None}")
            names = [i.operation.name for i in c.data]
            if any(n in ("qpd_1q", "qpd_2q", "qpd_measure", "cut_wire") for n in names):
                return f"placeholder left in a subexperiment of partition {lab!r}"
            if [r.name for r in c.cregs][-2:] != ["observable_measurements", "qpd_measurements"]:
                return f"classical registers end with {[r.name for r in c.cregs][-2:]}"
    why = _oracle_substitution(circuits, observables, exps, coeffs, captured)
    if why:
        return why
    if reordered:
        return _same_mapping_reference(payload, exps, coeffs)
    return None
