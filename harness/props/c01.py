"""C01 — cutting gates and reconstructing reproduces the uncut expectation values."""
from __future__ import annotations

import json
import numpy as np
from fractions import Fraction

from .. import workflow
from ..core import frac, call_real
from . import c05

ID = "C01"
LEAN_MODULE = "CKT.Props.C01Supported"
THEOREMS = ["CKT.C01." + t for t in ["expansion", "blocks_factor", "pair_prod_factor", "choices_map", "mem_choices", "round_trip"]] + \
           ["CKT.C05.exact_coeff", "CKT.C06.reconstructImpl_eq_spec"] + \
           ["CKT.C01PTM." + t for t in ["expansion_run", "apply_prodV", "runOps_prodV", "init0_prod", "product_run", "round_trip_ptm",
                                        "applyL_tensor", "cutSlot_exact", "uncut_eq_slots", "cut_and_reconstruct", "exact_of_exactAt",
                                        "supported_exact", "cut_rzz_exact", "cut_cx_exact", "cut_move_exact", "cut_kak_exact",
                                        "SGate.exact", "supported_round_trip",
                                        # measured subexperiments: signed sums over fresh bits + Walsh identity => decoded distribution = E_p
                                        "linRun_eq_runOps", "decoded_eq", "reconstruction_correct", "runI_eq_actL", "SubExp.ofInstrs_final", "canonicalSub_ok", "reconstruction_correct_canonical"]] + \
           ["CKT.Sem.signed_run", "CKT.Sem.decode_full", "CKT.Sem.meas_signed", "CKT.Sem.decode_blocks",
            # ... and that decoded number is what C06's accumulator loop returns on the exact quasi-distribution of the subexperiment
            "CKT.C06Sem.estimator_is_signedSum", "CKT.C01PTM.decoded_is_estimator",
            # the maps as the operation sequences that are spliced in (C14): products of transfer matrices = seqPtm of the channel model
            "CKT.C01PTM.runOps_seq", "CKT.C01PTM.seqSlot_eq_cutSlot", "CKT.C01PTM.cut_and_reconstruct_seq", "CKT.C01PTM.tmOf1_seqPtm",
            "CKT.C01PTM.exact_of_exactAt_seq", "CKT.C01PTM.SGate.exact_seq", "CKT.C01PTM.supported_round_trip_seq"]
RULE = ("cut problems on 1-5 qubits, 1-4 partitions, 0-2 cut gates of every family (incl. KAK gates), idle qubits, explicit and automatic labels, "
        "separated and single-circuit call forms, duplicate / identity observables; every subexperiment evaluated exactly by the harness's own "
        "density-matrix simulator; compared: the model's reconstruction (exact rationals) of those distributions with the implementation's, and "
        "(failing-input search) the reconstructed values with the expectation values of the uncut circuit; distinct by payload")
ASSUMPTIONS = ["the vector of Pauli expectation values with operations acting through their transfer matrices (CKT.Sem) is quantum mechanics in "
               "another basis (standard; the harness simulates density matrices independently on every case)",
               "bases are exact decompositions: proved in C02 for the 21 families and used here as `supported_exact`; Weyl decomposition external",
               "the subexperiment structure and coefficients are tied in C05/C10/C14, grouping in C11, decoding in C06; that the `qpd_measure` marker "
               "with the parity sign applied at reconstruction is the signed projector pair is the C06/C11 half"]
LEVEL_TEXT = ("round trip proved in the Pauli-expectation semantics for any number of partitions and cuts (`cut_and_reconstruct`: multilinear "
              "expansion in circuit order, product-vector invariant = tensor structure, factorisation of product observables on |0..0>), with the "
              "exactness hypothesis discharged by C02 for every supported gate (`supported_round_trip`), + abstract algebra version + bookkeeping "
              "theorems of C05/C06; `reconstruction_correct`: the sum over choices of coefficient x product over partitions of the parity-decoded outcome "
              "distributions of the *measured* subexperiments (QPD measurements into fresh bits, rotations + measurements of the observable register) is "
              "the uncut value; the identification of the model's slots / SubExp with the package's subexperiments is by the C05/C10/C11/C14 ties (partial)")
_cache = {}
ORACLE_EVERY = True  # the end-to-end comparison with the uncut circuit is run on every case


def _idle_case(rng, letter):
    """an observable with the given letter on an idle qubit (labelled None explicitly or by automatic labelling), identity on idle qubits elsewhere"""
    while True:
        p = workflow.gen_problem(rng, max_q=4, max_cuts=1, depth=4)
        if not p["idle"] or not (p["labels"] is None or all(p["labels"][q] is None for q in p["idle"])):
            continue
        q = p["idle"][0]
        # identity elsewhere: the rest of the observable has expectation one, so a dropped letter shows
        p["obs"][0]["l"] = "I" * q + letter + "I" * (p["nq"] - q - 1)
        return p


def _turn_case(rng, fam):
    """a cut controlled rotation by more than a whole turn, control in superposition, X / Y observed on the control"""
    import math
    theta = rng.choice([1, -1]) * (2 * math.pi * rng.choice([1, 3]) + rng.choice([0.7, 1.9, math.pi / 2]))
    instrs = [{"name": "h", "qubits": [0]}, {"name": "ry", "qubits": [1], "params": [0.8]},
              {"name": fam, "qubits": [0, 1], "params": [theta]}, workflow.gen.rand_1q(rng, 1)]
    return {"nq": 2, "qregs": [2], "instrs": instrs, "labels": [0, 1], "pool_idx": rng.sample(range(len(workflow.gen.LABEL_POOL)), 2),
            "obs": [{"l": "XI", "p": 0}, {"l": "YZ", "p": 0}, {"l": "XX", "p": 0}], "idle": [], "part": [0, 1]}


def _descending_case(rng, gate):
    """a cut gate that is not symmetric under exchange of its operands, applied with the higher qubit first, marked through cut_gates
    (unseparated form, or automatic labels)"""
    nq = 3
    instrs = [{"name": "ry", "qubits": [q], "params": [0.4 + 0.5 * q]} for q in range(nq)]
    hi = rng.choice([1, 2])
    g = {"name": gate[0], "qubits": [hi, 0]}
    if gate[1] is not None:
        g["params"] = list(gate[1])
    instrs += [g, workflow.gen.rand_1q(rng, 0), workflow.gen.rand_1q(rng, hi), {"name": "cx", "qubits": [1, 2]}]
    form = rng.choice(["single", "dict"])
    return {"nq": nq, "qregs": [nq], "instrs": instrs, "labels": None if form == "dict" else [0, 1, 1],
            "pool_idx": rng.sample(range(len(workflow.gen.LABEL_POOL)), 2), "obs": [{"l": "ZZZ", "p": 0}, {"l": "XIY", "p": 0}, {"l": "ZXI", "p": 0}],
            "idle": [], "part": [0, 1, 1], "form": form}


def _near_angle_cases():
    """a cut gate of every parametrised family whose angle is CLOSE TO, but not at, a multiple of pi/2 (distance 1e-5 .. 3e-5: inside the
    default tolerance of np.isclose / np.allclose relative to pi, far outside the 1e-7 of the comparison), both operand orders, both call
    forms; both qubits in generic superpositions so that the expectation values depend on the angle in first order.  Seed independent."""
    import math
    import random
    r = random.Random(20240917)
    spec = [("cp", 1, -2e-5), ("cp", -1, 2e-5), ("cp", 3, 1e-5), ("crz", 1, 2e-5), ("crx", -1, -2.5e-5), ("cry", 2, 1.5e-5),
            ("rzz", 1, -2e-5), ("rxx", 0.5, 2e-5), ("ryy", -0.5, -1.5e-5), ("cp", 2, -2e-5), ("crz", 4, 2e-5), ("rzz", 0, 2.5e-5)]
    for i, (fam, mult, eps) in enumerate(spec):
        qs = [0, 1] if i % 2 == 0 else [1, 0]
        instrs = [{"name": "ry", "qubits": [0], "params": [0.7 + 0.1 * i]}, {"name": "rx", "qubits": [0], "params": [0.5]},
                  {"name": "ry", "qubits": [1], "params": [1.1 - 0.05 * i]}, {"name": "rz", "qubits": [1], "params": [0.9]},
                  {"name": fam, "qubits": qs, "params": [mult * math.pi + eps]},
                  {"name": "ry", "qubits": [0], "params": [0.6]}, {"name": "rx", "qubits": [1], "params": [-0.8]}]
        yield {"nq": 2, "qregs": [2], "instrs": instrs, "labels": [0, 1], "pool_idx": r.sample(range(len(workflow.gen.LABEL_POOL)), 2),
               "obs": [{"l": "XI", "p": 0}, {"l": "YZ", "p": 0}, {"l": "XX", "p": 0}, {"l": "ZY", "p": 0}, {"l": "IZ", "p": 0}, {"l": "ZX", "p": 0}],
               "idle": [], "part": [0, 1], "form": "dict" if i % 3 else "single", "N": None, "seed": 0, "always_oracle": True}


def _cut_order_cases():
    """two cuts touching the same two partitions where the cut that comes LATER in the circuit acts on LOWER-index qubits and is independent of the
    earlier one (the order of the placeholders' halves inside a subcircuit then differs from the order of the cut ids), with different bases;
    separated call form (and the single-circuit form as a control).  Seed independent."""
    import random
    r = random.Random(20241002)
    spec = [(("cx", []), ("rxx", [0.9])), (("cz", []), ("rzz", [0.7])), (("crx", [1.1]), ("cx", [])), (("ryy", [0.6]), ("cp", [0.8]))]
    for i, ((g1, p1), (g2, p2)) in enumerate(spec):
        pre = [{"name": "ry", "qubits": [q], "params": [0.5 + 0.2 * q + 0.05 * i]} for q in range(4)] + \
              [{"name": "rx", "qubits": [q], "params": [0.9 - 0.15 * q]} for q in range(4)]
        first = {"name": g1, "qubits": [2, 3]}
        second = {"name": g2, "qubits": [0, 1]}
        if p1:
            first["params"] = p1
        if p2:
            second["params"] = p2
        post = [{"name": "cx", "qubits": [0, 2]}, {"name": "cx", "qubits": [1, 3]}, {"name": "ry", "qubits": [0], "params": [0.4]},
                {"name": "rx", "qubits": [3], "params": [-0.6]}]
        for form in ("dict", "single"):
            yield {"nq": 4, "qregs": [4], "instrs": pre + [first, second] + post, "labels": [0, 1, 0, 1],
                   "pool_idx": r.sample(range(len(workflow.gen.LABEL_POOL)), 2),
                   "obs": [{"l": "XIZI", "p": 0}, {"l": "IYIZ", "p": 0}, {"l": "ZZXX", "p": 0}, {"l": "YXZI", "p": 0}, {"l": "IIZZ", "p": 0}],
                   "idle": [], "part": [0, 1, 0, 1], "form": form, "N": None, "seed": 0, "always_oracle": True}


def _product_gate_cases():
    """the cut gate is an "arbitrary two-qubit unitary" WITHOUT non-local content: a UnitaryGate whose matrix is a tensor product of two
    one-qubit unitaries (Haar-random factors, a layer of rx/ry/rz rotations, with and without a global phase) - the degenerate corner
    (0,0,0) of the Weyl chamber on the generic (KAK) route, where the local factors K1, K2 are all there is.  Entangling gates before and
    after it inside the partitions and generic one-qubit gates around it, so that every factor matters; both operand orders, both call
    forms, alone and next to a second (entangling) cut.  Seed independent."""
    import random
    r = random.Random(20241001)
    spec = [([5, 6], [1, 2], "dict", False), ([11, 12], [2, 1], "single", False), ([[0.7, 1.1, 0.4], [-0.3, 0.9, 1.6]], [1, 2], "single", False),
            ([21, 22, 0.9], [2, 1], "dict", False), ([31, 32], [1, 2], "dict", True), ([[1.2, 0.0, -0.8], 42, -0.4], [2, 1], "single", True)]
    for i, (ps, qs, form, second) in enumerate(spec):
        instrs = [{"name": "unitary", "qubits": [0, 1], "params": [700 + i, 2]}, {"name": "unitary", "qubits": [2], "params": [710 + i, 1]},
                  {"name": "unitary_kron", "qubits": qs, "params": ps}]
        if second:
            instrs += [{"name": "ry", "qubits": [2], "params": [0.6]}, {"name": "crx", "qubits": [2, 1], "params": [1.3]}]
        instrs += [{"name": "unitary", "qubits": [0, 1], "params": [720 + i, 2]}, {"name": "unitary", "qubits": [2], "params": [730 + i, 1]}]
        yield {"nq": 3, "qregs": [3], "instrs": instrs, "labels": [0, 0, 1], "pool_idx": r.sample(range(len(workflow.gen.LABEL_POOL)), 2),
               "obs": [{"l": "ZZZ", "p": 0}, {"l": "XIY", "p": 0}, {"l": "IZX", "p": 0}, {"l": "YYI", "p": 0}, {"l": "III", "p": 0}, {"l": "ZXZ", "p": 0}],
               "idle": [], "part": [0, 0, 1], "form": form, "N": None, "seed": 0, "always_oracle": True}
    # two qubits, one partition each: the product gate is the only two-qubit gate
    for i, (ps, qs, form) in enumerate([([51, 52], [0, 1], "dict"), ([[0.5, -1.2, 2.0], [1.4, 0.3, -0.7], 1.1], [1, 0], "single")]):
        instrs = [{"name": "unitary", "qubits": [0], "params": [740 + i, 1]}, {"name": "unitary", "qubits": [1], "params": [750 + i, 1]},
                  {"name": "unitary_kron", "qubits": qs, "params": ps},
                  {"name": "unitary", "qubits": [0], "params": [760 + i, 1]}, {"name": "unitary", "qubits": [1], "params": [770 + i, 1]}]
        yield {"nq": 2, "qregs": [2], "instrs": instrs, "labels": [0, 1], "pool_idx": r.sample(range(len(workflow.gen.LABEL_POOL)), 2),
               "obs": [{"l": "ZZ", "p": 0}, {"l": "XI", "p": 0}, {"l": "IY", "p": 0}, {"l": "YX", "p": 0}, {"l": "ZI", "p": 0}],
               "idle": [], "part": [0, 1], "form": form, "N": None, "seed": 0, "always_oracle": True}


def cases(rng, tier):
    N = 60 if tier == "quick" else 700
    yield from (("roundtrip", p) for p in _near_angle_cases())
    yield from (("roundtrip", p) for p in _cut_order_cases())
    yield from (("roundtrip", p) for p in _product_gate_cases())
    asym = [("cx", None), ("cy", None), ("ch", None), ("ecr", None), ("dcx", None), ("csx", None), ("crx", [0.8]), ("cry", [1.3]),
            ("crz", [2.1]), ("unitary", [5, 2]), ("rzx", [0.9])]
    # three weak cuts: most joint maps have probability between 1e-14 and 1e-8; dropping them shifts the values by several 1e-7
    for sgn in ((1, 1, 1), (1, -1, 1)) if tier == "quick" else ((1, 1, 1), (1, -1, 1), (-1, -1, 1), (1, 1, -1)):
        fams = rng.sample(["rzz", "rxx", "ryy"], 3)
        instrs = [{"name": "ry", "qubits": [0], "params": [0.7]}, {"name": "ry", "qubits": [1], "params": [1.1]}, {"name": "h", "qubits": [1]}]
        for f_, s_ in zip(fams, sgn):
            instrs.append({"name": f_, "qubits": [0, 1], "params": [s_ * 0.004 + (0 if rng.random() < 0.5 else 3.141592653589793)]})
            instrs.append(workflow.gen.rand_1q(rng, rng.randrange(2)))
        yield ("roundtrip", {"nq": 2, "qregs": [2], "instrs": instrs, "labels": [0, 1], "pool_idx": rng.sample(range(len(workflow.gen.LABEL_POOL)), 2),
                             "obs": [{"l": "ZZ", "p": 0}, {"l": "XY", "p": 0}, {"l": "ZI", "p": 0}], "idle": [], "part": [0, 1], "form": "dict",
                             "N": None, "seed": 0})
    # a qubit recycled with reset inside a partition: reset, gates in which it is only the second operand, reset, re-use
    for two in (("cx", None), ("crx", [0.9])) if tier == "quick" else (("cx", None), ("crx", [0.9]), ("cz", None), ("cy", None)):
        g = {"name": two[0], "qubits": [0, 1]}
        if two[1]:
            g["params"] = list(two[1])
        instrs = [{"name": "ry", "qubits": [0], "params": [0.7]}, {"name": "x", "qubits": [1]}, {"name": "reset", "qubits": [1]}, g,
                  {"name": "cx", "qubits": [0, 1]}, {"name": "reset", "qubits": [1]}, {"name": "ry", "qubits": [1], "params": [1.1]},
                  {"name": "rzz", "qubits": [1, 2], "params": [0.8]}, {"name": "h", "qubits": [2]}, {"name": "cx", "qubits": [2, 1]}]
        yield ("roundtrip", {"nq": 3, "qregs": [3], "instrs": instrs, "labels": [0, 0, 1], "pool_idx": rng.sample(range(len(workflow.gen.LABEL_POOL)), 2),
                             "obs": [{"l": "IXI", "p": 0}, {"l": "ZIY", "p": 0}, {"l": "ZZZ", "p": 0}, {"l": "XYI", "p": 0}], "idle": [],
                             "part": [0, 0, 1], "form": rng.choice(["dict", "single"]), "N": None, "seed": 0})
    # a partition that measures nine qubits in one group, results in SamplerV2 format (the observable register spans two bytes)
    for _ in range(1 if tier == "quick" else 3):
        # qubit 0 is flipped and qubit 8 is not: the lowest and the highest bit of the nine-bit register differ
        instrs = [{"name": "x", "qubits": [0]}] + [{"name": "h", "qubits": [q]} for q in rng.sample(range(2, 7), 2)]
        instrs += [{"name": "cx", "qubits": [q, q + 1]} for q in range(1, 7) if rng.random() < 0.6]
        instrs += [{"name": "cx", "qubits": [8, 9]}, {"name": rng.choice(["h", "x", "s"]), "qubits": [9]}]
        yield ("roundtrip", {"nq": 10, "qregs": [10], "instrs": instrs, "labels": [0] * 9 + [1], "pool_idx": rng.sample(range(len(workflow.gen.LABEL_POOL)), 2),
                             "obs": [{"l": "ZZZZZZZZZZ", "p": 0}, {"l": "ZIIIIIIIIZ", "p": 0}, {"l": "IIIIIIIIZZ", "p": 0}, {"l": "ZIZIZIZIZI", "p": 0}], "idle": [],
                             "part": [0] * 9 + [1], "form": "dict", "N": None, "seed": 0, "v2": True})
    # unseparated form with three cut gates, the instruction right before the third one acting on that gate's second operand (the halves of
    # the k-th placeholder are spliced at running offsets)
    for k in range(2):
        instrs = [{"name": "h", "qubits": [0]}, {"name": "ry", "qubits": [1], "params": [0.7]}, {"name": "cx", "qubits": [0, 1]},
                  {"name": "rx", "qubits": [2], "params": [0.4]}, {"name": "cz" if k else "cx", "qubits": [1, 2]},
                  {"name": "ry", "qubits": [3], "params": [1.1]}, {"name": "cx", "qubits": [2, 3]}, {"name": "h", "qubits": [3]}]
        yield ("roundtrip", {"nq": 4, "qregs": [4], "instrs": instrs, "labels": [0, 1, 2, 3], "pool_idx": rng.sample(range(len(workflow.gen.LABEL_POOL)), 4),
                             "obs": [{"l": "ZZZZ", "p": 0}, {"l": "XIIZ", "p": 0}, {"l": "IYZX", "p": 0}], "idle": [],
                             "part": [0, 1, 2, 3], "form": "single" if k == 0 else "dict", "N": None, "seed": 0})
    # SamplerV2 results in which the pubs of one sample hold different numbers of shots: a partition with two commuting groups, one of which
    # measures a qubit in an eigenstate (one shot encodes its exact distribution) while the other sees a 50/50 outcome (two shots)
    yield ("roundtrip", {"nq": 3, "qregs": [3], "instrs": [{"name": "h", "qubits": [0]}, {"name": "x", "qubits": [1]}, {"name": "cx", "qubits": [1, 2]},
                                                           {"name": "h", "qubits": [2]}],
                         "labels": [0, 0, 1], "pool_idx": rng.sample(range(len(workflow.gen.LABEL_POOL)), 2),
                         "obs": [{"l": "XII", "p": 0}, {"l": "ZIZ", "p": 0}, {"l": "ZZX", "p": 0}, {"l": "XZI", "p": 0}], "idle": [],
                         "part": [0, 0, 1], "form": "dict", "N": None, "seed": 0, "v2": True})
    for gate in (rng.sample(asym, 4) if tier == "quick" else asym):
        p = _descending_case(rng, gate)
        p.update(N=None, seed=0)
        yield ("roundtrip", p)
    for fam in ("crx", "cry", "crz", "cp"):
        p = _turn_case(rng, fam)
        p.update(form="dict", N=None, seed=0)
        yield ("roundtrip", p)
    # families that are present whatever the seed
    for letter in "XYZ":
        p = _idle_case(rng, letter)
        p.update(form="dict", N=None, seed=0)
        yield ("roundtrip", p)
    for fam in ("crx", "cry", "crz", "rzz", "rxx"):
        p = workflow.gen_chain_problem(rng, force=fam)
        p.update(form="dict", N=None, seed=0)
        yield ("roundtrip", p)
    for _ in range(N):
        if rng.random() < 0.25:
            p = workflow.gen_chain_problem(rng)
            p["form"] = "dict"
        else:
            p = workflow.gen_problem(rng, max_q=5, max_cuts=2, depth=6, idle_obs=True)
            p["form"] = "single" if rng.random() < 0.3 else "dict"
        p["N"] = None
        p["seed"] = 0
        yield ("roundtrip", p)


def _key(p):
    return json.dumps(p, sort_keys=True, default=str)


def _pipeline(payload):
    from qiskit.primitives import SamplerResult
    from qiskit.result import QuasiDistribution
    from qiskit.quantum_info import PauliList
    from qiskit_addon_cutting import generate_cutting_experiments, reconstruct_expectation_values
    from qiskit_addon_cutting.utils.observable_grouping import ObservableCollection
    k = _key(payload)
    if k in _cache:
        return _cache[k]
    try:
        circuits, observables, qc = c05._inputs(payload)
        exps, coeffs = generate_cutting_experiments(circuits, observables, np.inf)
    except ValueError:
        _cache[k] = ({"error": "ValueError"}, None)
        return _cache[k]
    v2shots = {}
    if isinstance(exps, dict):
        labels = list(exps.keys())
        dists = {l: workflow.exact_quasi_dists(exps[l]) for l in labels}
        if payload.get("v2"):
            # SamplerV2 format: the exact (dyadic) distributions are encoded loss-free as shots in two BitArray registers
            from qiskit.primitives import PrimitiveResult, SamplerPubResult, BitArray, DataBin
            results = {}
            for l in labels:
                pubs, v2shots[l] = [], []
                for circ, d in zip(exps[l], dists[l]):
                    nb = next(r.size for r in circ.cregs if r.name == "observable_measurements")
                    nqpd = next(r.size for r in circ.cregs if r.name == "qpd_measurements")
                    m = next(mm for mm in range(0, 15) if all(abs(p_ * 2 ** mm - round(p_ * 2 ** mm)) < 1e-9 for p_ in d.values()))
                    shots = []
                    for kk, p_ in sorted(d.items()):
                        shots += [(int(kk) & ((1 << nb) - 1), int(kk) >> nb)] * int(round(p_ * 2 ** m))
                    nbo, nbq = (nb + 7) // 8, (nqpd + 7) // 8
                    oa = np.array([[(o >> (8 * (nbo - 1 - j))) & 255 for j in range(nbo)] for o, q in shots], dtype=np.uint8)
                    qa = np.array([[(q >> (8 * (nbq - 1 - j))) & 255 for j in range(nbq)] for o, q in shots], dtype=np.uint8)
                    pubs.append(SamplerPubResult(DataBin(observable_measurements=BitArray(oa, nb), qpd_measurements=BitArray(qa, nqpd), shape=())))
                    v2shots[l].append([[o, q] for o, q in shots])
                results[l] = PrimitiveResult(pubs)
        else:
            results = {l: SamplerResult([QuasiDistribution(d) for d in dists[l]], [{}] * len(dists[l])) for l in labels}
        subobs = observables
    else:
        labels = ["A"]
        dists = {"A": workflow.exact_quasi_dists(exps)}
        results = SamplerResult([QuasiDistribution(d) for d in dists["A"]], [{}] * len(dists["A"]))
        subobs = {"A": observables}
    vals = reconstruct_expectation_values(results, coeffs, observables)
    subs = []
    nobs = len(payload["obs"])
    for l in labels:
        so = subobs[l]
        oc = ObservableCollection(so)
        groups = [{"n_idx": len(c.pauli_indices), "masks": [int(m) for m in c.pauli_bitmasks]} for c in oc.groups]
        lookup = [[[int(m), int(n)] for m, n in oc.lookup[ob]] for ob in so]
        if l in v2shots:
            subs.append({"groups": groups, "lookup": lookup, "results": [{"v2": sh} for sh in v2shots[l]]})
        else:
            subs.append({"groups": groups, "lookup": lookup, "results": [{"v1": [[int(kk), frac(v)] for kk, v in d.items()]} for d in dists[l]]})
    line = {"op": "c06.reconstruct", "subs": subs, "coeffs": [frac(c) for c, _ in coeffs], "nobs": nobs}
    _cache[k] = ({"ok": [float(v) for v in vals]}, line)
    return _cache[k]


def model_line(kind, payload):
    res, line = _pipeline(payload)
    if line is None:
        return {"op": "c06.reconstruct", "subs": [], "coeffs": [], "nobs": 0}
    return line


def run_real(kind, payload):
    return _pipeline(payload)[0]


def model_canon(kind, payload, out):
    if "driver_error" in out:
        raise RuntimeError(out["driver_error"])
    if "error" in out:
        return {"error": out["error"]}
    return {"ok": [float(Fraction(x)) for x in out["ok"]]}


def compare(kind, payload, real, model):
    if "error" in real:
        return None  # refused upstream (allowed only for observables on idle qubits: checked by the oracle)
    if "error" in model:
        return f"model refuses {model} but the implementation reconstructed {real}"
    if len(real["ok"]) != len(model["ok"]):
        return "number of reconstructed values differs"
    for a, b in zip(real["ok"], model["ok"]):
        if abs(a - b) > 1e-9:
            return f"reconstructed values {real['ok']} vs model {model['ok']}"
    return None


def describe(kind, payload):
    ncut = sum(1 for i in payload["instrs"] if i["name"] != "barrier" and len(i["qubits"]) == 2
               and payload["part"][i["qubits"][0]] != payload["part"][i["qubits"][1]])
    return {"form": payload["form"], "nq": payload["nq"], "cuts": ncut, "auto_labels": payload["labels"] is None, "idle": len(payload["idle"])}


def nontrivial_key(kind, payload):
    d = describe(kind, payload)
    if d["cuts"] == 0:
        return None
    return hash(_key(payload))


def oracle(kind, payload):
    try:
        res, _ = _pipeline(payload)
    except Exception as ex:
        return f"pipeline raised {type(ex).__name__}: {ex}"
    idle_obs = any(o["l"][q] != "I" for o in payload["obs"] for q in payload["idle"])
    if "error" in res:
        # a refusal is allowed only when an observable acts on a qubit that partitioning discards as idle
        labels = payload["labels"]
        none_lab = labels is not None and any(labels[q] is None and any(o["l"][q] != "I" for o in payload["obs"]) for q in range(payload["nq"]))
        return None if (idle_obs or none_lab) else "the round trip was refused although no observable acts on an idle qubit"
    exact = workflow.uncut_expectations(payload)
    for k, (a, b) in enumerate(zip(res["ok"], exact)):
        if abs(a - b) > 1e-7:
            return f"observable {payload['obs'][k]['l']}: reconstructed {a}, uncut circuit {b}"
    return None
