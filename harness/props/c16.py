"""C16 — public functions neither modify their inputs nor share state between results."""
from __future__ import annotations

import json
import numpy as np

from .. import audit, canon
from ..core import call_real, load_known_findings

ID = "C16"
LEAN_MODULE = "CKT.Props.C16"
THEOREMS = ["CKT.C16." + t for t in ["exec_frame", "frame_sound", "all_framed", "sharing_table", "separation_partial", "separation_counterexample"]]
RULE = ("random circuits on 2-4 qubits mixing standard gates, payload-carrying UnitaryGates, pre-placed placeholders over constant and parametrised "
        "bases, wire-cut markers; every public transformation audited: deep fingerprints of all arguments before/after, identity of mutable objects "
        "between arguments and results (references kept alive), the same object returned twice, objects shared between the results of two calls, "
        "destructive edits through the result; sampler results of both interfaces incl. SamplerV1 quasi-distributions that do not sum to one "
        "(truncated, mitigated with negative entries, rescaled, raw counts); compared with the model's prediction (framed; sharing classes as a function of the input's features); "
        "direct calls of separate_circuit on circuits with barriers across / inside partitions (oracle only); the two sides of a returned basis for every decomposition family "
        "through from_instruction / cut_gates / partition_problem: editing every qubit-s list leaves the qubit-(1-s) lists, the other subcircuit's decompositions and later bases as they were (oracle only); "
        "histories (oracle only): chains cut_gates / cut_wires / partition_circuit_qubits over circuits with pre-placed placeholders, wire-cut markers and "
        "symbolic standard / composite / evolution gates, the last result edited through decompose_qpd_instructions(inplace=True) or "
        "assign_parameters(inplace=True): every earlier circuit unchanged, later calls as on freshly built twins")
ASSUMPTIONS = ["the Lean skeletons are transcriptions of the copy / constructor / write sites with Qiskit's observed copy semantics; the runtime audit is the decisive half",
               "identity sharing of classes S1-S4 (DESIGN.md section 3, D6) is a recorded known finding per (function, class); anything else is a violation"]
LEVEL_TEXT = ("6 Lean 4 theorems over ownership skeletons (frame: full; separation: partial + counterexample) + runtime ownership audit on the real "
              "objects (partial by nature: Python aliasing is observed, not modelled)")
FUNCS = ["cut_gates", "partition_circuit_qubits", "partition_problem", "cut_wires", "expand_observables", "find_cuts",
         "generate_cutting_experiments", "decompose_qpd_instructions", "reconstruct_expectation_values"]


# deterministic families, every public function on each of them (so that what is reported does not depend on the seed): a circuit in which
# every partition-spanning gate is already a placeholder (nothing left to replace), a chain over three partitions with two cuts (joint maps
# that agree on a partition), payload-carrying gates, a mix of pre-placed and ordinary cut gates, degenerate angles
_FIXED = [
    {"nq": 3, "labels": ["A", "B", "B"], "instrs": [{"name": "h", "qubits": [0]}, {"name": "qpd", "gate": "cx", "qubits": [0, 1]},
                                                      {"name": "cx", "qubits": [1, 2]}, {"name": "ry", "qubits": [2], "params": [0.3]}]},
    {"nq": 4, "labels": ["A", "A", "B", "B"], "instrs": [{"name": "cx", "qubits": [0, 1]}, {"name": "qpd", "gate": "rzz", "qubits": [1, 2]},
                                                           {"name": "qpd", "gate": "cz", "qubits": [0, 3]}, {"name": "cx", "qubits": [2, 3]}]},
    {"nq": 3, "labels": ["A", "B", "C"], "instrs": [{"name": "h", "qubits": [0]}, {"name": "cx", "qubits": [0, 1]}, {"name": "rzz", "qubits": [1, 2]},
                                                      {"name": "sx", "qubits": [2]}]},
    {"nq": 4, "labels": ["A", "B", "C", "C"], "instrs": [{"name": "cz", "qubits": [0, 1]}, {"name": "qpd", "gate": "cx", "qubits": [1, 2]},
                                                           {"name": "cx", "qubits": [2, 3]}, {"name": "h", "qubits": [3]}]},
    {"nq": 3, "labels": ["A", "B", "B"], "instrs": [{"name": "unitary", "qubits": [0], "params": [11, 1]}, {"name": "unitary2", "qubits": [0, 1]},
                                                      {"name": "cx", "qubits": [1, 2]}]},
    {"nq": 3, "labels": ["A", "B", "A"], "instrs": [{"name": "qpd", "gate": "crx", "qubits": [0, 1]}, {"name": "cry", "qubits": [1, 2]},
                                                      {"name": "rzz_pi", "qubits": [0, 1]}]},
]


# circuits with SEVERAL wire-cut markers (two wires, the same wire twice, three cuts, cuts next to payload-carrying and parametrised gates):
# every marker must become its own placeholder (own object, own basis, own lists) -- selecting a map or relabelling one cut of the
# result must not select / relabel another one
_WIRES = [
    {"nq": 2, "instrs": [{"name": "ry", "qubits": [0], "params": [0.7]}, {"name": "cx", "qubits": [0, 1]}, {"name": "cut_wire", "qubits": [0]},
                         {"name": "cx", "qubits": [1, 0]}, {"name": "cut_wire", "qubits": [1]}, {"name": "cx", "qubits": [0, 1]}]},
    {"nq": 2, "instrs": [{"name": "h", "qubits": [0]}, {"name": "cut_wire", "qubits": [0]}, {"name": "cx", "qubits": [0, 1]},
                         {"name": "cut_wire", "qubits": [0]}, {"name": "sx", "qubits": [0]}]},
    {"nq": 3, "instrs": [{"name": "cx", "qubits": [0, 1]}, {"name": "cut_wire", "qubits": [1]}, {"name": "cx", "qubits": [1, 2]},
                         {"name": "cut_wire", "qubits": [2]}, {"name": "cut_wire", "qubits": [0]}, {"name": "cz", "qubits": [0, 2]}]},
    {"nq": 3, "instrs": [{"name": "unitary", "qubits": [0], "params": [11, 1]}, {"name": "cut_wire", "qubits": [0]}, {"name": "rzz", "qubits": [0, 1]},
                         {"name": "cut_wire", "qubits": [1]}, {"name": "unitary2", "qubits": [1, 2]}]},
    {"nq": 4, "instrs": [{"name": "cut_wire", "qubits": [3]}, {"name": "cx", "qubits": [2, 3]}, {"name": "cut_wire", "qubits": [0]},
                         {"name": "cry", "qubits": [0, 1]}, {"name": "cut_wire", "qubits": [3]}, {"name": "cut_wire", "qubits": [1]}]},
]

# result objects handed to the reconstruction, in both sampler interfaces and with registers of one, exactly eight, nine, twelve and
# seventeen bits (a SamplerV2 register is stored as one row of BYTES per shot: one, two, three columns), as one result object with a plain
# observable list and as a dictionary over partitions: the call must leave every array / distribution of the results as it was, and a second
# reconstruction from the same objects must give the same numbers
_RESULTS = [
    {"fmt": "v2", "single": False, "subobs": [["ZI", "IZ", "XX"], ["Z", "X", "I"]], "nqpd": [9, 12], "ncoef": 3, "shots": 12},
    {"fmt": "v2", "single": True, "subobs": [["ZI", "IZ", "ZZ", "II"]], "nqpd": [12], "ncoef": 3, "shots": 16},
    {"fmt": "v2", "single": False, "subobs": [["ZZZZZZZZZ", "IIIIZIIII"], ["X", "Y"]], "nqpd": [17, 8], "ncoef": 2, "shots": 8},
    {"fmt": "v2", "single": True, "subobs": [["XY", "ZI"]], "nqpd": [1], "ncoef": 4, "shots": 5},
    {"fmt": "v1", "single": False, "subobs": [["ZI", "IX"], ["Y", "Z"]], "nqpd": [12, 9], "ncoef": 3, "shots": 6},
    {"fmt": "v1", "single": True, "subobs": [["ZZ", "XI", "II"]], "nqpd": [10], "ncoef": 2, "shots": 4},
    # SamplerV1 quasi-distributions that do NOT sum to one ("weights"): rare outcomes dropped ("truncated": the smallest entries of each
    # distribution are removed, the rest is left as it was), error-mitigated quasi-probabilities with negative entries ("mitigated"),
    # a distribution rescaled as a whole ("scaled": every entry times 0.5 / times 3), a sum that is off by 1e-6 only ("near"), and raw
    # counts instead of frequencies ("counts").  The reconstruction reads them (the estimator is linear in them); it must not rewrite them.
    {"fmt": "v1", "single": False, "subobs": [["ZI", "IX"], ["Y", "Z"]], "nqpd": [3, 2], "ncoef": 3, "shots": 9, "weights": ["truncated", None]},
    {"fmt": "v1", "single": True, "subobs": [["ZZ", "XI", "II"]], "nqpd": [2], "ncoef": 2, "shots": 7, "weights": ["mitigated"]},
    {"fmt": "v1", "single": False, "subobs": [["ZZ", "IX", "YI"], ["X", "I"]], "nqpd": [1, 4], "ncoef": 2, "shots": 6, "weights": ["scaled", "scaled3"]},
    {"fmt": "v1", "single": False, "subobs": [["Z", "I"], ["ZY", "IY"]], "nqpd": [2, 9], "ncoef": 4, "shots": 5, "weights": [None, "near"]},
    {"fmt": "v1", "single": True, "subobs": [["XY", "ZI"]], "nqpd": [1], "ncoef": 3, "shots": 8, "weights": ["counts"]},
]

# HISTORIES (oracle only; the ownership model has no notion of a sequence of calls): a circuit goes through a chain of public calls, each
# applied to the circuit the previous one returned (cut_gates on the first ordinary two-qubit gate, cut_wires, partition_circuit_qubits);
# every intermediate circuit is kept.  Then the LAST result is edited destructively through a public in-place interface --
# "decompose": decompose_qpd_instructions(last, ids, map_ids, inplace=True) selects a map on every placeholder of the last result,
# "bind": last.assign_parameters(values, inplace=True) binds every unbound Parameter of the last result -- and every earlier object
# (the arguments of all earlier calls, a second result of the last call) must be exactly as before, and later calls on them must
# give what they give on freshly built twins.  Inputs: pre-placed placeholders and ordinary gates next to wire-cut markers (cut_wires
# re-homes existing instructions onto new qubits), symbolic standard gates, and Python-side operations with unbound parameters
# (composite gate / instruction from to_gate() / to_instruction(), with a Parameter and with an expression, a controlled composite,
# a Pauli evolution with symbolic time).
_HIST = [
    {"nq": 3, "chain": ["cut_gates", "cut_wires"], "edit": "decompose",
     "instrs": [{"name": "h", "qubits": [0]}, {"name": "cx", "qubits": [0, 1]}, {"name": "cut_wire", "qubits": [1]}, {"name": "cx", "qubits": [1, 2]}]},
    {"nq": 3, "chain": ["cut_wires"], "edit": "decompose",
     "instrs": [{"name": "h", "qubits": [0]}, {"name": "qpd", "gate": "cx", "qubits": [0, 1]}, {"name": "cut_wire", "qubits": [1]}, {"name": "cx", "qubits": [1, 2]},
                {"name": "qpd", "gate": "rzz", "qubits": [2, 0]}]},
    {"nq": 3, "chain": ["partition", "cut_wires"], "edit": "decompose", "labels": ["A", "B", "B"],
     "instrs": [{"name": "qpd", "gate": "rzz", "qubits": [0, 1]}, {"name": "cz", "qubits": [0, 2]}, {"name": "cut_wire", "qubits": [2]}, {"name": "cx", "qubits": [1, 2]},
                {"name": "ry", "qubits": [2], "params": [0.3]}]},
    {"nq": 2, "chain": ["cut_wires", "cut_gates"], "edit": "decompose",
     "instrs": [{"name": "ry", "qubits": [0], "params": [0.7]}, {"name": "cx", "qubits": [0, 1]}, {"name": "cut_wire", "qubits": [0]}, {"name": "cx", "qubits": [1, 0]}]},
    {"nq": 2, "chain": ["cut_wires", "cut_wires"], "edit": "decompose",
     "instrs": [{"name": "h", "qubits": [0]}, {"name": "cut_wire", "qubits": [0]}, {"name": "qpd", "gate": "cz", "qubits": [0, 1]}, {"name": "cut_wire", "qubits": [1]},
                {"name": "sx", "qubits": [1]}]},
    {"nq": 3, "chain": ["cut_wires"], "edit": "bind",
     "instrs": [{"name": "sym", "gate": "rx", "par": "th", "qubits": [0]}, {"name": "symblk", "form": "gate", "par": "ph", "qubits": [0, 1]},
                {"name": "cut_wire", "qubits": [1]}, {"name": "cx", "qubits": [1, 2]}, {"name": "sym", "gate": "ry", "par": "th", "qubits": [2]}]},
    {"nq": 3, "chain": ["cut_wires"], "edit": "bind",
     "instrs": [{"name": "symblk", "form": "inst_expr", "par": "ph", "qubits": [1, 2]}, {"name": "cut_wire", "qubits": [2]},
                {"name": "symevo", "par": "th", "qubits": [0, 2]}, {"name": "cut_wire", "qubits": [0]}, {"name": "sym", "gate": "rzz", "par": "ph", "qubits": [0, 1]}]},
    {"nq": 3, "chain": ["cut_gates", "cut_wires"], "edit": "bind",
     "instrs": [{"name": "symblk", "form": "gate", "par": "ph", "qubits": [0, 1]}, {"name": "cx", "qubits": [1, 2]}, {"name": "cut_wire", "qubits": [1]},
                {"name": "symblk", "form": "ctrl", "par": "th", "qubits": [2, 0, 1]}]},
    {"nq": 3, "chain": ["cut_gates"], "edit": "bind",
     "instrs": [{"name": "symblk", "form": "ctrl", "par": "ph", "qubits": [0, 1, 2]}, {"name": "cz", "qubits": [0, 2]}, {"name": "symevo", "par": "ph", "qubits": [1, 2]}]},
    {"nq": 3, "chain": ["partition"], "edit": "bind", "labels": ["A", "A", "B"],
     "instrs": [{"name": "symblk", "form": "gate_expr", "par": "ph", "qubits": [1, 0]}, {"name": "cx", "qubits": [1, 2]}, {"name": "sym", "gate": "rz", "par": "th", "qubits": [2]},
                {"name": "symblk", "form": "inst", "par": "th", "qubits": [0, 1]}]},
    {"nq": 2, "chain": ["cut_wires", "cut_gates"], "edit": "bind",
     "instrs": [{"name": "symblk", "form": "inst", "par": "ph", "qubits": [0, 1]}, {"name": "cut_wire", "qubits": [0]}, {"name": "cx", "qubits": [0, 1]},
                {"name": "symblk", "form": "gate", "par": "ph", "qubits": [1, 0]}]},
]

# separate_circuit (utils.transforms; the public partitioning step underneath partition_problem), called DIRECTLY on circuits with barriers:
# across all qubits (= across the partitions), inside one partition, labelled, repeated, on one qubit only; labels given or derived from the
# connectivity (None).  Oracle only (the ownership model has no skeleton for it): the argument circuit must read exactly as before
# (number of instructions, barrier widths and labels), the same circuit must not be returned twice, two calls must give equal, unshared results.
_SEPARATE = [
    {"nq": 4, "labels": ["A", "A", "B", "B"],
     "instrs": [{"name": "h", "qubits": [0]}, {"name": "cx", "qubits": [0, 1]}, {"name": "cx", "qubits": [2, 3]}, {"name": "barrier", "qubits": [0, 1, 2, 3]},
                {"name": "rx", "qubits": [2], "params": [0.3]}, {"name": "barrier", "qubits": [2, 3]}, {"name": "cx", "qubits": [1, 0]}]},
    {"nq": 3, "labels": None,
     "instrs": [{"name": "cx", "qubits": [0, 1]}, {"name": "barrier", "qubits": [0, 1, 2]}, {"name": "h", "qubits": [2]}, {"name": "ry", "qubits": [1], "params": [0.3]}]},
    {"nq": 4, "labels": ["A", "B", "A", "B"],
     "instrs": [{"name": "cx", "qubits": [0, 2]}, {"name": "barrier", "qubits": [0, 1, 2, 3], "label": "sync"}, {"name": "cx", "qubits": [1, 3]},
                {"name": "barrier", "qubits": [3, 1]}, {"name": "sx", "qubits": [3]}]},
    {"nq": 2, "labels": ["A", "B"],
     "instrs": [{"name": "h", "qubits": [0]}, {"name": "barrier", "qubits": [0, 1]}, {"name": "barrier", "qubits": [1, 0], "label": "again"}, {"name": "sx", "qubits": [1]}]},
    {"nq": 3, "labels": ["A", "B", "C"],
     "instrs": [{"name": "barrier", "qubits": [1]}, {"name": "rz", "qubits": [0], "params": [0.3]}, {"name": "barrier", "qubits": [0, 2]}, {"name": "h", "qubits": [1]},
                {"name": "barrier", "qubits": [2]}]},
    {"nq": 3, "labels": ["A", "A", "B"],
     "instrs": [{"name": "h", "qubits": [0]}, {"name": "cx", "qubits": [0, 1]}, {"name": "barrier", "qubits": [1], "label": "one"}, {"name": "sx", "qubits": [2]}]},
]

# THE TWO SIDES OF A RETURNED BASIS (oracle only): the decomposition of every supported gate family (two-qubit rotations, controlled
# rotations, Clifford and controlled-phase gates, the KAK route, the wire-cut Move), obtained through QPDBasis.from_instruction, through
# cut_gates and through partition_problem.  A gate is prepended to every distinct qubit-s operation list of basis.maps (the way the package
# itself adds pre-rotations); the qubit-(1-s) lists must read as before, the OTHER subcircuit of partition_problem must decompose as before
# for every map, and a basis obtained afterwards must be what it was the first time.
_SIDES = [("rxx", [-1.1]), ("ryy", [2.3]), ("rzz", [0.7]), ("crx", [0.4]), ("cry", [0.4]), ("crz", [0.4]), ("cx", []), ("cz", []), ("cy", []), ("ch", []),
          ("cs", []), ("csdg", []), ("csx", []), ("cp", [0.6]), ("ecr", []), ("swap", []), ("iswap", []), ("dcx", []), ("rzx", [0.5]),
          ("unitary", [7, 2]), ("move", [])]


def cases(rng, tier):
    for k, spec in enumerate(_SEPARATE):
        yield ("separate", {"fn": "separate_circuit", "nq": spec["nq"], "instrs": spec["instrs"], "labels": spec["labels"], "obs": ["ZXIY"[: spec["nq"]]], "marker": False,
                            "meta": k % 2 == 0, "seed": 61 + k, "oracle_only": True, "always_oracle": True})
    for g, ps in _SIDES:
        yield ("sides", {"fn": "qpd_basis", "gate": g, "params": ps, "oracle_only": True, "always_oracle": True})
    for k, spec in enumerate(_HIST):
        yield ("history", {"fn": "history", "nq": spec["nq"], "instrs": spec["instrs"], "labels": spec.get("labels"), "chain": spec["chain"], "edit": spec["edit"],
                           "marker": False, "meta": k % 2 == 1, "oracle_only": True, "always_oracle": True})
    for k, spec in enumerate(_WIRES):
        yield ("audit", {"fn": "cut_wires", "nq": spec["nq"], "instrs": spec["instrs"], "labels": ["A"] * (spec["nq"] - 1) + ["B"],
                         "obs": ["ZXIY"[: spec["nq"]], "IZZX"[: spec["nq"]]], "marker": k % 2 == 1, "meta": k % 3 == 0, "seed": 31 + k,
                         "always_oracle": True})
    for k, spec in enumerate(_RESULTS):
        yield ("audit", {"fn": "reconstruct_expectation_values", "nq": 2, "instrs": [], "labels": ["A", "B"], "obs": ["ZI", "IZ"], "marker": False,
                         "meta": False, "seed": 47 + k, "results": spec, "always_oracle": True})
    for k, spec in enumerate(_FIXED):
        for fn in FUNCS:
            yield ("audit", {"fn": fn, "nq": spec["nq"], "instrs": spec["instrs"], "labels": spec["labels"],
                             "obs": ["ZXIY"[: spec["nq"]], "IZZX"[: spec["nq"]]], "marker": k % 2 == 0, "meta": k % 3 == 0, "seed": 7 + k,
                             "always_oracle": True})
    N = 60 if tier == "quick" else 600
    for _ in range(N):
        n = rng.randint(2, 4)
        instrs = []
        for _ in range(rng.randint(2, 7)):
            r = rng.random()
            if r < 0.25:
                instrs.append({"name": "unitary", "qubits": [rng.randrange(n)], "params": [rng.randrange(10 ** 6), 1]})
            elif r < 0.4:
                instrs.append({"name": rng.choice(["ry", "rz", "h", "sx"]), "qubits": [rng.randrange(n)], "params": [0.3]})
                if instrs[-1]["name"] in ("h", "sx"):
                    instrs[-1].pop("params")
            elif r < 0.55:
                instrs.append({"name": "qpd", "gate": rng.choice(["cx", "rzz", "cz", "crx", "swap"]), "qubits": rng.sample(range(n), 2)})
            else:
                # incl. rotations at angles where some map probabilities are tiny but not zero (3.7e-33, 6.1e-17)
                g = rng.choice(["cx", "rzz", "cz", "unitary2", "ch", "cry", "rzz_pi", "crz_2pi"])
                instrs.append({"name": g, "qubits": rng.sample(range(n), 2)})
        labs = [rng.choice("AB" if n < 3 or rng.random() < 0.6 else "ABC") for _ in range(n)]
        if len(set(labs)) == 1:
            labs[0], labs[-1] = "A", "B"
        obs = ["".join(rng.choice("IXYZ") for _ in range(n)) for _ in range(2)]
        yield ("audit", {"fn": rng.choice(FUNCS), "nq": n, "instrs": instrs, "labels": labs, "obs": obs, "marker": rng.random() < 0.7,
                         "meta": rng.random() < 0.5, "seed": rng.randrange(1 << 30)})


def _sym_op(ins, pars):
    """operations with an unbound Parameter (one Parameter object per name and circuit build: `pars`)"""
    from qiskit.circuit import Parameter, QuantumCircuit
    p = pars.setdefault(ins["par"], Parameter(ins["par"]))
    nm = ins["name"]
    if nm == "sym":
        from qiskit.circuit.library import RXGate, RYGate, RZGate, RZZGate, CRXGate
        return {"rx": RXGate, "ry": RYGate, "rz": RZGate, "rzz": RZZGate, "crx": CRXGate}[ins["gate"]](p)
    if nm == "symevo":
        from qiskit.circuit.library import PauliEvolutionGate
        from qiskit.quantum_info import SparsePauliOp
        return PauliEvolutionGate(SparsePauliOp(["ZZ", "XI"], [1.0, 0.5]), time=p)
    form = ins["form"]
    arg = 2 * p if form.endswith("_expr") else p
    sub = QuantumCircuit(2, name="blk")
    sub.rzz(arg, 0, 1)
    sub.rx(arg, 0)
    sub.cx(0, 1)
    if form.startswith("inst"):
        return sub.to_instruction()
    return sub.to_gate().control(1) if form == "ctrl" else sub.to_gate()


def _op(ins, pars=None):
    from qiskit.circuit.library import UnitaryGate
    from qiskit.quantum_info import random_unitary
    from qiskit_addon_cutting.qpd import TwoQubitQPDGate
    nm = ins["name"]
    if nm in ("sym", "symblk", "symevo"):
        return _sym_op(ins, {} if pars is None else pars)
    if nm == "cut_wire":
        from qiskit_addon_cutting.instructions import CutWire
        return CutWire()
    if nm == "barrier":
        return canon.mk_op("barrier", [len(ins["qubits"])], ins.get("label"))
    if nm == "qpd":
        g = ins["gate"]
        return TwoQubitQPDGate.from_instruction(canon.mk_op(g, [0.3] if g in ("rzz", "crx") else []))
    if nm == "unitary2":
        return UnitaryGate(random_unitary(4, seed=7))
    if nm in ("rzz", "cry"):
        return canon.mk_op(nm, [0.4])
    if nm == "rzz_pi":
        import math
        return canon.mk_op("rzz", [math.pi])
    if nm == "crz_2pi":
        import math
        return canon.mk_op("crz", [2 * math.pi])
    return canon.mk_op(nm, ins.get("params", ()))


def _circuit(payload, drop_qpd=False, marker=False, drop_marker=False):
    from qiskit.circuit import QuantumCircuit
    from qiskit_addon_cutting.instructions import CutWire
    qc = QuantumCircuit(payload["nq"])
    pars = {}
    for ins in payload["instrs"]:
        if drop_qpd and ins["name"] == "qpd":
            continue
        qc.append(_op(ins, pars), ins["qubits"])
    if marker and payload["marker"] and not drop_marker:
        qc.append(CutWire(), [0])
    if payload.get("meta"):
        qc.metadata = {"experiment": "ghz", "tags": ["run-7"], "nested": {"k": 1}}
        qc.name = "user-circuit"
    return qc


def _results(payload):
    """synthetic sampler results (not from a simulation: the audit is about ownership, the numbers are C06's business)"""
    import random
    from qiskit.quantum_info import PauliList
    from qiskit.primitives import SamplerResult, PrimitiveResult, SamplerPubResult, BitArray, DataBin
    from qiskit.result import QuasiDistribution
    from qiskit_addon_cutting.qpd import WeightType
    from qiskit_addon_cutting.utils.observable_grouping import ObservableCollection
    spec = payload["results"]
    rng = random.Random(payload["seed"])
    labels = "ABCD"[: len(spec["subobs"])]
    subobs = {l: PauliList(s) for l, s in zip(labels, spec["subobs"])}
    coefs = [(rng.choice([0.5, -0.5, 0.75, -1.25, 1.0]), WeightType.EXACT) for _ in range(spec["ncoef"])]
    results = {}
    for li, (l, nqpd) in enumerate(zip(labels, spec["nqpd"])):
        exps = []
        how = (spec.get("weights") or [None] * len(labels))[li]
        for _ in range(spec["ncoef"]):
            for cog in ObservableCollection(subobs[l]).groups:
                nb = max(1, len(cog.pauli_indices))
                shots = [(rng.randrange(1 << nb), rng.randrange(1 << nqpd)) for _ in range(spec["shots"])]
                if spec["fmt"] == "v2":
                    nbo, nbq = (nb + 7) // 8, (nqpd + 7) // 8
                    oa = np.array([[(o >> (8 * (nbo - 1 - j))) & 255 for j in range(nbo)] for o, q in shots], dtype=np.uint8)
                    qa = np.array([[(q >> (8 * (nbq - 1 - j))) & 255 for j in range(nbq)] for o, q in shots], dtype=np.uint8)
                    exps.append(SamplerPubResult(DataBin(observable_measurements=BitArray(oa, nb), qpd_measurements=BitArray(qa, nqpd), shape=())))
                else:
                    qd = {}
                    for o, q in shots:
                        qd[o | (q << nb)] = qd.get(o | (q << nb), 0.0) + 1.0 / len(shots)
                    exps.append(QuasiDistribution(_reweight(qd, how, len(shots), rng)))
        results[l] = PrimitiveResult(exps) if spec["fmt"] == "v2" else SamplerResult(exps, [{} for _ in exps])
    if spec["single"]:
        return results["A"], coefs, subobs["A"]
    return results, coefs, subobs


def _reweight(qd, how, shots, rng):
    """the quasi-distribution a caller hands in when it is not a plain normalised frequency table (`how` = None: unchanged)"""
    if how is None:
        return qd
    if how == "truncated":      # the rarest outcomes are dropped, the others keep their value
        if len(qd) > 1:
            low = min(qd.values())
            kept = {k: v for k, v in qd.items() if v > low}
            qd = kept or dict(list(qd.items())[:-1])
        else:
            qd = {k: v * 0.875 for k, v in qd.items()}
        return qd
    if how == "mitigated":      # quasi-probabilities after a mitigation step: some negative, the sum is not one
        return {k: (v * 1.375 if j % 2 == 0 else -v * 0.25) for j, (k, v) in enumerate(sorted(qd.items()))}
    if how == "scaled":
        return {k: v * 0.5 for k, v in qd.items()}
    if how == "scaled3":
        return {k: v * 3.0 for k, v in qd.items()}
    if how == "near":
        return {k: v * (1.0 + 1e-6) for k, v in qd.items()}
    if how == "counts":
        return {k: float(round(v * shots)) for k, v in qd.items()}
    raise ValueError("unknown weights " + str(how))


def _setup(payload):
    """-> (callable, args, features) for the audited function; upstream results are computed here, not audited"""
    from qiskit.quantum_info import PauliList
    import qiskit_addon_cutting as P
    from qiskit_addon_cutting.qpd import decompose_qpd_instructions, BaseQPDGate
    from qiskit_addon_cutting.utils.simulation import ExactSampler
    fn = payload["fn"]
    if payload.get("results") is not None:
        return ((lambda r, c, o: P.reconstruct_expectation_values(r, c, o)), list(_results(payload)),
                {"preplaced": False, "payload": False, "map_ops": False, "param_ops": False})
    obs = PauliList(payload["obs"])
    qc = _circuit(payload)
    labs = payload["labels"]

    def feats(circ_list, bases=()):
        pre = any(isinstance(i.operation, BaseQPDGate) for c in circ_list for i in c.data)
        pay = any(isinstance(p, np.ndarray) for c in circ_list for i in c.data for p in i.operation.params)
        bs = list(bases) + [i.operation.basis for c in circ_list for i in c.data if isinstance(i.operation, BaseQPDGate)]
        mo = any(getattr(op, "mutable", True) and len(op.params) > 0 for b in bs for m in b.maps for side in m for op in side)
        po = any(getattr(i.operation, "mutable", True) and len(i.operation.params) > 0 and not isinstance(i.operation, BaseQPDGate)
                 for c in circ_list for i in c.data)
        return {"preplaced": pre, "payload": pay, "map_ops": mo, "param_ops": po}
    if fn == "cut_gates":
        ids = [i for i, x in enumerate(qc.data) if len(x.qubits) == 2 and x.operation.name != "qpd_2q"][:1]
        return (lambda c, g: P.cut_gates(c, g)), [qc, ids], feats([qc])
    if fn == "partition_circuit_qubits":
        return (lambda c, l: P.partition_circuit_qubits(c, l)), [qc, labs], feats([qc])
    if fn == "partition_problem":
        return (lambda c, l, o: P.partition_problem(c, l, o)), [qc, labs, obs], feats([qc])
    if fn == "separate_circuit":
        from qiskit_addon_cutting.utils.transforms import separate_circuit
        return (lambda c, l: separate_circuit(c, l)), [qc, labs], feats([qc])
    plain = _circuit(payload, drop_qpd=True, marker=True)
    if fn == "cut_wires":
        return (lambda c: P.cut_wires(c)), [plain], feats([plain])
    if fn == "expand_observables":
        out = P.cut_wires(plain)
        return (lambda o, a, b: P.expand_observables(o, a, b)), [obs, plain, out], feats([plain, out])
    if fn == "find_cuts":
        noc = _circuit(payload, drop_qpd=True)
        return (lambda c, o, d: P.find_cuts(c, o, d)), [noc, P.OptimizationParameters(seed=1), P.DeviceConstraints(max(1, payload["nq"] - 1))], feats([noc])
    if fn == "decompose_qpd_instructions":
        ids = [i for i, x in enumerate(qc.data) if len(x.qubits) == 2 and x.operation.name != "qpd_2q"][:1]
        cg, _ = P.cut_gates(qc, ids)
        qids = [[i] for i, x in enumerate(cg.data) if x.operation.name == "qpd_2q"]
        return (lambda c, q, m: decompose_qpd_instructions(c, q, m)), [cg, qids, [0] * len(qids)], feats([cg])
    pp = P.partition_problem(qc, labs, obs)
    if np.prod([len(b.maps) for b in pp.bases] or [1]) > 400:
        raise ValueError("too many joint maps for this audit")
    if fn == "generate_cutting_experiments":
        return (lambda s, o, n: P.generate_cutting_experiments(s, o, n)), [pp.subcircuits, pp.subobservables, np.inf], feats(list(pp.subcircuits.values()), pp.bases)
    subs, coefs = P.generate_cutting_experiments(pp.subcircuits, pp.subobservables, np.inf)
    res = {l: ExactSampler().run(s).result() for l, s in subs.items()}
    return (lambda r, c, o: P.reconstruct_expectation_values(r, c, o)), [res, coefs, pp.subobservables], {"preplaced": False, "payload": False, "map_ops": False, "param_ops": False}


def _dups(out):
    """the same circuit object returned twice"""
    from qiskit.circuit import QuantumCircuit
    seen, dup = set(), False

    def walk(x):
        nonlocal dup
        if isinstance(x, QuantumCircuit):
            if id(x) in seen:
                dup = True
            seen.add(id(x))
        elif isinstance(x, dict):
            for v in x.values():
                walk(v)
        elif isinstance(x, (list, tuple)):
            for v in x:
                walk(v)
        elif hasattr(x, "subcircuits"):
            walk(x.subcircuits)
    walk(out)
    return dup


def _observe(payload):
    keep = []
    f, args, feats = _setup(payload)
    changed = []
    out, mutated, classes = audit.audit(f, args, keep, changed)
    # a second call: what do the two results share that does not come from the arguments?
    ina = {}
    for k, a in enumerate(args):
        audit.mutables(a, ina, keep, "arg%d" % k)
    out2 = f(*args)
    o1, o2 = {}, {}
    audit.mutables(out, o1, keep, "out")
    audit.mutables(out2, o2, keep, "out")
    cross = sorted({audit.norm(o1[i]) for i in o1 if i in o2 and i not in ina})
    same_again = audit.fp(out) == audit.fp(out2) if payload["fn"] != "find_cuts" else True
    # placeholders of different cuts inside ONE result that are the same object / hold the same basis or lists (not inherited from the arguments)
    alias = [[w, pa, pb] for w, pa, pb, _, _ in audit.placeholder_aliases(out, ina, keep)][:3]
    return {"alias": alias, "changed": changed, "mutated": mutated, "classes": sorted(classes), "examples": {c: list(v) for c, v in classes.items()}, "dup": _dups(out),
            "cross": cross, "repeatable": same_again, "features": feats}


# ---------------------------------------------------------------------------------------------------------------- histories
_CUTTABLE = ("cx", "cz", "ch", "rzz", "crx", "cry", "crz", "swap")


def _hist_step(payload, step, c):
    import qiskit_addon_cutting as P
    from qiskit.circuit import ParameterExpression
    if step == "cut_gates":
        ids = [i for i, x in enumerate(c.data) if len(x.qubits) == 2 and x.operation.name in _CUTTABLE
               and not any(isinstance(q, ParameterExpression) for q in x.operation.params)][:1]
        return P.cut_gates(c, ids)[0]
    if step == "cut_wires":
        return P.cut_wires(c)
    if step == "partition":
        return P.partition_circuit_qubits(c, payload["labels"])
    raise ValueError("unknown step " + step)


def _hist_run(payload):
    """[c0, c1, .., cn]: the circuit of the payload and the result of every call of the chain (call k is applied to c(k-1))"""
    objs = [_circuit(payload)]
    for step in payload["chain"]:
        objs.append(_hist_step(payload, step, objs[-1]))
    return objs


def _hist_ids(c):
    """instruction ids of the placeholders of c, one group per cut (the two halves of one cut carry the same label)"""
    from qiskit_addon_cutting.qpd import BaseQPDGate
    groups = {}
    for i, x in enumerate(c.data):
        if isinstance(x.operation, BaseQPDGate):
            groups.setdefault(("half", x.operation.label) if hasattr(x.operation, "qubit_id") else ("slot", i), []).append(i)
    return list(groups.values())


def _hist_edit(payload, last):
    """destructive edit of the last result through a public in-place interface; -> description, or None if there is nothing to edit"""
    from qiskit_addon_cutting.qpd import decompose_qpd_instructions
    if payload["edit"] == "bind":
        ps = sorted(last.parameters, key=lambda q: q.name)
        if not ps:
            return None
        vals = {q: 0.5 + 0.25 * k for k, q in enumerate(ps)}
        last.assign_parameters(vals, inplace=True)
        return "assign_parameters({%s}, inplace=True)" % ", ".join("%s: %s" % (q.name, v) for q, v in vals.items())
    ids = _hist_ids(last)
    if not ids:
        return None
    maps = [(k + 3) % len(last.data[g[0]].operation.basis.maps) for k, g in enumerate(ids)]
    decompose_qpd_instructions(last, ids, maps, inplace=True)
    return f"decompose_qpd_instructions(.., {ids}, map_ids={maps}, inplace=True)"


def _hist_fp(c):
    return (audit.fp(c), audit.fp_defs(c))


def _hist_diff(c, before):
    """first instruction of c whose fingerprint is not the one recorded in `before` (= _hist_fp(c) at an earlier time)"""
    def short(s):  # name, label, parameters, selected map; the basis is left out
        try:
            d = eval(s)
            return repr(d[:4] + ["<basis>"] + d[5:] if len(d) > 4 else d)
        except Exception:
            return s[:160]
    try:
        now = [audit.fp_op(i.operation) for i in c.data]
        was = [t[0] for t in eval(before[0])[6]]
        for k, (a, b) in enumerate(zip(was, now)):
            if a != b:
                return f"instruction {k}: was {short(a)} now {short(b)}"
        d0, d1 = eval(before[1]), eval(audit.fp_defs(c))
        for k, (a, b) in enumerate(zip(d0, d1)):
            if a != b:
                return f"instruction {k}: was {str(a)[:160]} now {str(b)[:160]}"
    except Exception:
        pass
    return "fingerprints differ"


def _hist_later(c):
    """outcome of a later public call on c that depends on the state of its instruction objects: decomposition WITHOUT map ids (must be
    refused unless a map was selected on c itself) and with the first map everywhere; plus a second cut_wires call"""
    import qiskit_addon_cutting as P
    from qiskit_addon_cutting.qpd import decompose_qpd_instructions
    ids = _hist_ids(c)
    out = []
    for maps in ([None, [0] * len(ids)] if ids else []):
        try:
            out.append(_hist_fp(decompose_qpd_instructions(c, ids, maps)))
        except Exception as ex:
            out.append("refused: " + type(ex).__name__)
    try:
        out.append(_hist_fp(P.cut_wires(c)))
    except Exception as ex:
        out.append("refused: " + type(ex).__name__)
    return out


def _history_oracle(payload):
    chain = payload["chain"]
    objs, twin = _hist_run(payload), _hist_run(payload)
    last = objs[-1]
    sibling = _hist_step(payload, chain[-1], objs[-2])  # a second result of the last call, returned before the edit
    names = ["the circuit given to " + chain[0]] + [f"the circuit returned by {chain[k]} (call {k + 1}) and given to {chain[k + 1]} (call {k + 2})" for k in range(len(chain) - 1)]
    held = list(zip(names, objs[:-1])) + [(f"another circuit returned by {chain[-1]} for the same argument", sibling)]
    before = [_hist_fp(c) for _, c in held]
    ref_last = _hist_fp(last)
    if [_hist_fp(c) for c in twin] != [_hist_fp(c) for c in objs]:
        return f"function={chain[-1]} class=HISTORY: the chain {chain} applied to two identically built circuits gave different circuits"
    did = _hist_edit(payload, last)
    if did is None:
        return None
    where = f"the circuit returned by the chain {' -> '.join(chain)}"
    try:
        for (nm, c), b in zip(held, before):
            if _hist_fp(c) != b:
                return f"function={chain[-1]} class=EDIT-INPLACE: {did} on {where} changed {nm}: {_hist_diff(c, b)}"
        # later calls: the last call again on its (kept) argument, the whole chain again on the first circuit and on a newly built one,
        # and calls on every kept circuit
        if _hist_fp(_hist_step(payload, chain[-1], objs[-2])) != ref_last:
            return (f"function={chain[-1]} class=EDIT-INPLACE: after {did} on {where}, calling {chain[-1]} again on the same argument gives a different "
                    f"circuit than the first time")
        if _hist_fp(_rechain(payload, objs[0])) != ref_last or _hist_fp(_hist_run(payload)[-1]) != ref_last:
            return f"function={chain[-1]} class=EDIT-INPLACE: after {did} on {where}, the same chain of calls on the same first circuit gives a different result"
        for (nm, c), t in zip(held[:-1], twin[:-1]):
            if _hist_later(c) != _hist_later(t):
                return (f"function={chain[-1]} class=EDIT-INPLACE: after {did} on {where}, later calls (decompose_qpd_instructions without map ids / with map 0, "
                        f"cut_wires) on {nm} give something else than on an identically built circuit whose result was never edited")
    except Exception as ex:
        return f"function={chain[-1]} class=EDIT-INPLACE: after {did} on {where}, a later call that worked before fails: {type(ex).__name__}: {ex}"
    return None


def _rechain(payload, c):
    for step in payload["chain"]:
        c = _hist_step(payload, step, c)
    return c


# ---------------------------------------------------------------------------------------------------------------- the two sides of a basis
_SIDES_ROUTES = ["QPDBasis.from_instruction", "cut_gates", "partition_problem"]


def _sides_basis(payload, route):
    """-> (basis, other): a freshly obtained basis of the gate of the payload; for partition_problem `other` = {side: (the subcircuit holding
    the qubit-`side` half of the cut, index of that half)}"""
    from qiskit.circuit import QuantumCircuit
    from qiskit.quantum_info import PauliList
    import qiskit_addon_cutting as P
    from qiskit_addon_cutting.qpd import QPDBasis, BaseQPDGate
    op = canon.mk_op(payload["gate"], payload["params"])
    if route == "QPDBasis.from_instruction":
        return QPDBasis.from_instruction(op), None
    qc = QuantumCircuit(2)
    qc.h(0)
    qc.append(op, [0, 1])
    qc.sx(1)
    if route == "cut_gates":
        return P.cut_gates(qc, [1])[0].data[1].operation.basis, None
    pp = P.partition_problem(qc, "AB", PauliList(["ZZ"]))
    other = {}
    for sub in pp.subcircuits.values():
        for i, x in enumerate(sub.data):
            if isinstance(x.operation, BaseQPDGate):
                other[x.operation.qubit_id] = (sub, i)
    return pp.bases[0], other


def _sides_oracle(payload):
    from qiskit.circuit.library import TGate
    from qiskit_addon_cutting.qpd import decompose_qpd_instructions
    gate = payload["gate"]
    for route in _SIDES_ROUTES:
        for side in (0, 1):
            try:
                basis, other = _sides_basis(payload, route)
            except ValueError:
                continue  # this entry point refuses the gate
            first = audit.fp_basis(basis)

            def read():
                r = [[audit.fp_op(o) for o in m[1 - side]] for m in basis.maps]
                if other is not None and (1 - side) in other:
                    sub, i = other[1 - side]
                    r.append([audit.fp(decompose_qpd_instructions(sub, [[i]], [m])) for m in range(len(basis.maps))])
                return r
            before, done = read(), set()
            for m in basis.maps:
                if id(m[side]) not in done:
                    done.add(id(m[side]))
                    m[side].insert(0, TGate())
            after = read()
            nm = len(basis.maps)
            bad = [k for k in range(nm) if before[k] != after[k]]
            if bad:
                return (f"function={route} class=SIDES: prepending a t gate to every distinct qubit-{side} operation list of basis.maps of the basis returned for "
                        f"{gate}{payload['params']} also changed the qubit-{1 - side} lists of maps {bad}: "
                        f"{[[eval(o)[0] for o in before[k]] for k in bad]} -> {[[eval(o)[0] for o in after[k]] for k in bad]}")
            if before != after:
                bad = [k for k in range(nm) if before[nm][k] != after[nm][k]]
                return (f"function={route} class=SIDES: after prepending a t gate to every distinct qubit-{side} operation list of the basis of the cut {gate}{payload['params']} "
                        f"(through the qubit-{side} subcircuit), decompose_qpd_instructions on the OTHER returned subcircuit gives a different circuit for map(s) {bad}")
            again = audit.fp_basis(_sides_basis(payload, route)[0])
            if again != first:
                return (f"function={route} class=SIDES: after editing the qubit-{side} lists of a returned basis for {gate}{payload['params']}, "
                        f"the basis returned by a later call differs from the one returned the first time")
    return None


def model_line(kind, payload):
    if kind in ("history", "separate", "sides"):
        # a sequence of calls is outside the ownership model: nothing to compare, the oracle decides
        return {"op": "c16.predict", "fn": "cut_wires", "preplaced": False, "payload": False, "map_ops": False, "param_ops": False}
    try:
        _, _, feats = _setup(payload)
    except Exception:
        feats = {"preplaced": False, "payload": False, "map_ops": False, "param_ops": False}
    return {"op": "c16.predict", "fn": payload["fn"], **feats}


def run_real(kind, payload):
    if kind == "history":
        objs = _hist_run(payload)
        return {"ok": {"history": [len(c.data) for c in objs]}}
    if kind == "sides":
        return {"ok": {"sides": [len(_sides_basis(payload, r)[0].maps) for r in _SIDES_ROUTES[:1]]}}
    ob = _observe(payload)
    return {"ok": {k: ob[k] for k in ("mutated", "classes", "dup", "cross", "repeatable", "alias")}}


def model_canon(kind, payload, out):
    if "driver_error" in out:
        raise RuntimeError(out["driver_error"])
    return out


def compare(kind, payload, real, model):
    if kind in ("history", "separate", "sides"):
        return None  # no skeleton in the ownership model for these: the oracle decides
    if "error" in real:
        return None  # the request itself was refused (e.g. unsupported spanning gate): nothing to audit
    r, m = real["ok"], model["ok"]
    if not m["known"]:
        return f"no skeleton for {payload['fn']}"
    if r["mutated"]:
        return f"{payload['fn']} modified its arguments (model: framed={m['framed']})"
    extra = [c for c in r["classes"] if c not in m["shares"]]
    if extra:
        return f"{payload['fn']} shares {extra} with its arguments; the model predicts only {m['shares']}"
    if r["dup"]:
        return f"{payload['fn']} returned the same circuit object twice"
    if r.get("alias"):
        w, pa, pb = r["alias"][0]
        return f"{payload['fn']}: the placeholders at {pa} and {pb} of one result share {w}"
    if r["cross"]:
        return f"results of two {payload['fn']} calls share {r['cross'][:3]}"
    if not r["repeatable"]:
        return f"a second identical {payload['fn']} call gave a different result"
    return None


def describe(kind, payload):
    if kind == "history":
        return {"fn": "history", "history": "+".join(payload["chain"]) + "/" + payload["edit"]}
    if kind == "sides":
        return {"fn": "qpd_basis", "sides": payload["gate"]}
    return {"fn": payload["fn"]}


def nontrivial_key(kind, payload):
    return hash(json.dumps(payload, sort_keys=True))


def _known_pairs():
    return {(k.get("fn"), k.get("cls")) for k in load_known_findings() if k.get("property") == "C16" and k.get("status") != "fixed"}


def _confirm_edit(payload, cls):
    """edit, through a fresh result, the object shared in class `cls`; True if the arguments' fingerprint changes"""
    keep = []
    f, args, _ = _setup(payload)
    ina, oa = {}, {}
    for k, a in enumerate(args):
        audit.mutables(a, ina, keep, "arg%d" % k)
    before = [audit.fp(a) for a in args]
    out = f(*args)
    oall = {}
    audit.mutables(out, oa, keep, "out", oall)
    objs = {id(o): o for o in keep}
    if cls.startswith("other:view:"):
        # a returned Pauli list whose arrays are views of the caller's: flip it in place
        in_arr = [pa for k, a in enumerate(args) for pa in audit.pauli_arrays(a, "arg%d" % k)]
        for po, ao in audit.pauli_arrays(out, "out"):
            if ao.size and ao.dtype == bool and any(ai.size and np.shares_memory(ao, ai) for _, ai in in_arr):
                np.logical_not(ao, out=ao)
                break
        try:
            return [audit.fp(a) for a in args] != before
        except Exception:
            return True
    hit = audit.shared_classes(ina, oa, oall).get(cls)
    undo = None
    for i in (hit[2] if hit is not None else []):
        o = objs.get(i)
        try:
            if isinstance(o, np.ndarray):
                o += 1
                undo = lambda o=o: o.__isub__(1)
            elif hasattr(o, "coeffs") and hasattr(o, "maps"):
                old = o.coeffs
                o.coeffs = [c * 2 for c in o.coeffs]
                undo = lambda o=o, old=old: setattr(o, "coeffs", old)
            elif hasattr(o, "label"):
                old = o.label
                o.label = "edited-through-result"
                undo = lambda o=o, old=old: setattr(o, "label", old)
            elif isinstance(o, list):
                o.append(None)
                undo = o.pop
            else:
                continue
        except Exception:
            continue
        break
    try:
        return [audit.fp(a) for a in args] != before
    except Exception:
        return True
    finally:
        # the edit is withdrawn: a shared object may be module-level state that later cases (and later constructions) would inherit
        if undo is not None:
            try:
                undo()
            except Exception:
                pass


def _confirm_alias(payload):
    """on a fresh result: edit the placeholder of one cut (select a map, or edit the shared basis part) and look at the placeholder of the
    OTHER cut; -> None, or a sentence saying what changed.  The edit is withdrawn afterwards."""
    keep = []
    f, args, _ = _setup(payload)
    ina = {}
    for k, a in enumerate(args):
        audit.mutables(a, ina, keep, "arg%d" % k)
    out = f(*args)
    hits = audit.placeholder_aliases(out, ina, keep)
    if not hits:
        return None
    what, pa, pb, opa, opb = hits[0]
    before, undo = audit.fp_op(opb), None
    try:
        if what == "the placeholder object":
            old = opa.basis_id
            opa.basis_id = 1 if old != 1 else 0
            undo = lambda: setattr(opa, "basis_id", old)
            did = f"selecting map {opa.basis_id} (basis_id) on the placeholder at {pa}"
        elif what in ("the basis object", "the coefficient list"):
            oldc = opa.basis.coeffs
            opa.basis.coeffs = [c * 2 for c in oldc]
            undo = lambda: setattr(opa.basis, "coeffs", oldc)
            did = f"doubling the coefficients of the basis of the placeholder at {pa}"
        else:
            theirs = [id(side) for m in opb.basis.maps for side in m]
            lst = opa.basis.maps if what == "the list of maps" else next(side for m in opa.basis.maps for side in m if id(side) in theirs)
            lst.append(lst[0])
            undo = lst.pop
            did = f"appending to {what} of the basis of the placeholder at {pa}"
        try:
            moved = audit.fp_op(opb) != before
        except Exception:
            moved = True
    finally:
        if undo is not None:
            try:
                undo()
            except Exception:
                pass
    if not moved:
        return None
    msg = f"{did} also changes the placeholder of a different cut at {pb} (they share {what})"
    # a later call on the returned circuit: in-place decomposition with one map id per cut
    try:
        from qiskit.circuit import QuantumCircuit
        from qiskit_addon_cutting.qpd import decompose_qpd_instructions
        if isinstance(out, QuantumCircuit):
            ids = [[i] for i, x in enumerate(out.data) if hasattr(x.operation, "basis") and hasattr(x.operation, "basis_id")]
            maps = [k % len(out.data[i[0]].operation.basis.maps) for k, i in enumerate(ids)]
            want = audit.fp(decompose_qpd_instructions(out.copy(), ids, maps))  # QuantumCircuit.copy gives every slot its own operation object
            got = audit.fp(decompose_qpd_instructions(f(*args), ids, maps, inplace=True))
            if want != got:
                msg += f"; decompose_qpd_instructions(result, {ids}, map_ids={maps}, inplace=True) then yields a different circuit than for a copy of the result"
    except Exception:
        pass
    return msg


def _which_dist(payload):
    """for a reconstruction from SamplerV1 results: the first quasi-distribution that reads differently after the call"""
    if payload.get("results") is None or payload["results"].get("fmt") != "v1":
        return ""
    try:
        f, args, _ = _setup(payload)
        res = args[0] if isinstance(args[0], dict) else {"(single result)": args[0]}
        before = {l: [dict(q) for q in r.quasi_dists] for l, r in res.items()}
        f(*args)
        for l, r in res.items():
            for k, (a, q) in enumerate(zip(before[l], r.quasi_dists)):
                if a != dict(q):
                    return (f": quasi-distribution {k} of partition {l!r} (sum {sum(a.values())!r}) was {a} before the call and is {dict(q)} afterwards"
                            f" (weights handed in: {payload['results'].get('weights')})")
    except Exception:
        pass
    return ""


def _which_barriers(payload):
    """for a direct separate_circuit call: how the argument circuit reads before and after"""
    if payload.get("fn") != "separate_circuit":
        return ""
    try:
        f, args, _ = _setup(payload)
        def read(c):
            return len(c.data), [(len(i.qubits), i.operation.label) for i in c.data if i.operation.name == "barrier"]
        b = read(args[0])
        f(*args)
        a = read(args[0])
        if a != b:
            return (f": the argument circuit had {b[0]} instructions with barriers (width, label) {b[1]} before separate_circuit(circuit, {args[1]}) "
                    f"and has {a[0]} instructions with barriers {a[1][:6]} afterwards")
    except Exception:
        pass
    return ""


def oracle(kind, payload):
    if kind == "sides":
        try:
            return _sides_oracle(payload)
        except Exception as ex:
            return f"function=QPDBasis.from_instruction basis-sides audit crashed: {type(ex).__name__}: {ex}"
    if kind == "history":
        try:
            return _history_oracle(payload)
        except ValueError:
            return None  # a call of the chain refused the request
        except Exception as ex:
            return f"function={payload['chain'][-1]} history audit crashed: {type(ex).__name__}: {ex}"
    try:
        ob = _observe(payload)
    except ValueError:
        return None
    except Exception as ex:
        return f"function={payload['fn']} audit crashed: {type(ex).__name__}: {ex}"
    fn = payload["fn"]
    if ob["mutated"]:
        return (f"function={fn} class=MUTATION: the call modified its arguments" + (f" (argument(s) {ob['changed']} differ from their snapshot)" if ob.get("changed") else "")
                + _which_dist(payload) + _which_barriers(payload))
    if ob["dup"]:
        return f"function={fn} class=DUP: the same circuit object is returned twice (editing one returned circuit edits another)"
    if ob["alias"]:
        why = _confirm_alias(payload)
        if why is not None:
            return f"function={fn} class=ALIAS: {why}"
    if ob["cross"]:
        return f"function={fn} class=CROSS: the results of two calls share mutable objects {ob['cross'][:3]}"
    if not ob["repeatable"]:
        return f"function={fn} class=HISTORY: a second identical call gave a different result"
    known = _known_pairs()
    classes = sorted(ob["classes"], key=lambda c: (fn, c) in known)
    for c in classes:
        if _confirm_edit(payload, c):
            ex = ob["examples"][c]
            return f"function={fn} class={c}: editing {audit.norm(ex[0])} of the result changes the caller's {audit.norm(ex[1])}"
    return None


def matches_known(k, kind, payload, what):
    return isinstance(what, str) and f"function={k.get('fn')} class={k.get('cls')}:" in what


_REPLAY = {"S1": {"instrs": [{"name": "qpd", "gate": "cx", "qubits": [0, 1]}, {"name": "cx", "qubits": [1, 2]}]},
           "S2": {"instrs": [{"name": "unitary", "qubits": [0], "params": [11, 1]}, {"name": "cx", "qubits": [0, 1]}, {"name": "cx", "qubits": [1, 2]}]},
           "S3": {"instrs": [{"name": "rzz", "qubits": [0, 1]}, {"name": "cx", "qubits": [1, 2]}, {"name": "rzz", "qubits": [1, 2]}]},
           "S4": {"instrs": [{"name": "unitary", "qubits": [0], "params": [11, 1]}, {"name": "cx", "qubits": [0, 1]}]}}


def replay_known(k):
    """re-execute the recorded finding on the real code: is (function, class) still there?"""
    spec = _REPLAY[k["cls"]]
    payload = {"fn": k["fn"], "nq": 3, "instrs": spec["instrs"], "labels": ["A", "B", "B"], "obs": ["ZZI", "IXY"], "marker": True, "seed": 1}
    if k["cls"] == "S3":
        payload["labels"] = ["A", "B", "A"]
    try:
        ob = _observe(payload)
    except Exception:
        return False
    return k["cls"] in ob["classes"] and _confirm_edit(payload, k["cls"])
