"""C12 — reset-removal optimisations never change measurement statistics."""
from __future__ import annotations

import itertools
import json
import numpy as np

from .. import canon, gen
from ..core import call_real

ID = "C12"
LEAN_MODULE = "CKT.Props.C12Sem"
THEOREMS = [
    "CKT.C12.removeInitial_only", "CKT.C12.removeFinal_only", "CKT.C12.consolidate_only",
    "CKT.C12.passRemoveFinalReset_only", "CKT.C12.passConsolidateResets_only",
    "CKT.C12.removeInitial_wire", "CKT.C12.removeFinal_wire", "CKT.C12.consolidate_wire", "CKT.C12.WF_of_only",
    # semantic half, for every semantics obeying the four reset laws (C12Sem)
    "CKT.C12Sem.removeInitial_run", "CKT.C12Sem.consolidate_run", "CKT.C12Sem.removeFinal_obs", "CKT.C12Sem.optimizeResets_obs",
    "CKT.C12Sem.each_pass_obs", "CKT.C12Sem.classical",
]
RULE = ("dynamic circuits over {reset,h,x,sx,cx (both directions),measure,barrier} on 1-4 qubits / 0-4 clbits with up to 16 instructions; "
        "thorough additionally enumerates every program of length <=5 on 2 qubits / 1 clbit (exhaustive); every circuit is pushed through the three "
        "list scans, their composition and the two transpiler passes; non-trivial = contains a reset; distinct by program")
ASSUMPTIONS = ["Qiskit's circuit<->DAG conversion may re-linearise instructions on disjoint wires: the transpiler passes are compared per wire",
               "reference semantics for the failing-input search: density-matrix branch simulator (harness/oracles/refsim.py)",
               "T12.3 (`optimizeResets_obs`, `each_pass_obs`) is proved for every semantics obeying the four laws of `C12Sem.ResetSem` (a reset commutes "
               "with instructions on other qubits, is idempotent, fixes the initial state, and is invisible to the classical-register statistics); that "
               "Qiskit's semantics obeys them is standard and not proved in Lean (simulated on every case); the two transpiler passes are validated "
               "by simulation only"]
PASSES = ["initial", "final", "consolidate", "optimize", "dag_final", "dag_consolidate"]


def _rand_prog(rng, n, m, length):
    prog = []
    for _ in range(length):
        r = rng.random()
        if r < 0.35:
            prog.append({"name": "reset", "qubits": [rng.randrange(n)]})
        elif r < 0.5:
            prog.append({"name": rng.choice(["h", "x", "sx"]), "qubits": [rng.randrange(n)]})
        elif r < 0.65 and n > 1:
            prog.append({"name": "cx", "qubits": rng.sample(range(n), 2)})
        elif r < 0.8 and m:
            prog.append({"name": "measure", "qubits": [rng.randrange(n)], "clbits": [rng.randrange(m)]})
        elif r < 0.9:
            prog.append({"name": "barrier", "qubits": rng.sample(range(n), rng.randint(1, n))})
        else:
            prog.append({"name": "h", "qubits": [rng.randrange(n)]})
    return prog


ALPHABET = ([{"name": "reset", "qubits": [q]} for q in (0, 1)] + [{"name": "h", "qubits": [q]} for q in (0, 1)]
            + [{"name": "x", "qubits": [q]} for q in (0, 1)] + [{"name": "cx", "qubits": [0, 1]}, {"name": "cx", "qubits": [1, 0]}]
            + [{"name": "measure", "qubits": [q], "clbits": [0]} for q in (0, 1)]
            + [{"name": "barrier", "qubits": [0]}, {"name": "barrier", "qubits": [1]}, {"name": "barrier", "qubits": [0, 1]}])


def _applied_cases(rng, tier):
    """the removals as the package applies them while generating subexperiments: circuits with explicit resets (leading, inner, trailing),
    no or one cut, observables supported on one qubit (qubit 0 in particular), identity groups"""
    from .. import workflow
    for _ in range(30 if tier == "quick" else 400):
        p = workflow.gen_problem(rng, max_q=3, max_cuts=rng.choice([0, 0, 1]), depth=4, idle_ok=False)
        nq = p["nq"]
        for _ in range(rng.randint(1, 3)):
            p["instrs"].insert(rng.randint(0, len(p["instrs"])), {"name": "reset", "qubits": [rng.randrange(nq)]})
        for q in rng.sample(range(nq), rng.randint(1, nq)):
            p["instrs"].append({"name": "reset", "qubits": [q]})
        sup = rng.choice([0, 0, rng.randrange(nq)])
        p["obs"] = [{"l": "".join(rng.choice("XYZ") if q == sup else "I" for q in range(nq)), "p": 0} for _ in range(rng.randint(1, 2))]
        if rng.random() < 0.3:
            p["obs"].append({"l": "I" * nq, "p": 0})
        p["form"] = rng.choice(["dict", "single"])
        p["N"] = None
        p["seed"] = 0
        yield ("applied", p)


def cases(rng, tier):
    yield from _applied_cases(rng, tier)
    N = 120 if tier == "quick" else 1500
    for _ in range(N):
        n = rng.randint(1, 4)
        m = rng.randint(0, 4)
        prog = _rand_prog(rng, n, m, rng.randint(1, 16))
        qregs = gen.rand_regs(rng, n) if (n > 1 and rng.random() < 0.4) else None   # several quantum registers
        for w in PASSES:
            yield ("pass", {"nq": n, "ncl": m, "prog": prog, "which": w, "qregs": qregs})
    if tier == "thorough":
        # bounded-exhaustive family named in the property's quantifier (validation of the model against the code)
        for L in range(1, 6):
            for tup in itertools.product(range(len(ALPHABET)), repeat=L):
                prog = [ALPHABET[k] for k in tup]
                if not any(p["name"] == "reset" for p in prog):
                    continue
                if L == 5 and rng.random() > 0.02:
                    continue  # length 5: 537k programs -> 2% sample per run, lengths 1-4 complete
                for w in PASSES:
                    yield ("pass", {"nq": 2, "ncl": 1, "prog": prog, "which": w})


def _circ(payload):
    return canon.build_circuit({"nq": payload["nq"], "qregs": payload.get("qregs"), "cregs": [["c", payload["ncl"]]] if payload["ncl"] else [],
                                "instrs": payload["prog"]})


def _apply(qc, which):
    from qiskit.transpiler import PassManager
    from qiskit_addon_cutting.cutting_experiments import _consolidate_resets, _remove_resets_in_zero_state, _remove_final_resets
    from qiskit_addon_cutting.utils.transpiler_passes import RemoveFinalReset, ConsolidateResets
    if which == "initial":
        return _remove_resets_in_zero_state(qc)
    if which == "final":
        return _remove_final_resets(qc)
    if which == "consolidate":
        return _consolidate_resets(qc)
    if which == "optimize":
        _remove_resets_in_zero_state(qc)
        _remove_final_resets(qc)
        return _consolidate_resets(qc)
    if which == "dag_final":
        return PassManager([RemoveFinalReset()]).run(qc)
    return PassManager([ConsolidateResets()]).run(qc)


def _sig(instrs):
    return [[i["name"], i["qubits"], i.get("clbits", [])] for i in instrs]


def _wires(sig, nq, ncl):
    w = {}
    for s in sig:
        for q in s[1]:
            w.setdefault(f"q{q}", []).append(s)
        for c in s[2]:
            w.setdefault(f"c{c}", []).append(s)
    return w


def _view(instrs, payload):
    sig = _sig(instrs)
    if payload["which"].startswith("dag_"):
        return {"wires": _wires(sig, payload["nq"], payload["ncl"]), "count": len(sig)}
    return {"list": sig}


def model_line(kind, payload):
    if kind == "applied":
        from . import c05
        return c05.model_line("generate", payload)
    return {"op": "c12.pass", "which": payload["which"], "circuit": canon.canon_circuit(_circ(payload))}


def run_real(kind, payload):
    if kind == "applied":
        from . import c05
        return c05.run_real("generate", payload)
    qc = _circ(payload)
    out = _apply(qc, payload["which"])
    return {"ok": _view(canon.canon_circuit(out)["instrs"], payload)}


def model_canon(kind, payload, out):
    if kind == "applied":
        from . import c05
        return c05.model_canon("generate", payload, out)
    if "driver_error" in out:
        raise RuntimeError(out["driver_error"])
    return {"ok": _view(out["ok"]["instrs"], payload)}


def compare(kind, payload, real, model):
    if kind == "applied":
        from . import c05
        return c05.compare("generate", payload, real, model)
    if real != model:
        return f"real={json.dumps(real)[:300]} model={json.dumps(model)[:300]}"
    return None


def describe(kind, payload):
    if kind == "applied":
        return {"kind2": "applied", "form": payload["form"]}
    return {"which": payload["which"], "nq": payload["nq"], "len": len(payload["prog"]),
            "resets": sum(1 for p in payload["prog"] if p["name"] == "reset")}


def nontrivial_key(kind, payload):
    if kind == "applied":
        return hash(json.dumps(payload, sort_keys=True, default=str))
    if not any(p["name"] == "reset" for p in payload["prog"]):
        return None
    return hash(json.dumps(payload, sort_keys=True))


def _ptrace_keep(rho, keep, n):
    t = rho.reshape([2] * (2 * n))
    drop = [q for q in range(n) if q not in keep]
    for q in sorted(drop, reverse=True):
        nn = t.ndim // 2
        ax = nn - 1 - q
        t = np.trace(t, axis1=ax, axis2=nn + ax)
    d = 2 ** len(keep)
    return t.reshape(d, d)


def oracle(kind, payload):
    if kind == "applied":
        # measurement statistics are unchanged: the generated experiments, evaluated exactly, give the expectation values of the circuit
        from . import c01
        why = c01.oracle("roundtrip", payload)
        return None if why is None else "reset removal inside experiment generation changed the statistics: " + why
    """Property itself on the real code: only resets removed, order kept (per wire for DAG passes), and the joint
    classical distribution + conditional state of all qubits other than those whose trailing reset was dropped is unchanged."""
    from ..oracles.refsim import simulate
    qc = _circ(payload)
    before = [tuple(map(lambda x: tuple(x) if isinstance(x, list) else x, s)) for s in _sig(canon.canon_circuit(qc)["instrs"])]
    try:
        out = _apply(qc.copy(), payload["which"])
    except Exception as ex:
        return f"{payload['which']} raised {type(ex).__name__}: {ex}"
    after = [tuple(map(lambda x: tuple(x) if isinstance(x, list) else x, s)) for s in _sig(canon.canon_circuit(out)["instrs"])]
    from collections import Counter
    diff = Counter(before) - Counter(after)
    if (Counter(after) - Counter(before)) or any(k[0] != "reset" for k in diff):
        return f"{payload['which']} changed something other than resets: {before} -> {after}"
    if payload["which"].startswith("dag_"):
        wb, wa = _wires([list(s) for s in before], 0, 0), _wires([list(s) for s in after], 0, 0)
        for w_, seq in wb.items():
            sa = wa.get(w_, [])
            j = 0
            for b in seq:
                if j < len(sa) and sa[j] == b:
                    j += 1
                elif b[0] != "reset":
                    return f"{payload['which']} reordered wire {w_}: {before} -> {after}"
            if j != len(sa):
                return f"{payload['which']} reordered wire {w_}: {before} -> {after}"
    else:
        j = 0
        for b in before:
            if j < len(after) and after[j] == b:
                j += 1
            elif b[0] != "reset":
                return f"{payload['which']} changed the order: {before} -> {after}"
        if j != len(after):
            return f"{payload['which']} changed the order: {before} -> {after}"
    n = payload["nq"]
    # qubits whose *trailing* reset was dropped
    dropped = set()
    rem = list(diff.elements())
    for r in rem:
        q = r[1][0]
        last = [s for s in before if q in s[1]][-1]
        lasta = [s for s in after if q in s[1]]
        if last[0] == "reset" and (not lasta or lasta[-1][0] != "reset" or Counter(before)[last] != Counter(after)[last]):
            # the wire ended with a reset before and lost a reset at its end
            nb = len([1 for s in reversed([s for s in before if q in s[1]]) if s[0] == "reset"])
            dropped.add(q)
    # only count as trailing when the wire's trailing run of resets shrank
    def trailing(seq, q):
        c = 0
        for s in reversed([s for s in seq if q in s[1]]):
            if s[0] == "reset":
                c += 1
            else:
                break
        return c
    dropped = {q for q in range(n) if trailing(after, q) == 0 and trailing(before, q) > 0}
    keep = [q for q in range(n) if q not in dropped]
    A, B = simulate(qc), simulate(out)
    for k in set(A) | set(B):
        ra = _ptrace_keep(A.get(k, np.zeros((2 ** n, 2 ** n))), keep, n)
        rb = _ptrace_keep(B.get(k, np.zeros((2 ** n, 2 ** n))), keep, n)
        if not np.allclose(ra, rb, atol=1e-9):
            return f"{payload['which']} changed the statistics of outcome {k}: {before} -> {after}"
    return None
