"""C12 — reset-removal optimisations never change measurement statistics."""
from __future__ import annotations

import itertools
import json
import numpy as np

from .. import canon, gen
from ..core import call_real

ID = "C12"
LEAN_MODULE = "CKT.Props.C12Gen"
THEOREMS = [
    # the reset optimisations of the model are the translated source (harness/translate/resets.py -> Generated/ResetScans.lean)
    "CKT.C12Gen.removeInitialGo_translated", "CKT.C12Gen.removeFinalGo_translated", "CKT.C12Gen.consolidateGo_translated", "CKT.C12Gen.passes_translated", "CKT.C12Gen.optimizeResets_translated",
    "CKT.C12.removeInitial_only", "CKT.C12.removeFinal_only", "CKT.C12.consolidate_only",
    "CKT.C12.passRemoveFinalReset_only", "CKT.C12.passConsolidateResets_only",
    "CKT.C12.removeInitial_wire", "CKT.C12.removeFinal_wire", "CKT.C12.consolidate_wire", "CKT.C12.WF_of_only",
    # semantic half, for every semantics obeying the four reset laws (C12Sem)
    "CKT.C12Sem.removeInitial_run", "CKT.C12Sem.consolidate_run", "CKT.C12Sem.removeFinal_obs", "CKT.C12Sem.optimizeResets_obs",
    "CKT.C12Sem.each_pass_obs", "CKT.C12Sem.classical",
    # the four reset laws proved for the Pauli-expectation semantics of dynamic circuits (any gate matrices): T12.3 without assumed laws
    "CKT.Sem.applyL_comm", "CKT.Sem.prim_comm", "CKT.C12PTM.reset_reset", "CKT.C12PTM.ap_reset_comm", "CKT.C12PTM.init_reset", "CKT.C12PTM.ptm",
    "CKT.C12PTM.optimizeResets_statistics", "CKT.C12PTM.each_pass_statistics", "CKT.Sem.resetM_is_channel_ptm",
    # the two transpiler passes: head-recursive form of the per-wire DAG model, semantic soundness for every semantics obeying the reset laws, and in the PTM semantics
    "CKT.C12Pass.pfr_eq", "CKT.C12Pass.pcr_eq", "CKT.C12Pass.passRemoveFinalReset_obs", "CKT.C12Pass.passConsolidateResets_run", "CKT.C12Pass.passes_statistics",
]
LEVEL_TEXT = ("only resets are removed, per-wire characterisation + T12.3 (statistics unchanged) proved for every semantics obeying the reset laws and, without assumed laws, for the Pauli-expectation semantics of dynamic circuits (any gate matrices), for the three list passes and for the two transpiler passes (per-wire DAG model); Qiskit's DAG conversion is external; control flow has no semantics in the model (oracle only)")
RULE = ("dynamic circuits over {reset,h,x,sx,cx (both directions),measure,barrier} on 1-4 qubits / 0-4 clbits with up to 16 instructions; "
        "thorough additionally enumerates every program of length <=5 on 2 qubits / 1 clbit (exhaustive); every circuit is pushed through the three "
        "list scans, their composition and the two transpiler passes; non-trivial = contains a reset; distinct by program; fixed families: resets after "
        "non-gate state-changing instructions (uncut Move, to_instruction() composites, Initialize) and -- independent simulator only, no model -- "
        "if / if-else / for / while blocks with resets in their bodies on qubits used again afterwards; the two transpiler passes on DAGs an earlier step has "
        "edited (Decompose directly / as the previous pass of a PassManager, substitute_node_with_dag, apply_operation_front), compared with the circuit the edited DAG describes")
ASSUMPTIONS = ["Qiskit's circuit<->DAG conversion may re-linearise instructions on disjoint wires: the transpiler passes are compared per wire",
               "reference semantics for the failing-input search: density-matrix branch simulator (harness/oracles/refsim.py)",
               "T12.3 (`optimizeResets_obs`, `each_pass_obs`) is proved for every semantics obeying the four laws of `C12Sem.ResetSem` (a reset commutes "
               "with instructions on other qubits, is idempotent, fixes the initial state, and is invisible to the classical-register statistics); that "
               "Qiskit's semantics obeys them is standard and not proved in Lean (simulated on every case); the two transpiler passes are validated "
               "by simulation only"]
PASSES = ["initial", "final", "consolidate", "optimize", "dag_final", "dag_consolidate"]


def _rand_prog(rng, n, m, length):
    prog = []
    for _ in range(length):
        r = rng.random()
        if r < 0.35:
            prog.append({"name": "reset", "qubits": [rng.randrange(n)]})
        elif r < 0.5:
            prog.append({"name": rng.choice(["h", "x", "sx"]), "qubits": [rng.randrange(n)]})
        elif r < 0.65 and n > 1:
            prog.append({"name": "cx", "qubits": rng.sample(range(n), 2)})
        elif r < 0.8 and m:
            prog.append({"name": "measure", "qubits": [rng.randrange(n)], "clbits": [rng.randrange(m)]})
        elif r < 0.9:
            prog.append({"name": "barrier", "qubits": rng.sample(range(n), rng.randint(1, n))})
        else:
            prog.append({"name": "h", "qubits": [rng.randrange(n)]})
    return prog


ALPHABET = ([{"name": "reset", "qubits": [q]} for q in (0, 1)] + [{"name": "h", "qubits": [q]} for q in (0, 1)]
            + [{"name": "x", "qubits": [q]} for q in (0, 1)] + [{"name": "cx", "qubits": [0, 1]}, {"name": "cx", "qubits": [1, 0]}]
            + [{"name": "measure", "qubits": [q], "clbits": [0]} for q in (0, 1)]
            + [{"name": "barrier", "qubits": [0]}, {"name": "barrier", "qubits": [1]}, {"name": "barrier", "qubits": [0, 1]}])


def _applied_cases(rng, tier):
    """the removals as the package applies them while generating subexperiments: circuits with explicit resets (leading, inner, trailing),
    no or one cut, observables supported on one qubit (qubit 0 in particular), identity groups"""
    from .. import workflow
    for _ in range(30 if tier == "quick" else 400):
        p = workflow.gen_problem(rng, max_q=3, max_cuts=rng.choice([0, 0, 1]), depth=4, idle_ok=False)
        nq = p["nq"]
        for _ in range(rng.randint(1, 3)):
            p["instrs"].insert(rng.randint(0, len(p["instrs"])), {"name": "reset", "qubits": [rng.randrange(nq)]})
        for q in rng.sample(range(nq), rng.randint(1, nq)):
            p["instrs"].append({"name": "reset", "qubits": [q]})
        sup = rng.choice([0, 0, rng.randrange(nq)])
        p["obs"] = [{"l": "".join(rng.choice("XYZ") if q == sup else "I" for q in range(nq)), "p": 0} for _ in range(rng.randint(1, 2))]
        if rng.random() < 0.3:
            p["obs"].append({"l": "I" * nq, "p": 0})
        p["form"] = rng.choice(["dict", "single"])
        p["N"] = None
        p["seed"] = 0
        yield ("applied", p)


def _g(name, *qs, **kw):
    return dict({"name": name, "qubits": list(qs)}, **kw)


def _m(q, c):
    return {"name": "measure", "qubits": [q], "clbits": [c]}


def _nongate_cases():
    """seed-independent: instructions that change the state of a qubit without being (unitary) gates -- the package's own Move left
    uncut (qubit re-use), composite instructions made with to_instruction(), Initialize -- followed by a reset of a qubit that nothing
    else has touched, whose state matters afterwards; the same shapes with the composite turned into a gate for contrast"""
    flip = lambda q, how="instruction": _g("wrap", q, inner=[_g("x", 0)], gname="flip", how=how)          # noqa: E731
    had = lambda q: _g("wrap", q, inner=[_g("h", 0)], gname="had", how="instruction")                     # noqa: E731
    bell = lambda a, b: _g("wrap", a, b, inner=[_g("h", 0), _g("cx", 0, 1)], gname="bell", how="instruction")  # noqa: E731
    rprep = lambda q: _g("wrap", q, inner=[_g("reset", 0), _g("x", 0)], gname="prep1", how="instruction")  # noqa: E731
    progs = [
        (2, 1, [_g("x", 0), _g("move", 0, 1), _g("reset", 1), _m(1, 0)]),
        (2, 1, [_g("x", 1), _g("move", 1, 0), _g("barrier", 0, 1), _g("reset", 0), _g("reset", 0), _m(0, 0)]),
        (3, 1, [_g("h", 0), _g("move", 0, 2), _g("reset", 2), _g("cx", 2, 1), _m(1, 0)]),
        (2, 1, [flip(0), _g("reset", 0), _m(0, 0)]),
        (2, 1, [flip(0, "gate"), _g("reset", 0), _m(0, 0)]),
        (2, 2, [flip(1), _g("reset", 1), _g("cx", 1, 0), _m(0, 0), _m(1, 1)]),
        (2, 1, [had(0), _g("reset", 0), _g("h", 0), _m(0, 0)]),
        (2, 2, [bell(0, 1), _g("reset", 1), _m(0, 0), _m(1, 1)]),
        (2, 2, [bell(1, 0), _g("reset", 0), _g("reset", 1), _g("cx", 0, 1), _m(1, 1), _g("reset", 0)]),
        (1, 1, [_g("initialize", 0, state="1"), _g("reset", 0), _m(0, 0)]),
        (2, 1, [_g("initialize", 1, state="+"), _g("barrier", 1), _g("reset", 1), _g("h", 1), _m(1, 0)]),
        (2, 1, [rprep(0), _g("reset", 0), _g("cx", 0, 1), _m(1, 0), _g("reset", 1)]),
        (2, 1, [_m(0, 0), _g("reset", 0), flip(0), _g("reset", 0), _m(0, 0)]),
    ]
    for nq, ncl, prog in progs:
        for w in PASSES:
            yield ("pass", {"nq": nq, "ncl": ncl, "prog": prog, "which": w, "always_oracle": True})


def _gate_name_cases():
    """seed-independent: a reset right after ONE gate of every one-qubit name of the standard library (short names such as `r`, `p`, `u`, `t`, `s`, `x`
    included) and of some two-qubit names, on a qubit that nothing else has touched, with the other qubit idle or used later, measured afterwards"""
    one = [("x", []), ("y", []), ("h", []), ("sx", []), ("sxdg", []), ("rx", [2.1]), ("ry", [2.1]), ("r", [3.141592653589793, 0.0]), ("r", [1.3, 0.4]),
           ("u", [2.0, 0.3, 0.1]), ("u2", [0.3, 0.1]), ("u3", [2.0, 0.3, 0.1]), ("p", [0.7]), ("u1", [0.7]), ("t", []), ("s", []), ("z", []), ("id", [])]
    for name, params in one:
        g = _g(name, 0, params=params) if params else _g(name, 0)
        yield ("pass", {"nq": 2, "ncl": 1, "prog": [g, _g("reset", 0), _m(0, 0)], "which": "initial", "always_oracle": True})
        yield ("pass", {"nq": 2, "ncl": 2, "prog": [g, _g("reset", 0), _g("h", 1), _m(0, 0), _m(1, 1)], "which": "initial", "always_oracle": True})
    for name, params in (("cx", []), ("swap", []), ("iswap", []), ("rxx", [1.1]), ("cp", [0.9]), ("ecr", [])):
        g = _g(name, 1, 0, params=params) if params else _g(name, 1, 0)
        yield ("pass", {"nq": 3, "ncl": 2, "prog": [_g("x", 1), g, _g("reset", 0), _g("reset", 1), _m(0, 0), _m(1, 1)], "which": "initial", "always_oracle": True})


def _cf_cases():
    """seed-independent: control-flow operations (if / if-else / for / while) whose bodies contain resets -- at the end of the body, in
    the middle, doubled -- on qubits that are used again after the block or by the next iteration.  The model has no control flow:
    these cases are decided by the independent simulator only (kind "cf")."""
    if_ = lambda c, v, body, orelse=None: {"name": "if", "qubits": [], "cond": [c, v], "body": body, "orelse": orelse}   # noqa: E731
    for_ = lambda n, body: {"name": "for", "qubits": [], "times": n, "body": body}                                       # noqa: E731
    while_ = lambda c, v, body: {"name": "while", "qubits": [], "cond": [c, v], "body": body}                            # noqa: E731
    progs = [
        [_g("x", 0), _m(0, 0), if_(0, 1, [_g("reset", 0)]), _m(0, 1)],
        [_g("h", 0), _m(0, 0), if_(0, 1, [_g("h", 1), _g("reset", 0)]), _g("cx", 0, 1), _m(1, 1)],
        [_g("x", 1), if_(0, 0, [_g("reset", 1), _g("reset", 1)]), _m(1, 1)],
        [_g("h", 0), _m(0, 0), if_(0, 1, [_g("x", 1), _g("reset", 0)], [_g("x", 0), _g("reset", 1)]), _m(0, 1), _g("reset", 1)],
        [for_(2, [_g("x", 0), _m(0, 1), _g("reset", 0)])],
        [_g("h", 1), for_(2, [_g("cx", 1, 0), _g("reset", 1), _g("h", 1)]), _m(0, 0), _m(1, 1), _g("reset", 0)],
        [_g("x", 0), _m(0, 0), while_(0, 1, [_g("reset", 0), _m(0, 0), _g("x", 1), _g("reset", 1)]), _g("cx", 1, 0), _m(0, 1)],
        [_g("reset", 0), _g("x", 0), _m(0, 0), if_(0, 1, [_g("reset", 0), _g("h", 0)]), _g("reset", 0), _g("reset", 0), _m(0, 1), _g("reset", 0)],
        [_g("x", 0), _g("x", 1), _m(1, 0), if_(0, 1, [_g("barrier", 0, 1), _g("reset", 0), _g("reset", 1)]), _g("barrier", 0, 1), _m(0, 1)],
        [_g("h", 0), _m(0, 0), if_(0, 0, [_g("x", 0), for_(2, [_g("x", 1), _g("reset", 1)]), _g("reset", 0)]), _g("cx", 1, 0), _m(0, 1)],
    ]
    for prog in progs:
        for w in PASSES:
            yield ("cf", {"nq": 2, "ncl": 2, "prog": prog, "which": w, "always_oracle": True})


def _edited_dag_cases():
    """seed-independent: the two transpiler passes run on a DAG that an earlier step has already edited, the way a pass pipeline
    uses them -- a composite instruction expanded by Qiskit's Decompose pass (directly on the DAG, or as the previous pass of one
    PassManager), the same expansion done by hand with substitute_node_with_dag, operations placed with apply_operation_front.  Such a
    DAG is a perfectly legal description of a circuit over reset / gates / measure / barrier, but its node indices are no longer in
    topological order.  The circuit the pass *sees* (dag_to_circuit of the edited DAG, taken before the pass runs) is what goes to the
    model and the oracle."""
    w = lambda gname, inner, *qs: _g("wrap", *qs, inner=inner, gname=gname, how="instruction")      # noqa: E731
    prep = lambda q: w("prep", [_g("reset", 0), _g("reset", 0), _g("h", 0)], q)                      # noqa: E731
    prep1 = lambda q: w("prep1", [_g("reset", 0), _g("x", 0)], q)                                    # noqa: E731
    tail = lambda q: w("tail", [_g("x", 0), _g("reset", 0), _g("reset", 0)], q)                      # noqa: E731
    pair = lambda a, b: w("pair", [_g("h", 0), _g("cx", 0, 1), _g("reset", 0), _g("reset", 0)], a, b)  # noqa: E731
    flip = lambda q: w("flip", [_g("x", 0)], q)                                                      # noqa: E731
    names = ["prep", "prep1", "tail", "pair", "flip"]
    wrapped = [
        (2, 2, [_g("x", 0), prep(0), _g("cx", 0, 1), _m(0, 0), _m(1, 1)]),
        (2, 2, [_g("h", 0), _g("cx", 0, 1), _g("reset", 1), prep1(1), _g("cx", 1, 0), _m(0, 0), _m(1, 1)]),
        (3, 2, [_g("h", 0), pair(1, 2), _g("cx", 0, 1), _g("reset", 2), _g("reset", 2), _m(1, 0), _m(2, 1), _g("reset", 0)]),
        (2, 1, [_g("x", 0), flip(0), _g("cx", 0, 1), _m(1, 0)]),
        (2, 1, [_g("h", 0), _g("cx", 0, 1), _m(0, 0), tail(0), _g("reset", 1)]),
        (2, 2, [_g("x", 1), _m(1, 0), prep(1), _g("barrier", 0, 1), prep1(0), _g("reset", 0), _m(0, 1), _m(1, 0), tail(1)]),
    ]
    fronted = [
        (1, 1, [_g("reset", 0), _g("reset", 0), _m(0, 0)], [_g("x", 0)]),
        (2, 2, [_g("reset", 0), _g("reset", 0), _g("cx", 0, 1), _m(0, 0), _g("reset", 1), _g("reset", 1), _m(1, 1), _g("reset", 1)], [_g("h", 0), _g("x", 1)]),
        (2, 2, [_g("h", 1), _m(1, 1), _g("reset", 1), _g("cx", 1, 0), _m(0, 0), _g("reset", 0)], [_g("x", 0), _g("cx", 0, 1)]),
        (2, 1, [_g("h", 0), _m(0, 0)], [_g("reset", 0), _g("x", 0), _g("reset", 0)]),
    ]
    for which in ("dag_consolidate", "dag_final"):
        for nq, ncl, prog in wrapped:
            for how in ("decompose", "pm", "subst"):
                yield ("pass", {"nq": nq, "ncl": ncl, "prog": prog, "which": which, "pre": {"how": how, "names": names}, "always_oracle": True})
        for nq, ncl, prog, ops in fronted:
            yield ("pass", {"nq": nq, "ncl": ncl, "prog": prog, "which": which, "pre": {"how": "front", "ops": ops}, "always_oracle": True})


def regenerate():
    """the three reset optimisations, translated from cutting_experiments.py on every run"""
    from ..translate import resets
    from ..core import REPO, LEAN
    resets.regenerate(REPO, LEAN)


def cases(rng, tier):
    yield from _nongate_cases()
    yield from _gate_name_cases()
    yield from _cf_cases()
    yield from _edited_dag_cases()
    yield from _applied_cases(rng, tier)
    N = 120 if tier == "quick" else 1500
    for _ in range(N):
        n = rng.randint(1, 4)
        m = rng.randint(0, 4)
        prog = _rand_prog(rng, n, m, rng.randint(1, 16))
        qregs = gen.rand_regs(rng, n) if (n > 1 and rng.random() < 0.4) else None   # several quantum registers
        for w in PASSES:
            yield ("pass", {"nq": n, "ncl": m, "prog": prog, "which": w, "qregs": qregs})
    if tier == "thorough":
        # bounded-exhaustive family named in the property's quantifier (validation of the model against the code)
        for L in range(1, 6):
            for tup in itertools.product(range(len(ALPHABET)), repeat=L):
                prog = [ALPHABET[k] for k in tup]
                if not any(p["name"] == "reset" for p in prog):
                    continue
                if L == 5 and rng.random() > 0.02:
                    continue  # length 5: 537k programs -> 2% sample per run, lengths 1-4 complete
                for w in PASSES:
                    yield ("pass", {"nq": 2, "ncl": 1, "prog": prog, "which": w})


_EXT = ("wrap", "initialize", "if", "for", "while")


def _has_ext(prog):
    return any(i["name"] in _EXT for i in prog)


def _emit(qc, prog):
    from qiskit.circuit import QuantumCircuit, CircuitInstruction
    for ins in prog:
        name = ins["name"]
        if name == "if":
            c, v = ins["cond"]
            if ins.get("orelse"):
                with qc.if_test((qc.clbits[c], v)) as else_:
                    _emit(qc, ins["body"])
                with else_:
                    _emit(qc, ins["orelse"])
            else:
                with qc.if_test((qc.clbits[c], v)):
                    _emit(qc, ins["body"])
            continue
        if name == "for":
            with qc.for_loop(range(ins["times"])):
                _emit(qc, ins["body"])
            continue
        if name == "while":
            c, v = ins["cond"]
            with qc.while_loop((qc.clbits[c], v)):
                _emit(qc, ins["body"])
            continue
        qs = [qc.qubits[q] for q in ins["qubits"]]
        cs = [qc.clbits[c] for c in ins.get("clbits", [])]
        if name == "wrap":
            sub = QuantumCircuit(len(qs), name=ins.get("gname", "blk"))
            _emit(sub, ins["inner"])
            op = sub.to_gate() if ins.get("how") == "gate" else sub.to_instruction()
        elif name == "initialize":
            from qiskit.circuit.library import Initialize
            op = Initialize(ins["state"])
        elif name == "barrier":
            op = canon.mk_op("barrier", [len(qs)])
        else:
            op = canon.mk_op(name, ins.get("params", ()))
        qc.append(CircuitInstruction(op, qs, cs))


def _circ(payload):
    """the circuit the optimisation is applied to (for "pre" payloads: the circuit described by the edited DAG the pass receives)"""
    if payload.get("pre"):
        return _pre_run(payload, run=False)
    return _raw(payload)


def _pass_cls(which):
    from qiskit_addon_cutting.utils.transpiler_passes import RemoveFinalReset, ConsolidateResets
    return {"dag_final": RemoveFinalReset, "dag_consolidate": ConsolidateResets}[which]


def _pre_run(payload, run):
    """payload["pre"]: edit the DAG of the written circuit first (how = decompose / pm / subst / front); run=False returns the circuit the
    edited DAG describes, run=True hands that very DAG object (not a rebuilt one) to the transpiler pass and returns the result"""
    from qiskit.converters import circuit_to_dag, dag_to_circuit
    from qiskit.transpiler import PassManager
    from qiskit.transpiler.passes import Decompose
    pre = payload["pre"]
    raw = _raw(payload)
    cls = _pass_cls(payload["which"])
    if pre["how"] == "pm":
        return PassManager([Decompose(list(pre["names"]))] + ([cls()] if run else [])).run(raw)
    dag = circuit_to_dag(raw)
    if pre["how"] == "decompose":
        dag = Decompose(list(pre["names"])).run(dag)
    elif pre["how"] == "subst":
        for node in list(dag.op_nodes()):
            if node.op.name in pre["names"]:
                dag.substitute_node_with_dag(node, circuit_to_dag(node.op.definition))
    elif pre["how"] == "front":
        for ins in pre["ops"]:
            dag.apply_operation_front(canon.mk_op(ins["name"], ins.get("params", ())), tuple(dag.qubits[q] for q in ins["qubits"]),
                                      tuple(dag.clbits[c] for c in ins.get("clbits", [])))
    else:
        raise ValueError(pre["how"])
    if not run:
        return dag_to_circuit(dag)
    return dag_to_circuit(cls().run(dag))


def _run(payload, qc):
    return _pre_run(payload, run=True) if payload.get("pre") else _apply(qc, payload["which"])


def _raw(payload):
    if _has_ext(payload["prog"]):
        from qiskit.circuit import QuantumCircuit, QuantumRegister, ClassicalRegister
        regs = ([QuantumRegister(sz, f"q{i}") for i, sz in enumerate(payload["qregs"])] if payload.get("qregs")
                else [QuantumRegister(payload["nq"], "q")])
        if payload["ncl"]:
            regs.append(ClassicalRegister(payload["ncl"], "c"))
        qc = QuantumCircuit(*regs)
        _emit(qc, payload["prog"])
        return qc
    return canon.build_circuit({"nq": payload["nq"], "qregs": payload.get("qregs"), "cregs": [["c", payload["ncl"]]] if payload["ncl"] else [],
                                "instrs": payload["prog"]})


def _apply(qc, which):
    from qiskit.transpiler import PassManager
    from qiskit_addon_cutting.cutting_experiments import _consolidate_resets, _remove_resets_in_zero_state, _remove_final_resets
    from qiskit_addon_cutting.utils.transpiler_passes import RemoveFinalReset, ConsolidateResets
    if which == "initial":
        return _remove_resets_in_zero_state(qc)
    if which == "final":
        return _remove_final_resets(qc)
    if which == "consolidate":
        return _consolidate_resets(qc)
    if which == "optimize":
        _remove_resets_in_zero_state(qc)
        _remove_final_resets(qc)
        return _consolidate_resets(qc)
    if which == "dag_final":
        return PassManager([RemoveFinalReset()]).run(qc)
    return PassManager([ConsolidateResets()]).run(qc)


def _sig(instrs):
    return [[i["name"], i["qubits"], i.get("clbits", [])] for i in instrs]


def _wires(sig, nq, ncl):
    w = {}
    for s in sig:
        for q in s[1]:
            w.setdefault(f"q{q}", []).append(s)
        for c in s[2]:
            w.setdefault(f"c{c}", []).append(s)
    return w


def _view(instrs, payload):
    sig = _sig(instrs)
    if payload["which"].startswith("dag_"):
        return {"wires": _wires(sig, payload["nq"], payload["ncl"]), "count": len(sig)}
    return {"list": sig}


def model_line(kind, payload):
    if kind == "applied":
        from . import c05
        return c05.model_line("generate", payload)
    if kind == "cf":
        # control flow is outside the model: a trivial line keeps the driver protocol in step, nothing is compared (oracle only)
        return {"op": "c12.pass", "which": payload["which"], "circuit": {"nq": 1, "cregs": [], "instrs": []}}
    return {"op": "c12.pass", "which": payload["which"], "circuit": canon.canon_circuit(_circ(payload))}


def run_real(kind, payload):
    if kind == "applied":
        from . import c05
        return c05.run_real("generate", payload)
    qc = _circ(payload)
    out = _run(payload, qc)
    if kind == "cf":
        return {"ok": {"desc": json.loads(json.dumps(_desc(out)))}}
    return {"ok": _view(canon.canon_circuit(out)["instrs"], payload)}


def model_canon(kind, payload, out):
    if kind == "applied":
        from . import c05
        return c05.model_canon("generate", payload, out)
    if kind == "cf":
        return None
    if "driver_error" in out:
        raise RuntimeError(out["driver_error"])
    return {"ok": _view(out["ok"]["instrs"], payload)}


def compare(kind, payload, real, model):
    if kind == "applied":
        from . import c05
        return c05.compare("generate", payload, real, model)
    if kind == "cf":
        return None
    if real != model:
        return f"real={json.dumps(real)[:300]} model={json.dumps(model)[:300]}"
    return None


def describe(kind, payload):
    if kind == "applied":
        return {"kind2": "applied", "form": payload["form"]}
    if kind == "cf":
        return {"kind2": "control-flow", "which": payload["which"]}
    return {"which": payload["which"], "nq": payload["nq"], "len": len(payload["prog"]), "dag_edited_first": (payload.get("pre") or {}).get("how", "no"),
            "resets": sum(1 for p in payload["prog"] if p["name"] == "reset")}


def nontrivial_key(kind, payload):
    if kind == "applied":
        return hash(json.dumps(payload, sort_keys=True, default=str))
    if kind == "cf":
        return hash(json.dumps(payload, sort_keys=True))
    if not any(p["name"] == "reset" for p in payload["prog"]):
        return None
    return hash(json.dumps(payload, sort_keys=True))


def _ptrace_keep(rho, keep, n):
    t = rho.reshape([2] * (2 * n))
    drop = [q for q in range(n) if q not in keep]
    for q in sorted(drop, reverse=True):
        nn = t.ndim // 2
        ax = nn - 1 - q
        t = np.trace(t, axis1=ax, axis2=nn + ax)
    d = 2 ** len(keep)
    return t.reshape(d, d)


CONTROL_FLOW = ("if_else", "for_loop", "while_loop")


def _cond_holds(cond, key, cmap):
    target, value = cond
    bits = list(target) if hasattr(target, "__len__") else [target]
    got = sum(((key >> cmap[b]) & 1) << i for i, b in enumerate(bits))
    return got == int(value)


def _sim_run(circ, br, qmap, cmap, n):
    """reference semantics (density matrix per classical outcome; harness/oracles/refsim.py primitives) extended with Move
    (reset of the destination, then swap), composite non-unitary instructions (their definition) and if / for / while blocks"""
    from qiskit.quantum_info import Operator
    from ..oracles.refsim import apply_op, kraus, P0, P1, X

    def merge(dst, src):
        for k, r in src.items():
            dst[k] = dst[k] + r if k in dst else r

    def sub(body, inst):
        return ({b: qmap[inst.qubits[i]] for i, b in enumerate(body.qubits)}, {b: cmap[inst.clbits[i]] for i, b in enumerate(body.clbits)})

    for inst in circ.data:
        op = inst.operation
        nm = op.name
        qs = [qmap[q] for q in inst.qubits]
        if nm in ("barrier", "delay"):
            continue
        if nm == "measure":
            c = cmap[inst.clbits[0]]
            new = {}
            for k, r in br.items():
                for b, P in ((0, P0), (1, P1)):
                    kk = (k & ~(1 << c)) | (b << c)
                    rb = kraus(r, P, qs[0], n)
                    new[kk] = new[kk] + rb if kk in new else rb
            br = new
        elif nm == "reset":
            br = {k: kraus(r, P0, qs[0], n) + kraus(r, X @ P1, qs[0], n) for k, r in br.items()}
        elif nm == "move":
            swap = np.array([[1, 0, 0, 0], [0, 0, 1, 0], [0, 1, 0, 0], [0, 0, 0, 1]], dtype=complex)
            br = {k: kraus(r, P0, qs[1], n) + kraus(r, X @ P1, qs[1], n) for k, r in br.items()}
            br = {k: apply_op(r, swap, qs, n) for k, r in br.items()}
        elif nm == "if_else":
            new = {}
            for which, body in ((True, op.blocks[0]), (False, op.blocks[1] if len(op.blocks) > 1 else None)):
                part = {k: r for k, r in br.items() if _cond_holds(op.condition, k, cmap) == which}
                if part and body is not None:
                    part = _sim_run(body, part, *sub(body, inst), n)
                merge(new, part)
            br = new
        elif nm == "for_loop":
            indexset, _par, body = op.params
            for _ in indexset:
                br = _sim_run(body, br, *sub(body, inst), n)
        elif nm == "while_loop":
            body = op.blocks[0]
            done = {}
            for _ in range(12):
                merge(done, {k: r for k, r in br.items() if not _cond_holds(op.condition, k, cmap)})
                br = {k: r for k, r in br.items() if _cond_holds(op.condition, k, cmap) and abs(np.trace(r)) > 1e-14}
                if not br:
                    break
                br = _sim_run(body, br, *sub(body, inst), n)
            else:
                raise RuntimeError("while loop of the test program does not terminate")
            br = done
        else:
            try:
                U = Operator(op).data
            except Exception:
                U = None
            if U is not None:
                br = {k: apply_op(r, U, qs, n) for k, r in br.items()}
            else:
                body = op.definition
                if body is None:
                    raise RuntimeError(f"cannot simulate {nm}")
                br = _sim_run(body, br, *sub(body, inst), n)
    return br


def _simulate(qc):
    n = qc.num_qubits
    rho = np.zeros((2 ** n, 2 ** n), dtype=complex)
    rho[0, 0] = 1
    return _sim_run(qc, {0: rho}, {q: i for i, q in enumerate(qc.qubits)}, {c: i for i, c in enumerate(qc.clbits)}, n)


def _desc(circ, qmap=None, cmap=None):
    """[(name, qubits, clbits, blocks)] with circuit-wide bit indices, blocks described recursively"""
    qmap = qmap or {q: i for i, q in enumerate(circ.qubits)}
    cmap = cmap or {c: i for i, c in enumerate(circ.clbits)}
    out = []
    for inst in circ.data:
        op = inst.operation
        blocks = ()
        if op.name in CONTROL_FLOW or getattr(op, "blocks", None):
            blocks = tuple(tuple(_desc(b, {x: qmap[inst.qubits[i]] for i, x in enumerate(b.qubits)},
                                       {x: cmap[inst.clbits[i]] for i, x in enumerate(b.clbits)})) for b in op.blocks)
        out.append((op.name, tuple(qmap[q] for q in inst.qubits), tuple(cmap[c] for c in inst.clbits), blocks))
    return out


def _same_but_resets(before, after, perwire):
    """`after` is `before` minus reset instructions (also inside blocks); order kept in the list, or on every wire"""
    def match(b, a):
        if b[0] != a[0] or len(b[3]) != len(a[3]):
            return False
        if not b[3]:
            return b[1] == a[1] and b[2] == a[2]
        # a block operation: bits are circuit-wide indices, the order in which the operation lists them is immaterial
        return (set(b[1]) == set(a[1]) and set(b[2]) == set(a[2])
                and all(_same_but_resets(list(x), list(y), perwire) for x, y in zip(b[3], a[3])))

    def subseq(sb, sa):
        j = 0
        for b in sb:
            if j < len(sa) and match(b, sa[j]):
                j += 1
            elif b[0] != "reset":
                return False
        return j == len(sa)

    def wires(seq):
        w = {}
        for s in seq:
            for q in s[1]:
                w.setdefault(("q", q), []).append(s)
            for c in s[2]:
                w.setdefault(("c", c), []).append(s)
        return w
    if not perwire:
        return subseq(before, after)
    wb, wa = wires(before), wires(after)
    return all(subseq(wb.get(w, []), wa.get(w, [])) for w in set(wb) | set(wa))


def _oracle_cf(payload):
    """the property on circuits with control-flow blocks: only resets disappear (top level or inside a block), the order of everything
    else is kept, and the joint distribution of the classical bits with the conditional state of the qubits is unchanged.  Left out of
    the comparison, as the property allows: qubits whose trailing reset(s) were dropped -- at top level, or inside a block that is the
    last instruction on that qubit's wire."""
    qc = _circ(payload)
    before = _desc(qc)
    try:
        out = _apply(qc.copy(), payload["which"])
    except Exception as ex:
        return f"{payload['which']} raised {type(ex).__name__}: {ex}"
    after = _desc(out)
    if not _same_but_resets(before, after, payload["which"].startswith("dag_")):
        return f"{payload['which']} changed something other than resets (or the order): {before} -> {after}"
    n = payload["nq"]

    def trailing(seq, q):
        c = 0
        for s in reversed([s for s in seq if q in s[1]]):
            if s[0] != "reset":
                break
            c += 1
        return c

    def last(seq, q):
        on = [s for s in seq if q in s[1]]
        return on[-1] if on else None
    dropped = set()
    for q in range(n):
        if trailing(after, q) < trailing(before, q):
            dropped.add(q)
        lb, la = last(before, q), last(after, q)
        if lb is not None and lb[3] and la is not None and lb != la:
            dropped.add(q)   # a reset went missing inside the block that ends this wire
    keep = [q for q in range(n) if q not in dropped]
    A, B = _simulate(qc), _simulate(out)
    for k in set(A) | set(B):
        ra = _ptrace_keep(A.get(k, np.zeros((2 ** n, 2 ** n))), keep, n)
        rb = _ptrace_keep(B.get(k, np.zeros((2 ** n, 2 ** n))), keep, n)
        if not np.allclose(ra, rb, atol=1e-9):
            return (f"{payload['which']} changed the statistics of outcome {k} (qubits left out because their trailing reset was dropped: "
                    f"{sorted(dropped)}): {before} -> {after}")
    return None


def oracle(kind, payload):
    if kind == "cf":
        return _oracle_cf(payload)
    if kind == "applied":
        # measurement statistics are unchanged: the generated experiments, evaluated exactly, give the expectation values of the circuit
        from . import c01
        why = c01.oracle("roundtrip", payload)
        return None if why is None else "reset removal inside experiment generation changed the statistics: " + why
    """Property itself on the real code: only resets removed, order kept (per wire for DAG passes), and the joint
    classical distribution + conditional state of all qubits other than those whose trailing reset was dropped is unchanged."""
    simulate = _simulate   # = harness/oracles/refsim.simulate on gates / measure / reset / barrier; also Move and composite instructions
    qc = _circ(payload)
    before = [tuple(map(lambda x: tuple(x) if isinstance(x, list) else x, s)) for s in _sig(canon.canon_circuit(qc)["instrs"])]
    try:
        out = _run(payload, qc.copy())
    except Exception as ex:
        return f"{payload['which']} raised {type(ex).__name__}: {ex}"
    after = [tuple(map(lambda x: tuple(x) if isinstance(x, list) else x, s)) for s in _sig(canon.canon_circuit(out)["instrs"])]
    from collections import Counter
    diff = Counter(before) - Counter(after)
    if (Counter(after) - Counter(before)) or any(k[0] != "reset" for k in diff):
        return f"{payload['which']} changed something other than resets: {before} -> {after}"
    if payload["which"].startswith("dag_"):
        wb, wa = _wires([list(s) for s in before], 0, 0), _wires([list(s) for s in after], 0, 0)
        for w_, seq in wb.items():
            sa = wa.get(w_, [])
            j = 0
            for b in seq:
                if j < len(sa) and sa[j] == b:
                    j += 1
                elif b[0] != "reset":
                    return f"{payload['which']} reordered wire {w_}: {before} -> {after}"
            if j != len(sa):
                return f"{payload['which']} reordered wire {w_}: {before} -> {after}"
    else:
        j = 0
        for b in before:
            if j < len(after) and after[j] == b:
                j += 1
            elif b[0] != "reset":
                return f"{payload['which']} changed the order: {before} -> {after}"
        if j != len(after):
            return f"{payload['which']} changed the order: {before} -> {after}"
    n = payload["nq"]
    # qubits whose *trailing* reset was dropped
    dropped = set()
    rem = list(diff.elements())
    for r in rem:
        q = r[1][0]
        last = [s for s in before if q in s[1]][-1]
        lasta = [s for s in after if q in s[1]]
        if last[0] == "reset" and (not lasta or lasta[-1][0] != "reset" or Counter(before)[last] != Counter(after)[last]):
            # the wire ended with a reset before and lost a reset at its end
            nb = len([1 for s in reversed([s for s in before if q in s[1]]) if s[0] == "reset"])
            dropped.add(q)
    # only count as trailing when the wire's trailing run of resets shrank
    def trailing(seq, q):
        c = 0
        for s in reversed([s for s in seq if q in s[1]]):
            if s[0] == "reset":
                c += 1
            else:
                break
        return c
    dropped = {q for q in range(n) if trailing(after, q) == 0 and trailing(before, q) > 0}
    keep = [q for q in range(n) if q not in dropped]
    A, B = simulate(qc), simulate(out)
    for k in set(A) | set(B):
        ra = _ptrace_keep(A.get(k, np.zeros((2 ** n, 2 ** n))), keep, n)
        rb = _ptrace_keep(B.get(k, np.zeros((2 ** n, 2 ** n))), keep, n)
        if not np.allclose(ra, rb, atol=1e-9):
            return f"{payload['which']} changed the statistics of outcome {k}: {before} -> {after}"
    return None
