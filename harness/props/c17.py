"""C17 — restricting and expanding observables is faithful to qubit identity."""
from __future__ import annotations

import json
from .. import gen

ID = "C17"
LEAN_MODULE = "CKT.Props.C17"
THEOREMS = [
    "CKT.C17.restrict_letters",
    "CKT.C17.restrict_letter_at",
    "CKT.C17.mem_indicesOf",
    "CKT.C17.indicesOf_nodup",
    "CKT.C17.label_mem_uniqueLabels",
    "CKT.C17.restrictions_recombine",
    "CKT.C17.decomposeObservables_spec",
    "CKT.C17.scatterLetters_length",
    "CKT.C17.scatterLetters_at_mapping",
    "CKT.C17.scatterLetters_elsewhere",
    "CKT.C17.findBit_some",
    "CKT.C17.expandMapping_spec",
    "CKT.C17.expandObservables_ok",
    "CKT.C17.expandObservables_refuses_count",
    "CKT.C17.expandObservables_refuses_missing",
]
RULE = ("Pauli lists on 0-8 qubits with all four phases; arbitrary index subsets/orders (restrict), arbitrary hashable labels "
        "(decompose), final circuits interleaving fresh qubits among the originals across registers (expand), plus count-mismatch and "
        "missing-qubit requests; expand call sequences (expand, edit the returned or the input list in place, expand again); deterministic families (oracle on every case): phased observables over "
        "one-label / two-label / one-label-per-qubit partitions (every restriction has phase 0), partitions in which one label is spelled with several "
        "Python types on different qubits (0/False/0.0/np.int64(0), 'a'/np.str_('a'), ...: equal labels are one partition, every qubit lands in exactly one restriction), loops expanding one original circuit onto many short-lived "
        "same-size final circuits (each call judged against the final circuit of that call, missing-qubit steps refused); non-trivial = some non-identity letter; distinct by payload")
ASSUMPTIONS = ["Qiskit PauliList label order (little endian) and group-phase convention are undone by the adapter",
               "qubit identity (Python object identity of Qubit) is modelled by integer tokens"]
PH = ["", "-i", "-", "i"]
LABELS = ["A", "part7", 1007, (1, 2), "xyz", -3, 2.5, frozenset([1]),
          # appended (indices of the earlier entries unchanged): labels that are falsy or `None` — all legal hashable labels
          None, "", True, 0.0, ()]
_OLD_LABELS = 8   # random cases keep sampling from the first eight entries (their generator stream is unchanged)


def _plist(obs, n):
    from qiskit.quantum_info import PauliList
    if not obs:
        return PauliList.from_symplectic([[False] * n][:0], [[False] * n][:0]) if n else PauliList([])
    return PauliList([PH[o["p"]] + o["l"][::-1] for o in obs])


def _canon_paulis(pl):
    out = []
    for p in pl:
        lab = p.to_label()
        n = p.num_qubits
        letters = lab[len(lab) - n:][::-1] if n else ""
        out.append({"l": letters, "p": int(p.phase)})
    return out


def _rand_obs(rng, n, k, phases=True):
    return [{"l": "".join(rng.choice("IXYZ") for _ in range(n)), "p": rng.randrange(4) if phases else 0} for _ in range(k)]


def _edit_for(target, how, width, k):
    e = {"target": target, "how": how}
    if how == "setitem":
        e["idx"] = k
        e["pauli"] = {"l": "".join("YZX"[(i + k) % 3] for i in range(width)), "p": 2}
    return e


def _seq_cases():
    """Deterministic family (seed independent): call SEQUENCES around expand_observables with observables that carry every phase --
    expand onto a first final circuit, then edit ONE of the two lists in place (reset the phases as partition_problem requires, shift
    them, or overwrite an entry), then expand the input onto a second final circuit.  The list that was not edited must still read what
    it read before, and every expansion must carry the letters and the phase its input had when it was expanded."""
    import random
    r = random.Random(1717)
    out = []
    combos = [(t, h) for t in ("result", "input") for h in ("phase0", "phase_plus1", "setitem")]
    for j in range(14):
        n = 1 + j % 4
        fresh_a, fresh_b = j % 3, (j + 1) % 4
        k = 1 + j % 3
        # all four phases occur in every list of two or more entries; the first entry always has a non-trivial phase
        obs = [{"l": "".join(r.choice("IXYZ") for _ in range(n)), "p": (1 + j + i) % 4 if i else 1 + j % 3} for i in range(k)]
        la = [["o", i] for i in range(n)] + [["f", i] for i in range(fresh_a)]
        lb = [["o", i] for i in range(n)] + [["f", i] for i in range(fresh_b)]
        r.shuffle(la); r.shuffle(lb)
        regs = [n] if j % 2 else ([1, n - 1] if n > 1 else [1])
        target, how = combos[j % len(combos)]
        width = len(la) if target == "result" else n
        out.append(("expand_seq", {"n": n, "obs": obs, "layout": la, "layout_b": lb, "regs": regs, "final_regs": bool(j % 3),
                                   "clbits": 0, "creg": 0, "edit": _edit_for(target, how, width, j % k), "always_oracle": True}))
    return out


def _rand_seq_cases(rng, tier):
    for _ in range(30 if tier == "quick" else 600):
        n = rng.randint(1, 6)
        la = [["o", i] for i in range(n)] + [["f", i] for i in range(rng.randint(0, 3))]
        lb = [["o", i] for i in range(n)] + [["f", i] for i in range(rng.randint(0, 3))]
        rng.shuffle(la); rng.shuffle(lb)
        obs = _rand_obs(rng, n, rng.randint(1, 4))
        regs, left = [], n
        while left > 0:
            c = rng.randint(1, left)
            regs.append(c)
            left -= c
        target = rng.choice(["result", "input"])
        yield ("expand_seq", {"n": n, "obs": obs, "layout": la, "layout_b": lb, "regs": regs, "final_regs": rng.random() < 0.5,
                              "clbits": rng.choice([0, 0, 1]), "creg": rng.choice([0, 0, 2]),
                              "edit": _edit_for(target, rng.choice(["phase0", "phase_plus1", "setitem"]),
                                                len(la) if target == "result" else n, rng.randrange(len(obs)))})


def _odd_label_cases():
    """partitions labelled with `None` and with falsy labels (empty string, 0.0, empty tuple, True): every label is a partition of its own"""
    import random
    r = random.Random(1712)
    odd = [LABELS.index(x) for x in (None, "", True, 0.0, ())] if False else [8, 9, 10, 11, 12]
    for t in range(14):
        n = r.randint(2, 7)
        obs = _rand_obs(r, n, r.randint(1, 3))
        k = r.randint(1, 3)
        pool_idx = r.sample(odd, min(k, len(odd))) + r.sample(range(_OLD_LABELS), r.randint(0, 2))
        if t < 6 and 8 not in pool_idx:
            pool_idx[0] = 8   # `None` present
        labels = [r.randrange(len(pool_idx)) for _ in range(n)]
        for j in range(len(pool_idx)):   # every label used at least once where possible
            if j < n:
                labels[j] = j
        r.shuffle(labels)
        yield ("decompose", {"n": n, "obs": obs, "labels": labels, "pool": [repr(LABELS[i]) for i in pool_idx], "pool_idx": pool_idx,
                             "always_oracle": True})


# labels that are EQUAL (==, same hash: one and the same label for a dict, hence one partition) although their Python types differ -- what a
# caller gets who computes some labels with numpy / comparisons and writes others as literals.  One row per label, its spellings in a row.
def _mixed_table():
    import numpy as np
    return [
        [0, False, 0.0, np.int64(0), np.bool_(False), np.float64(0.0)],
        [1, True, 1.0, np.int64(1), np.uint8(1)],
        [3, np.int64(3), 3.0, np.float32(3.0)],
        ["a", np.str_("a")],
        [2.5, np.float64(2.5)],
        [(1, 2), (1.0, 2.0), (True, np.int64(2))],
        [frozenset([1]), frozenset([True]), frozenset([np.int64(1)])],
        [b"k", np.bytes_(b"k")],
        [7, 7.0, np.int32(7), np.float64(7.0)],
    ]


def _mixed_label_cases():
    """Deterministic family (seed independent): decompose_observables over partitions in which ONE label is spelled with several Python
    types on different qubits (0 / False / 0.0 / np.int64(0), 1 / True / 1.0, 'a' / np.str_('a'), (1, 2) / (1.0, 2.0) ...), contiguous and
    interleaved, next to the same partitions spelled with one type only.  Equal labels are one label: the qubits of all its spellings form
    one partition, every qubit lands in exactly one restriction and the restrictions recombine to the original strings."""
    import random
    r = random.Random(171715)
    table = _mixed_table()
    shapes = [
        # (rows of the table used as labels, per qubit: [label, spelling])
        ([0, 1], [[0, 0], [0, 1], [1, 0]]),                       # [0, False, 1]
        ([1, 0], [[0, 0], [0, 1], [1, 0], [1, 0]]),               # [1, True, 0, 0]
        ([1, 8], [[0, 0], [0, 2], [1, 0]]),                       # [1, 1.0, 7]
        ([0, 1, 8], [[0, 0], [1, 0], [0, 1], [1, 1], [2, 0], [0, 2]]),   # [0, 1, False, True, 7, 0.0]
        ([2, 8], [[0, 1], [0, 0], [1, 0], [1, 0]]),               # [np.int64(3), 3, 7, 7]
        ([3, 7], [[0, 0], [0, 1], [1, 0]]),                       # ['a', np.str_('a'), b'k']
        ([0], [[0, 0], [0, 1]]),                                  # one label, two spellings: [0, False]
        ([0], [[0, 1], [0, 0], [0, 3], [0, 2]]),                  # one label, four spellings
        ([4, 3], [[0, 0], [1, 1], [0, 1], [1, 0], [0, 0]]),       # interleaved 2.5 / 'a' / np.float64(2.5) / ...
        ([5, 6], [[0, 0], [1, 0], [0, 1], [1, 1], [0, 2], [1, 2]]),      # containers whose members differ in type
        ([8, 2, 1], [[0, 0], [1, 0], [2, 0], [0, 1], [1, 1], [2, 1], [0, 2], [1, 2]]),
        ([1, 0], [[0, 1], [1, 1], [0, 0], [1, 0]]),               # the bool spelling comes first: [True, False, 1, 0]
        ([7, 4], [[0, 1], [1, 1], [0, 0], [1, 0], [1, 1]]),
        # controls: the same shapes with one spelling per label
        ([0, 1], [[0, 0], [0, 0], [1, 0]]),
        ([1, 0], [[0, 1], [0, 1], [1, 1], [1, 1]]),
        ([2, 8], [[0, 1], [0, 1], [1, 2], [1, 2]]),
    ]
    for t, (rows, per_qubit) in enumerate(shapes):
        n = len(per_qubit)
        k = 1 + t % 3
        obs = [{"l": "".join(r.choice("XYZ") if i == 0 else r.choice("IXYZ") for _ in range(n)), "p": (t + i) % 4} for i in range(k)]
        mixed = [[rows[c], v] for c, v in per_qubit]
        yield ("decompose", {"n": n, "obs": obs, "labels": [c for c, _ in per_qubit], "mixed": mixed,
                             "pool": [repr(table[row][0]) for row in rows], "pool_idx": [],
                             "spelled": [f"{type(table[row][v]).__name__}:{table[row][v]!r}" for row, v in mixed], "always_oracle": True})


def _one_label_cases():
    """Deterministic family (seed independent): decompose_observables with observables that carry EVERY phase, over partitions with
    exactly one distinct label (what the un-separated paths of generate_cutting_experiments / reconstruct_expectation_values pass:
    "A" * n), with two labels and with one label per qubit.  Every restriction must have dropped the phase."""
    import random
    r = random.Random(171713)
    shapes = ["one", "one", "two", "each"]
    for t in range(12):
        n = 1 + t % 6
        k = 1 + t % 4
        # the first observable always has a non-trivial phase; lists of four carry all four phases
        obs = [{"l": "".join(r.choice("IXYZ") for _ in range(n)), "p": (1 + t + i) % 4 if i else 1 + t % 3} for i in range(k)]
        shape = shapes[t % 4] if n > 1 else "one"
        if shape == "one":
            pool_idx, labels = [t % _OLD_LABELS], [0] * n
        elif shape == "two":
            pool_idx = [t % _OLD_LABELS, (t + 3) % _OLD_LABELS]
            labels = [0] + [r.randrange(2) for _ in range(n - 2)] + [1]
        else:
            # one label per qubit, first seen in descending order of the pool
            pool_idx = [(t + i) % _OLD_LABELS for i in range(n)]
            labels = list(range(n))[::-1]
        yield ("decompose", {"n": n, "obs": obs, "labels": labels, "pool": [repr(LABELS[i]) for i in pool_idx], "pool_idx": pool_idx,
                             "always_oracle": True})


def _loop_cases():
    """Deterministic family (seed independent): ONE original circuit expanded onto MANY short-lived final circuits in a row (as when
    several cut placements are tried): every final circuit has the same number of qubits, holds the original qubits at different
    positions (fresh ones in between, in some steps one original qubit is missing), is expanded onto right after it was built and is
    dropped before the next one is built.  Every single call must place the letters where the qubits are in the final circuit of THAT call."""
    import random
    r = random.Random(171714)
    for j, (n, fresh, steps) in enumerate([(3, 2, 10), (2, 1, 10), (5, 3, 8), (1, 2, 8), (4, 0, 8), (6, 4, 6)]):
        k = 1 + j % 3
        obs = [{"l": "".join(r.choice("XYZ") if i == 0 else r.choice("IXYZ") for _ in range(n)), "p": (j + i) % 4} for i in range(k)]
        layouts = []
        for s_ in range(steps):
            lay = [["o", i] for i in range(n)] + [["f", i] for i in range(fresh)]
            r.shuffle(lay)
            if j % 2 == 0 and s_ in (steps // 2, steps - 1):
                # same size, but one original qubit is replaced by a fresh one: this call has to be refused
                gone = r.randrange(n)
                lay = [["f", fresh] if t == ["o", gone] else t for t in lay]
            layouts.append(lay)
        regs = [n] if j % 2 else ([1, n - 1] if n > 1 else [1])
        yield ("expand_loop", {"n": n, "obs": obs, "layout": layouts[0], "layouts": layouts, "regs": regs, "final_regs": False,
                               "clbits": 0, "creg": 0, "always_oracle": True})


def cases(rng, tier):
    yield from _mixed_label_cases()
    yield from _loop_cases()
    yield from _one_label_cases()
    yield from _seq_cases()
    yield from _odd_label_cases()
    yield from _main_cases(rng, tier)
    yield from _rand_seq_cases(rng, tier)   # after all other cases: their generator stream is unchanged


def _main_cases(rng, tier):
    N = 150 if tier == "quick" else 3000
    for _ in range(N):
        n = rng.randint(1, 8)
        k = rng.randint(1, 5)
        obs = _rand_obs(rng, n, k)
        m = rng.randint(0, n + 2)
        qs = [rng.randrange(n) for _ in range(m)] if rng.random() < 0.5 else rng.sample(range(n), min(m, n))
        yield ("restrict", {"n": n, "obs": obs, "qubits": qs, "as_list": rng.random() < 0.3})
    for k_ in range(N):
        n = rng.randint(1, 8)
        obs = _rand_obs(rng, n, rng.randint(1, 4))
        pool = rng.sample(LABELS[:_OLD_LABELS], rng.randint(1, 4))
        labels = [rng.randrange(len(pool)) for _ in range(n)]
        if k_ % 6 == 0:
            # more than eight qubits, contiguous blocks: a small partition at high indices
            n = rng.randint(9, 14)
            obs = _rand_obs(rng, n, rng.randint(1, 3))
            pool = rng.sample(LABELS[:_OLD_LABELS], 2)
            cut = rng.randint(6, n - 1)
            labels = [0] * cut + [1] * (n - cut)
            if rng.random() < 0.3:
                labels = labels[::-1]
        yield ("decompose", {"n": n, "obs": obs, "labels": labels, "pool": [repr(x) for x in pool], "pool_idx": [LABELS.index(x) for x in pool]})
    for _ in range(N):
        n = rng.randint(0, 6)
        fresh = rng.randint(0, 4)
        layout = [("o", i) for i in range(n)] + [("f", i) for i in range(fresh)]
        rng.shuffle(layout)
        r = rng.random()
        missing = None
        nobs_q = n
        if r < 0.1 and n > 0:
            missing = rng.randrange(n)
            layout = [t for t in layout if t != ("o", missing)]
        elif r < 0.25:
            nobs_q = rng.choice([1, 1, max(0, n - 1), n + 1, n + 2])
            if nobs_q == n:
                nobs_q = n + 1
        obs = _rand_obs(rng, nobs_q, rng.randint(1, 4))
        # registers of the original circuit: split n into chunks
        regs, left = [], n
        while left > 0:
            c = rng.randint(1, left)
            regs.append(c)
            left -= c
        yield ("expand", {"n": n, "obs": obs, "layout": [list(t) for t in layout], "regs": regs,
                          "final_regs": rng.random() < 0.5,
                          # classical bits in the final circuit (loose ones / a register), as cut_wires copies them over
                          "clbits": rng.choice([0, 0, 1, 3]), "creg": rng.choice([0, 0, 2])})


def _expand_objs(payload):
    from qiskit.circuit import QuantumCircuit, QuantumRegister
    regs = [QuantumRegister(c, f"r{i}") for i, c in enumerate(payload["regs"])]
    orig = QuantumCircuit(*regs)
    return orig, _final_for(orig, regs, payload["layout"], payload)


def _final_for(orig, regs, layout, payload):
    """A final circuit holding the qubit objects of `orig` at the positions given by `layout`, fresh qubits elsewhere."""
    from qiskit.circuit import QuantumCircuit, Qubit
    final = QuantumCircuit()
    bits = []
    for t, i in layout:
        bits.append(orig.qubits[i] if t == "o" else Qubit())
    final.add_bits(bits)
    if payload.get("final_regs"):
        for r in regs:
            if all(b in bits for b in r):
                final.add_register(r)
    if payload.get("clbits"):
        from qiskit.circuit import Clbit
        final.add_bits([Clbit() for _ in range(payload["clbits"])])
    if payload.get("creg"):
        from qiskit.circuit import ClassicalRegister
        final.add_register(ClassicalRegister(payload["creg"], "meas"))
    return final


def _apply_edit(lst, edit):
    """An in-place edit of a PauliList through its public interface."""
    from qiskit.quantum_info import Pauli
    if edit["how"] == "phase0":
        lst.phase = 0
    elif edit["how"] == "phase_plus1":
        lst.phase = (lst.phase + 1) % 4
    else:
        lst[edit["idx"]] = Pauli(PH[edit["pauli"]["p"]] + edit["pauli"]["l"][::-1])


def _edited(obs, edit):
    """The same edit on the plain letters/phase records."""
    if edit["how"] == "phase0":
        return [{"l": o["l"], "p": 0} for o in obs]
    if edit["how"] == "phase_plus1":
        return [{"l": o["l"], "p": (o["p"] + 1) % 4} for o in obs]
    return [dict(edit["pauli"]) if i == edit["idx"] else dict(o) for i, o in enumerate(obs)]


def model_line(kind, payload):
    if kind == "restrict":
        return {"op": "c17.restrict", "qubits": payload["qubits"], "obs": payload["obs"]}
    if kind == "decompose":
        return {"op": "c17.decompose", "labels": payload["labels"], "obs": payload["obs"]}
    layout = payload["layout"]
    final = [i if t == "o" else 1000 + i for t, i in layout]
    nq = len(payload["obs"][0]["l"]) if payload["obs"] else payload["n"]
    return {"op": "c17.expand", "obs": payload["obs"], "obs_num_qubits": nq,
            "orig": list(range(payload["n"])), "final": final}


def run_real(kind, payload):
    from qiskit_addon_cutting.utils.observable_grouping import observables_restricted_to_subsystem
    from qiskit_addon_cutting.cutting_decomposition import decompose_observables
    from qiskit_addon_cutting import expand_observables
    if kind == "restrict":
        pl = _plist(payload["obs"], payload["n"])
        arg = list(pl) if payload["as_list"] else pl
        out = observables_restricted_to_subsystem(payload["qubits"], arg)
        return {"ok": _canon_paulis(out)}
    if kind == "decompose":
        if payload.get("mixed"):
            # one label spelled with several Python types: payload["labels"] names the label of each qubit, "mixed" its spelling there
            table = _mixed_table()
            labels = [table[row][v] for row, v in payload["mixed"]]
        else:
            pool = [LABELS[i] for i in payload["pool_idx"]]
            # equal labels on different qubits are equal objects, not the same object (computed per qubit)
            labels = [gen.fresh(pool[i]) for i in payload["labels"]]
        out = decompose_observables(_plist(payload["obs"], payload["n"]), labels)
        return {"ok": [[payload["labels"][labels.index(l)], _canon_paulis(v)] for l, v in out.items()]}
    if kind == "expand_loop":
        import gc
        from qiskit.circuit import QuantumCircuit, QuantumRegister
        regs = [QuantumRegister(c, f"r{i}") for i, c in enumerate(payload["regs"])]
        orig = QuantumCircuit(*regs)
        pl = _plist(payload["obs"], payload["n"])
        calls = []
        for lay in payload["layouts"]:
            # the final circuit of this step lives only for this step
            final = _final_for(orig, regs, lay, payload)
            try:
                calls.append(_canon_paulis(expand_observables(pl, orig, final)))
            except ValueError:
                calls.append("ValueError")
            del final
            gc.collect()
        return {"ok": {"calls": calls}}
    orig, final = _expand_objs(payload)
    nq = len(payload["obs"][0]["l"])
    if kind == "expand_seq":
        pl = _plist(payload["obs"], nq)
        out_a = expand_observables(pl, orig, final)
        rec = {"first": _canon_paulis(out_a)}
        _apply_edit(out_a if payload["edit"]["target"] == "result" else pl, payload["edit"])
        rec["input_after"] = _canon_paulis(pl)
        rec["result_after"] = _canon_paulis(out_a)
        final_b = _final_for(orig, list(orig.qregs), payload["layout_b"], payload)
        rec["second"] = _canon_paulis(expand_observables(pl, orig, final_b))
        return {"ok": rec}
    out = expand_observables(_plist(payload["obs"], nq), orig, final)
    return {"ok": _canon_paulis(out)}


def model_canon(kind, payload, out):
    if "driver_error" in out:
        raise RuntimeError(out["driver_error"])
    return out


def compare(kind, payload, real, model):
    if kind == "expand_seq" and isinstance(real.get("ok"), dict):
        real = {"ok": real["ok"]["first"]}    # the model describes the first expansion; the rest of the sequence is judged by the oracle
    if kind == "expand_loop" and isinstance(real.get("ok"), dict):
        first = real["ok"]["calls"][0]        # likewise: the model describes the first call of the loop
        real = {"error": "ValueError"} if first == "ValueError" else {"ok": first}
    if real != model:
        return f"real={json.dumps(real)[:300]} model={json.dumps(model)[:300]}"
    return None


def describe(kind, payload):
    d = {"n": payload["n"]}
    if kind in ("expand", "expand_loop"):
        d["fresh"] = sum(1 for t, _ in payload["layout"] if t == "f")
    return d


def nontrivial_key(kind, payload):
    if all(set(o["l"]) <= {"I"} for o in payload["obs"]):
        return None
    return hash(json.dumps([kind, payload], sort_keys=True))


def oracle(kind, payload):
    real = run_real_safe(kind, payload)
    if kind == "restrict":
        if "error" in real:
            return f"restriction raised {real['error']}"
        exp = [{"l": "".join(o["l"][q] for q in payload["qubits"]), "p": 0} for o in payload["obs"]]
        return None if real["ok"] == exp else f"restriction gives {real['ok']}, letters of the chosen qubits are {exp}"
    if kind == "decompose":
        if "error" in real:
            return f"decompose_observables raised {real['error']}"
        labels = payload["labels"]
        if payload.get("mixed"):
            # equal labels of different Python types are one label (one dict key): every qubit must land in exactly one restriction
            covered = sum(len(subs[0]["l"]) for _, subs in real["ok"]) if payload["obs"] else payload["n"]
            if covered != payload["n"]:
                return (f"decompose_observables over the labels {payload['spelled']} (equal labels spelled with different types are one "
                        f"label): the returned restrictions {[[payload['pool'][lab], [s['l'] for s in subs]] for lab, subs in real['ok']]} "
                        f"cover {covered} of {payload['n']} qubits -- they do not recombine to the original strings "
                        f"{[o['l'] for o in payload['obs']]} (qubit 0 first)")
        for o_idx, o in enumerate(payload["obs"]):
            rebuilt = [None] * payload["n"]
            for lab, subs in real["ok"]:
                idxs = [i for i, l in enumerate(labels) if l == lab]
                if len(subs[o_idx]["l"]) != len(idxs):
                    return "restriction has wrong width"
                for k, i in enumerate(idxs):
                    rebuilt[i] = subs[o_idx]["l"][k]
            if "".join(x or "?" for x in rebuilt) != o["l"]:
                return f"restrictions recombine to {rebuilt}, original {o['l']}"
        if sorted(l for l, _ in real["ok"]) != sorted(set(labels)):
            return "sub-observable keys differ from the set of labels"
        # "... and drops the phase": every restriction is a bare string of letters, whatever phase the observable had
        for lab, subs in real["ok"]:
            for o_idx, (o, sub) in enumerate(zip(payload["obs"], subs)):
                if sub["p"] != 0:
                    return (f"decompose_observables over labels {[payload['pool'][l] for l in labels]}: the restriction of observable "
                            f"#{o_idx} ({PH[o['p']]}{o['l']}, qubit 0 first) to partition {payload['pool'][lab]} is "
                            f"{PH[sub['p']]}{sub['l']}: the phase was not dropped")
        return None
    if kind == "expand_loop":
        if "error" in real:
            return f"loop of expansions raised {real['error']}"
        n = payload["n"]
        for step, (lay, got) in enumerate(zip(payload["layouts"], real["ok"]["calls"])):
            lay = [tuple(t) for t in lay]
            where = [lay.index(("o", i)) if ("o", i) in lay else None for i in range(n)]
            if None in where:
                if got != "ValueError":
                    return (f"call #{step} of a loop over short-lived final circuits (one original circuit, each final circuit dropped "
                            f"before the next is built): original qubit {where.index(None)} is missing from this final circuit "
                            f"(layout {lay}), not refused with ValueError: {got}")
                continue
            exp = [{"l": "".join(o["l"][i] if t == "o" else "I" for t, i in lay), "p": o["p"]} for o in payload["obs"]]
            if got != exp:
                return (f"call #{step} of a loop over short-lived final circuits (one original circuit, each final circuit dropped "
                        f"before the next is built): the original qubits sit at positions {where} of {len(lay)} in THIS final circuit; "
                        f"expansion gives {got}, expected {exp}")
        return None
    # expand
    n = payload["n"]
    layout = [tuple(t) for t in payload["layout"]]
    nq = len(payload["obs"][0]["l"])
    bad = nq != n or any(("o", i) not in layout for i in range(n))
    if bad:
        return None if real.get("error") == "ValueError" else f"invalid expansion request not refused with ValueError: {real}"
    if "error" in real:
        return f"valid expansion raised {real['error']}"

    def expected(obs, lay):
        return [{"l": "".join(o["l"][i] if t == "o" else "I" for t, i in lay), "p": o["p"]} for o in obs]
    exp = expected(payload["obs"], layout)
    if kind == "expand_seq":
        rec, edit = real["ok"], payload["edit"]
        if rec["first"] != exp:
            return f"expansion gives {rec['first']}, expected {exp}"
        layout_b = [tuple(t) for t in payload["layout_b"]]
        if edit["target"] == "result":
            # only the returned list was edited: the caller's observables are what they were, and so is their next expansion
            if rec["input_after"] != payload["obs"]:
                return (f"after the RETURNED list was edited in place ({edit['how']}) the input observables, never touched, read "
                        f"{rec['input_after']} instead of {payload['obs']}: the expansion shares state with its input")
            exp_b = expected(payload["obs"], layout_b)
        else:
            # only the input list was edited after the call: the expansion returned earlier keeps the letters and phase it was given
            if rec["result_after"] != exp:
                return (f"after the INPUT list was edited in place ({edit['how']}) the expansion returned before reads "
                        f"{rec['result_after']} instead of {exp}: it does not keep the phase/letters of the observables it expanded")
            exp_b = expected(_edited(payload["obs"], edit), layout_b)
        if rec["second"] != exp_b:
            return f"second expansion (after {edit['how']} on the {edit['target']} list) gives {rec['second']}, expected {exp_b}"
        return None
    return None if real["ok"] == exp else f"expansion gives {real['ok']}, expected {exp}"


def run_real_safe(kind, payload):
    from ..core import call_real
    return call_real(lambda p: run_real(kind, p), payload)
