"""C07 — automatic cut finding returns a feasible, faithfully accounted cut circuit."""
from __future__ import annotations

import json
from .. import cutfind
from ..core import call_real

ID = "C07"
LEAN_MODULE = "CKT.Props.C07Spec"
THEOREMS = ["CKT.C08Wire.optimize_result_is_planW", "CKT.C08Wire.child_linkW", "CKT.C08Wire.goal_feasibleW"] + ["CKT.C07." + t for t in [
    "returned_cuts_feasible",
    "find_idx", "step_accounting", "path_accounting", "reachable_gamma", "multiqubitGates_idx_nodup", "export_overhead",
    "init_inv", "merge_inv", "newWire_inv", "step_inv", "path_inv", "reachable_width", "export_nonmarkers", "export_cuts_spec",
    "init_inv2", "merge_inv2'", "step_inv2", "forbidden_self", "progress_gate_cut", "greedy_some_gate_cut", "loop_ok", "passes_ok",
    "optimize_never_fails_gate_cut", "step_budget", "progress_wire_cut", "greedy_some_wire_cut", "optimize_never_fails_wire_cut",
    "optimize_error_only_if_greedy_none", "path_cases", "greedy_none_no_cuts",
    # T07.2 bookkeeping half (Props/C07Cnt): recorded width of a root = number of wires in its class, in every reachable state
    "init_cnt", "merge_cnt'", "newWire_cnt'", "step_cnt", "reachable_class_size",
    # T07.3 second half (Props/C07Exp): markers stand directly before the instruction they belong to
    "prefix_length", "step_spec", "fold_spec", "export_items_spec", "step_gate", "path_gates_sublist", "sortByGate_spec",
    "reachable_export_items_spec",
    # T07.2 (Props/C07Conn): wires connected through applied (uncut) gates never number more than W
    "trace_path", "path_trace", "path_all_inv", "trace_edges", "conn_same_root", "connected_wires_le_width"]]
LEVEL_TEXT = ("bookkeeping, export and never-fails theorems for the executable model of the cut finder for every input and setting; at specification level (plans of apply / gate cut / wire cuts per gate, subcircuits = classes of wires joined by the gates that are not gate-cut) the returned state is proved to be a width-feasible plan with the reported overhead made of permitted kinds of cut only (C07.returned_cuts_feasible); the identification of that plan with the exported circuit after cut_wires/partitioning is by the export theorems and the correspondence run; model tied to the code by exact comparison")