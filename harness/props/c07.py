"""C07 — automatic cut finding returns a feasible, faithfully accounted cut circuit."""
from __future__ import annotations

import json
from .. import cutfind
from ..core import call_real

ID = "C07"
LEAN_MODULE = "CKT.Props.C07Spec"
THEOREMS = ["CKT.C07Gen.registered", "CKT.C07Gen.run_eq_model", "CKT.C07Gen.actionList_translated", "CKT.C08Wire.optimize_result_is_planW", "CKT.C08Wire.child_linkW", "CKT.C08Wire.goal_feasibleW"] + ["CKT.C07." + t for t in [
    "returned_cuts_feasible",
    "find_idx", "step_accounting", "path_accounting", "reachable_gamma", "multiqubitGates_idx_nodup", "export_overhead",
    "init_inv", "merge_inv", "newWire_inv", "step_inv", "path_inv", "reachable_width", "export_nonmarkers", "export_cuts_spec",
    "init_inv2", "merge_inv2'", "step_inv2", "forbidden_self", "progress_gate_cut", "greedy_some_gate_cut", "loop_ok", "passes_ok",
    "optimize_never_fails_gate_cut", "step_budget", "progress_wire_cut", "greedy_some_wire_cut", "optimize_never_fails_wire_cut",
    "optimize_error_only_if_greedy_none", "path_cases", "greedy_none_no_cuts",
    # T07.2 bookkeeping half (Props/C07Cnt): recorded width of a root = number of wires in its class, in every reachable state
    "init_cnt", "merge_cnt'", "newWire_cnt'", "step_cnt", "reachable_class_size",
    # T07.3 second half (Props/C07Exp): markers stand directly before the instruction they belong to
    "prefix_length", "step_spec", "fold_spec", "export_items_spec", "step_gate", "path_gates_sublist", "sortByGate_spec",
    "reachable_export_items_spec",
    # T07.2 (Props/C07Conn): wires connected through applied (uncut) gates never number more than W
    "trace_path", "path_trace", "path_all_inv", "trace_edges", "conn_same_root", "connected_wires_le_width"]]
LEVEL_TEXT = ("bookkeeping, export and never-fails theorems for the executable model of the cut finder for every input and setting; at specification level (plans of apply / gate cut / wire cuts per gate, subcircuits = classes of wires joined by the gates that are not gate-cut) the returned state is proved to be a width-feasible plan with the reported overhead made of permitted kinds of cut only (C07.returned_cuts_feasible); the identification of that plan with the exported circuit after cut_wires/partitioning is by the export theorems and the correspondence run; model tied to the code by exact comparison")
RULE = ("random circuits on 2-8 qubits with up to 10 instructions (two-qubit gates of every family, Move, one-qubit gates, partial and full "
        "barriers, occasionally a three-qubit gate; fixed families with Delay instructions around the cut positions and with several quantum "
        "registers), every width limit, all permitted-cut combinations, restricted and unrestricted search "
        "settings, invalid settings; exact comparison (instruction list, metadata, overhead, flag) on integer-kappa circuits with the seeded "
        "generator's stream replayed in the model; overhead/flag comparison otherwise; distinct by payload")
ASSUMPTIONS = ["numpy Generator(seed).random() stream is read in Python and passed to the model (the model is a function of that stream)",
               "kappa of each two-qubit gate is taken from QPDBasis.from_instruction (covered by C15) and passed to the model as an exact rational",
               "heapq is modelled as a total-order priority queue (keys are unique through the sequence counter)",
               "float products of integer kappas are exact; for non-integer kappas only tie-break-independent observables are compared"]


def _deep_merge_and_barrier_cases():
    """(a) eight to ten qubits merged hierarchically (pairs, pairs of pairs, ...) so that the search state's up-tree gets three or more levels
    before a further gate touches a deep wire — wide limits (nothing to cut) and limits that force cuts; (b) a full-width barrier at or after
    the gate whose input wire is cut (wire-cut plans), next to controls with the barrier in front of the cut or a gate-cut plan"""
    g, f = cutfind._g, cutfind._fam
    tree8 = [g("cx", 0, 1), g("cx", 2, 3), g("cx", 4, 5), g("cx", 6, 7), g("cx", 4, 6), g("cx", 0, 2), g("cx", 0, 4), g("cx", 7, 3), g("h", 7)]
    out = [f(8, tree8, 8), f(8, tree8, 10, seed=3), f(8, tree8, 6, seed=1), f(8, tree8, 4, seed=2, glo=False), f(8, tree8, 4, seed=2, wlo=False)]
    tree10 = [g("cx", 8, 9), g("cx", 0, 1), g("cx", 2, 3), g("cx", 0, 2), g("cx", 4, 5), g("cx", 6, 7), g("cx", 4, 6), g("cx", 0, 4),
              g("cx", 7, 8), g("cz", 9, 3), g("cx", 5, 1)]
    out += [f(10, tree10, 10), f(10, tree10, 8, seed=5), f(10, tree10, 5, seed=6, mb=200)]
    rev = [g("cx", 7, 6), g("cx", 5, 4), g("cx", 3, 2), g("cx", 1, 0), g("cx", 3, 1), g("cx", 7, 5), g("cx", 7, 3), g("cx", 0, 4), g("x", 0)]
    out += [f(8, rev, 8, seed=7), f(8, rev, 9, seed=8, glo=False)]
    bar = lambda n: g("barrier", *range(n))
    star = [g("cx", 0, 3), g("cx", 1, 3), g("cx", 2, 3)]
    out += [f(5, star + [bar(5), g("h", 4), g("cx", 3, 4)], 3, seed=1), f(5, star + [bar(5), g("h", 4), g("cx", 3, 4)], 3, seed=1, glo=False),
            f(5, star + [g("h", 4), g("cx", 3, 4), bar(5), g("x", 0)], 3, seed=2, glo=False),
            f(5, [bar(5)] + star + [g("h", 4), g("cx", 3, 4)], 3, seed=3, glo=False),           # control: barrier in front of everything
            f(5, star + [bar(5), g("h", 4), g("cx", 3, 4)], 3, seed=4, wlo=False),              # control: gate-cut plan
            f(4, [g("swap", 0, 1), g("cx", 1, 2), bar(4), g("swap", 2, 3), bar(4), g("cx", 0, 3)], 2, seed=5),
            f(4, [g("cx", 0, 1), g("cx", 2, 3), bar(4), g("cx", 1, 2), g("cx", 0, 1), bar(4), g("cx", 2, 3)], 2, seed=6, glo=False)]
    return out


def _mixed_order_cases():
    """Mixed plans in which a wire cut lies in front of (in instruction order) a gate cut: two bound pairs, a swap-like gate across them (kappa 7 > 4:
    the wire cut is the cheaper separation), then a cx-like gate across the boundary; also the reverse order and two wire cuts before the gate cut."""
    out = []
    bound = [("cx", 0, 1), ("cx", 0, 1), ("cx", 2, 3), ("cx", 2, 3)]
    progs = [bound + [(big, 1, 2), (small, 0, 3)] for big in ("swap", "iswap", "dcx") for small in ("cx", "cz")]
    progs += [bound + [("cx", 0, 3), ("swap", 1, 2)], bound + [("swap", 1, 2), ("h", 1), ("swap", 1, 2), ("cx", 0, 3)],
              bound + [("swap", 2, 1), ("cx", 3, 0), ("cx", 0, 1)]]
    for k, prog in enumerate(progs):
        instrs = [{"name": nm, "qubits": list(qs)} for nm, *qs in prog]
        for bj in (None, 0):
            out.append({"nq": 4, "instrs": instrs, "seed": 3 + k, "max_gamma": 1024.0, "max_backjumps": bj, "gate_lo": True, "wire_lo": True,
                        "width": 3, "exact": True, "always_oracle": True})
    return out


def regenerate():
    """the five search actions, translated from cut_finding/cutting_actions.py on every run"""
    from ..translate import actions
    from ..core import REPO, LEAN
    actions.regenerate(REPO, LEAN)


def cases(rng, tier):
    for p in _deep_merge_and_barrier_cases() + _mixed_order_cases():
        yield ("find_cuts", p)
    N = 150 if tier == "quick" else 2500
    # deterministic families (independent of the seed, oracle always run): Delay instructions before / in front of / after the cut positions
    # (reported positions are positions in the input circuit, delays included), and qubits spread over several quantum registers
    for p in cutfind.family_delays() + cutfind.family_registers():
        yield ("find_cuts", p)
    # gamma limits that admit fewer cuts than the circuit needs (wire-only, gate-only, both kinds; several backjump limits): the greedy answer is the
    # guaranteed fallback, so a feasible request must still be answered
    for p in cutfind.family_tight_gamma():
        yield ("find_cuts", p)
    # circuits in which nothing (or only full-width barriers) happens: trivially feasible, nothing to cut
    for nq, instrs in ((3, []), (4, [{"name": "barrier", "qubits": [0, 1, 2, 3]}]), (1, []), (2, [{"name": "barrier", "qubits": [0, 1]}] * 2)):
        yield ("find_cuts", {"nq": nq, "instrs": [dict(i) for i in instrs], "seed": rng.randrange(1 << 30), "max_gamma": 1024.0, "max_backjumps": 10000,
                             "gate_lo": True, "wire_lo": rng.random() < 0.5, "width": rng.choice([1, 2]), "exact": True, "always_oracle": True})
    # wire cuts only, width 2: the optimum cuts both wires of a gate whose qubits already share a subcircuit, and a later gate needs a cut
    for _ in range(2 if tier == "quick" else 12):
        perm = list(range(4))
        rng.shuffle(perm)
        pairs = [(0, 1), (2, 3), (0, 1), (1, 2), (0, 1)]
        if rng.random() < 0.5:
            pairs.append(rng.choice([(2, 3), (1, 2)]))
        yield ("find_cuts", {"nq": 4, "instrs": [{"name": "cx", "qubits": [perm[a], perm[b]]} for a, b in pairs], "seed": rng.randrange(1 << 30),
                             "max_gamma": 1e6, "max_backjumps": None, "gate_lo": False, "wire_lo": True, "width": 2, "exact": True,
                             "always_oracle": True})
    for _ in range(N):
        yield ("find_cuts", cutfind.gen_case(rng, tier))
    # every registered two-qubit family once as the gate that has to be cut (its own overhead is then the reported one)
    from .. import gen as _gen
    for fam in _gen.FIXED_2Q + _gen.PARAM_2Q:
        yield ("find_cuts", cutfind.gen_bridge(rng, tier, fam=fam))


def model_line(kind, payload):
    return cutfind.model_line(payload)


def run_real(kind, payload):
    return cutfind.run_real(payload)


def model_canon(kind, payload, out):
    return cutfind.model_canon(out)


def compare(kind, payload, real, model):
    return cutfind.compare(payload, real, model)


def describe(kind, payload):
    return cutfind.describe(payload)


def nontrivial_key(kind, payload):
    return hash(json.dumps({k: v for k, v in payload.items() if not k.startswith("_")}, sort_keys=True, default=str))


def oracle(kind, payload):
    real = call_real(lambda p: cutfind.run_real(p), payload, timeout=300)
    bad_settings = payload["width"] < 1 or payload["max_gamma"] < 1 or (payload["max_backjumps"] is not None and payload["max_backjumps"] < 0)
    gs = cutfind.gammas(payload)
    gates = cutfind.two_qubit_gates(payload)
    big = any(len(g["qubits"]) > 2 for _, g in gates)
    if "error" in real:
        if real["error"] != "ValueError":
            return f"find_cuts raised {real['error']}"
        if bad_settings or big or "error" in gs:
            return None
        best, plan = cutfind.brute_force(payload, gs)
        if best == "skip" or best is None:
            return None
        # two-qubit non-Gate instructions have no gamma: the greedy pass may dead-end although a plan exists (outside the property's quantifier)
        if any(gs[k] is None for k, _ in gates):
            return None
        return f"find_cuts refused although the plan {plan} (gamma {best}) meets the width limit {payload['width']}"
    if bad_settings:
        return "invalid settings were accepted"
    if big:
        return "a gate on more than two qubits was accepted by the search"
    return cutfind.analyse_output(payload, real["ok"], gs)
