"""C02 — every quasi-probability basis is an exact decomposition of its instruction."""
from __future__ import annotations

import json
import math
import numpy as np

from .. import canon, gen
from ..core import call_real, LEAN, REPO

ID = "C02"
LEAN_MODULE = "CKT.Props.C02Names"
FAMS = ["rxx", "ryy", "rzz", "crx", "cry", "crz", "cp"]
FIXED = ["cs", "csdg", "csx", "csxdg", "cx", "cy", "cz", "ch", "ecr", "swap", "iswap", "dcx", "move"]
THEOREMS = (["CKT.C02.check_" + n for n in FAMS + FIXED + ["kak"]]
            + ["CKT.C02.exact_" + n for n in FAMS + FIXED + ["kak"]]
            + ["CKT.C02.checkBasis_sound'", "CKT.C02.sat_angle", "CKT.C02.sat_u", "CKT.C02.dressing",
               "CKT.C02.unsupported_refused", "CKT.C02.kak_coeffs_local_invariant",
               # the registry of the source (translated on every run: Generated/Names.lean) is the model's table of supported names
               "CKT.C02.registered_supported", "CKT.C02.supported_registered", "CKT.C02.registered_nodup", "CKT.C02.registered_exact"])
RULE = ("all 20 explicitly supported names (parametrised ones at special angles 0, +-pi, 2pi k, |theta|>4pi, 1e-9 and random angles in "
        "[-8pi, 8pi]) plus the KAK path (rzx, xx+-yy, open-control variants of the controlled gates, Haar-random and Weyl-corner unitaries with random local dressing, unitaries G.R / R.G with G a registered gate and R a rotation by "
        "1e-5..8e-3 without local dressing), gates that carry a registered name without being the library object (declared in an OpenQASM 2 "
        "program, hand-made Gate with a definition) and refused "
        "instructions; compared per map and side: operation names, each operation's transfer matrix (1e-9), coefficients, kappa, the "
        "target's 16x16 transfer matrix against Qiskit's Operator; non-trivial = basis produced; distinct by payload")
ASSUMPTIONS = ["TwoQubitWeylDecomposition (Qiskit) is external: its output (a,b,c,K1l,K1r,K2l,K2r) is checked numerically per case, "
               "and the dressed basis is checked for exactness numerically (the Lean side proves the undressed table for every u and the abstract dressing lemma)",
               "the gate-semantics table of the model (unitaries of the named gates, Kraus operators of reset and of the signed measurement marker) "
               "is compared numerically with Qiskit's Operator on every case",
               "floating-point rounding of the coefficients is outside the model (tolerance 1e-9)"]
OPEN = ["cx", "cy", "cz", "ch", "cs", "csdg", "csx", "crx", "cry", "crz", "cp"]
TOL = 1e-9
SC = 1e13


def regenerate():
    from ..translate import kak, names
    kak.regenerate(REPO, LEAN)
    names.regenerate(REPO, LEAN)


def _theta_prime(name, theta):
    return -theta / 2 if name in ("rxx", "ryy", "rzz") else theta / 4


# --- deterministic families (seed independent, oracle always run) --------------------------------------------------------------------------
# composite two-qubit gates that have no matrix of their own and whose definition is ONE two-qubit gate (QuantumCircuit.to_gate(), a box in a
# box, Gate.repeat(1), MCPhaseGate with one control), the inner gate placed on the box's qubits in either order; inner gates that are not
# symmetric under exchange of their qubits and symmetric ones.  The package may refuse a box or support it, but a basis it hands out must
# decompose the box (Operator of its definition, qubit order included), not the bare inner gate.
BOX_INNER = [("cx", []), ("cy", []), ("ch", []), ("cs", []), ("csx", []), ("ecr", []), ("dcx", []), ("crx", [0.9]), ("cry", [-0.6]),
             ("crz", [2.2]), ("rzx", [0.5]), ("unitary", [5, 2]), ("cz", []), ("cp", [1.3]), ("rzz", [-1.1]), ("swap", []), ("iswap", [])]
# the angle of rxx/ryy/rzz/crx/cry/crz/cp handed over in every form Qiskit lets a gate be built with: python int, numpy scalar, fully bound
# ParameterExpression (real; real after complex arithmetic; NOT real).  A gate whose bound angle is not real has no unitary, hence no channel
# to decompose: it must be refused.  Each entry: form -> (is the value real, builder of the parameter from the reference value v)
ANGLE_FORMS = ["int", "np64", "bound", "cplxreal", "plus0j", "imag", "cplx", "shift"]
NONREAL_FORMS = ("imag", "cplx", "shift")
# a gate that carries a registered NAME (and the angle in params[0]) without being the library object of that name: declared by the user in
# an OpenQASM 2 program and loaded with qiskit.qasm2.loads ("qasm": a plain Gate subclass, not a ControlledGate, definition from the
# program), or a hand-made Gate(name, 2, params) whose definition is the library gate ("plain").  Its definition IS the gate of that name (up
# to a global phase; asserted when the input is built), the package dispatches on the name, so the basis must decompose it.
USERDEF_QASM = """OPENQASM 2.0;
gate h a { U(pi/2,0,pi) a; }
gate s a { U(0,0,pi/2) a; }
gate sdg a { U(0,0,-pi/2) a; }
gate rz(t) a { U(0,0,t) a; }
gate ry(t) a { U(t,0,0) a; }
gate rx(t) a { U(t,-pi/2,pi/2) a; }
gate crz(t) a,b { rz(t/2) b; CX a,b; rz(-t/2) b; CX a,b; }
gate cry(t) a,b { ry(t/2) b; CX a,b; ry(-t/2) b; CX a,b; }
gate crx(t) a,b { h b; crz(t) a,b; h b; }
gate cp(t) a,b { rz(t/2) a; CX a,b; rz(-t/2) b; CX a,b; rz(t/2) b; }
gate rzz(t) a,b { CX a,b; rz(t) b; CX a,b; }
gate rxx(t) a,b { h a; h b; rzz(t) a,b; h a; h b; }
gate ryy(t) a,b { rx(pi/2) a; rx(pi/2) b; rzz(t) a,b; rx(-pi/2) a; rx(-pi/2) b; }
gate cx a,b { CX a,b; }
gate cz a,b { h b; CX a,b; h b; }
gate cy a,b { sdg b; CX a,b; s b; }
gate cs a,b { cp(pi/2) a,b; }
gate csdg a,b { cp(-pi/2) a,b; }
gate csx a,b { h b; cp(pi/2) a,b; h b; }
gate swap a,b { CX a,b; CX b,a; CX a,b; }
gate dcx a,b { CX a,b; CX b,a; }
gate iswap a,b { s a; s b; h a; CX a,b; CX b,a; h b; }
qreg q[2];
"""
USERDEF = [("crx", [0.7]), ("cry", [-1.3]), ("crz", [2.9]), ("crx", [5 * math.pi / 3]), ("rxx", [0.7]), ("ryy", [-2.1]), ("rzz", [1.9]),
           ("cp", [1.3]), ("cx", []), ("cz", []), ("cy", []), ("cs", []), ("csdg", []), ("csx", []), ("swap", []), ("dcx", []), ("iswap", [])]
# two-qubit unitaries (UnitaryGate: the to_matrix/KAK path) that lie CLOSE TO, but are not, a gate with an explicit basis: G times a small
# one- or two-qubit rotation (angle 1e-5 .. 8e-3), on either side, optionally times a global phase, WITHOUT any local conjugation (the Weyl
# family above always dresses with Haar-random locals).  "Any other two-qubit unitary" must get an exact basis of ITS channel.
NEAR_ROTS = ["rz0", "rx1", "rzz", "rxx", "ry0", "rzx", "rz1", "ryy", "ry1rz0"]
NEAR_EPS = [5e-3, 1e-3, 3e-3, 1e-4, 8e-3, -2e-3, 1e-5]
NEAR_BASE = [("cx", []), ("cz", []), ("swap", []), ("iswap", []), ("cs", []), ("csx", []), ("ecr", []), ("dcx", []), ("ch", []), ("cy", []),
             ("csdg", []), ("csxdg", []), ("rzz", [0.7]), ("crx", [1.1]), ("cp", [-0.9]), ("rxx", [math.pi / 2])]


# every parametrised family at angles CLOSE TO, but not at, the multiples of pi/2 where the gate degenerates into a fixed gate (cp(pi)=cz,
# crz(2pi)=z x I, rzz(pi)=z x z, theta=0 ...): distance 1e-6 .. 3e-5, i.e. inside the default tolerance of np.isclose/np.allclose relative to
# pi but far outside the 1e-9 / 1e-7 of the comparison.  "All real angles" must get an exact basis of THAT angle.
NEAR_MULT = [1, -1, 3, 2, 0.5, -0.5, 0, 4, -3, 1.5]
NEAR_DELTA = [-2e-5, 1e-5, 2e-5, -1e-5, 3e-5, -3e-6, 2.5e-5, 1e-6]


def _det_cases():
    extra = {"or_exact": True, "always_oracle": True}
    for i, name in enumerate(FAMS):
        for j, mult in enumerate(NEAR_MULT if name == "cp" else NEAR_MULT[:6]):
            yield ("gate", {"gate": name, "params": [mult * math.pi + NEAR_DELTA[(i + j) % len(NEAR_DELTA)]], "always_oracle": True})
    for i, (g_, ps) in enumerate(USERDEF):
        yield ("refuse", {"gate": "userdef:" + g_, "params": ps, "how": "qasm", **extra})
        if i % 2 == 0 or g_ in ("crx", "cry", "crz"):
            yield ("refuse", {"gate": "userdef:" + g_, "params": ps, "how": "plain", **extra})
    for i, (g_, ps) in enumerate(NEAR_BASE):
        yield ("kak", {"gate": "near:" + g_, "params": ps, "rot": NEAR_ROTS[i % len(NEAR_ROTS)], "eps": NEAR_EPS[i % len(NEAR_EPS)],
                       "left": i % 3 == 1, "phase": 0.7 if i % 4 == 2 else 0.0, "always_oracle": True})
    # "local products" reached through the KAK path, whatever the seed: UnitaryGates without any non-local content (Weyl coordinates 0,0,0):
    # products of Haar-random one-qubit unitaries, layers of rx/ry/rz rotations, with a global phase; the local factors K1, K2 are all there is
    for i in range(4):
        yield ("kak", {"gate": "weyl", "params": [0, 0, 0], "seeds": [9100 + 4 * i + j for j in range(4)], "always_oracle": True})
    # faces and edges of the Weyl chamber with a NEGATIVE third coordinate, whatever the seed: c = -b != 0 (sqrt(SWAP) and its powers: a = b = -c),
    # c = -b with another a, and b = c mirrored; with and without local conjugation (seeds 0 = identity-like fixed locals)
    import math as _m
    for i, abc in enumerate(([_m.pi / 8, _m.pi / 8, -_m.pi / 8], [_m.pi / 12, _m.pi / 12, -_m.pi / 12], [0.6, 0.25, -0.25], [0.7, 0.3, -0.3],
                              [0.5, 0.2, -0.1], [_m.pi / 4, _m.pi / 4, -_m.pi / 4], [0.6, 0.25, 0.25])):
        yield ("kak", {"gate": "weyl", "params": abc, "seeds": [9300 + 4 * i + j for j in range(4)], "always_oracle": True})
    for ps in ([61, 62], [[0.7, 1.1, 0.4], [-0.3, 0.9, 1.6]], [63, [1.2, 0.0, -0.8], 0.9], [[0.0, 0.0, 0.6], [0.0, 1.3, 0.0], -0.4]):
        yield ("kak", {"gate": "unitary_kron", "params": ps, "always_oracle": True})
    for i, (g_, ps) in enumerate(BOX_INNER):
        yield ("refuse", {"gate": "box:" + g_, "params": ps, "order": [1, 0], "depth": 1, **extra})
        if i % 4 == 0:
            yield ("refuse", {"gate": "box:" + g_, "params": ps, "order": [0, 1], "depth": 1, **extra})
    yield ("refuse", {"gate": "box:cx", "params": [], "order": [1, 0], "depth": 2, **extra})
    yield ("refuse", {"gate": "box:cry", "params": [0.8], "order": [1, 0], "depth": 3, **extra})
    yield ("refuse", {"gate": "box_outer_rev:crx", "params": [0.9], **extra})   # box[ box[crx(0,1)] on (1,0) ]
    yield ("refuse", {"gate": "box_repeat1:cx", "params": [], **extra})
    yield ("refuse", {"gate": "box_repeat1:crz", "params": [0.7], **extra})
    yield ("refuse", {"gate": "box_mcphase1", "params": [0.8], **extra})
    yield ("refuse", {"gate": "box_two:cx", "params": [], "order": [1, 0], **extra})  # two instructions in the definition: h(0); cx(1,0)
    yield ("refuse", {"gate": "box_phase:cx", "params": [], "order": [1, 0], **extra})  # one instruction plus a global phase
    vals = {"imag": 0.6, "cplx": 1.1, "shift": math.pi / 2}
    for i, name in enumerate(FAMS):
        for form in NONREAL_FORMS:
            yield ("refuse", {"gate": "angle_form:" + name, "form": form, "params": [vals[form]], **extra})
        for form in (ANGLE_FORMS[i % 5], ANGLE_FORMS[(i + 2) % 5]):
            v = [2, 0.7, 0.7, 0.9, -5, 3, -1.3][i] if form != "int" else [2, -3, 1, 7, -1, 4, 3][i]
            yield ("refuse", {"gate": "angle_form:" + name, "form": form, "params": [v], **extra})


def cases(rng, tier):
    yield from _det_cases()
    # every open-controlled gate (exactly diagonal ones among them: crz, cp, cz, cs, csdg with ctrl_state=0), whatever the seed
    # (seeded change C02-10 was caught at seed 0 only, through the three that `rng.sample` happened to pick)
    for g_ in OPEN:
        yield ("kak", {"gate": "open:" + g_, "params": [0.7 + 0.1 * OPEN.index(g_)] if g_ in FAMS else [], "always_oracle": True})
    reps = 6 if tier == "quick" else 60
    for name in FAMS:
        for th in gen.SPECIAL_ANGLES + [rng.uniform(-8 * math.pi, 8 * math.pi) for _ in range(reps)]:
            yield ("gate", {"gate": name, "params": [th]})
    for name in FIXED:
        yield ("gate", {"gate": name, "params": []})
    for g_ in (rng.sample(OPEN, 3) if tier == "quick" else OPEN):
        yield ("kak", {"gate": "open:" + g_, "params": [gen.rand_angle(rng)] if g_ in FAMS else []})
    # gates without any non-local content (tensor products of Haar-random one-qubit unitaries), and the Weyl-chamber corners
    q_ = math.pi / 4
    for corner in [(0, 0, 0), (0, 0, 0), (q_, 0, 0), (q_, q_, 0), (q_, q_, q_)]:
        yield ("kak", {"gate": "weyl", "params": list(corner), "seeds": [rng.randrange(10 ** 6) for _ in range(4)]})
    for _ in range(reps * 2):
        r = rng.random()
        if r < 0.1:
            # close to (but not at) a specialised Weyl point: D8 class
            g_ = rng.choice(["rzx", "xx_plus_yy", "xx_minus_yy"])
            th_ = rng.choice([0, math.pi / 2, math.pi, 2 * math.pi]) + rng.choice([-1, 1]) * rng.uniform(1e-6, 8e-5)
            yield ("kak", {"gate": g_, "params": [th_] if g_ == "rzx" else [th_, 0.25]})
        elif r < 0.2:
            # open-control variants (ctrl_state=0; Qiskit names them "<name>_o0"): not in the explicit table, hence the KAK path
            g_ = rng.choice(OPEN)
            yield ("kak", {"gate": "open:" + g_, "params": [gen.rand_angle(rng)] if g_ in FAMS else []})
        elif r < 0.3:
            yield ("kak", {"gate": "rzx", "params": [gen.rand_angle(rng)]})
        elif r < 0.5:
            yield ("kak", {"gate": rng.choice(["xx_plus_yy", "xx_minus_yy"]), "params": [gen.rand_angle(rng), rng.uniform(-3, 3)]})
        elif r < 0.75:
            yield ("kak", {"gate": "unitary", "params": [rng.randrange(10 ** 6), 2]})
        else:
            q = math.pi / 4
            corner = rng.choice([(0, 0, 0), (q, 0, 0), (q, q, 0), (q, q, q), (q, q, -q), (q / 2, 0, 0), (q, q / 2, 0), (q, q, q / 2),
                                 (q / 2, q / 2, q / 2), (q / 3, q / 5, q / 7)])
            if rng.random() < 0.5:
                corner = tuple(x + rng.uniform(-4e-5, 4e-5) for x in corner)
            yield ("kak", {"gate": "weyl", "params": list(corner), "seeds": [rng.randrange(10 ** 6) for _ in range(4)]})
    # a basis obtained earlier was edited in place (operations inserted into / appended to its per-qubit lists, as callers do for
    # pre/post rotations); a basis requested afterwards must be untouched by that
    edits = [("move", [], "move", []), ("cx", [], "cz", []), ("rzz", [0.7], "rzz", [0.7]), ("swap", [], "iswap", []), ("cs", [], "csdg", []),
             ("crx", [1.1], "cry", [1.1]), ("move", [], "cx", []), ("ecr", [], "ecr", [])]
    # (every pair, whatever the seed; both sides and both ends of the lists are covered across the pairs, and for the Move pair explicitly)
    for k, (g1, p1, g2, p2) in enumerate(edits + [("move", [], "move", [])] * 3):
        yield ("gate", {"gate": g2, "params": p2, "always_oracle": True,
                        "edit_first": {"gate": g1, "params": p1, "side": k % 2, "op": ["s", "h", "x"][k % 3], "front": (k // 2) % 2 == 1}})
    for g1, p1, g2, p2 in (edits * 2 if tier != "quick" else []):
        yield ("gate", {"gate": g2, "params": p2, "edit_first": {"gate": g1, "params": p1, "side": rng.randrange(2),
                                                                   "op": rng.choice(["s", "h", "x"]), "front": rng.random() < 0.5}})
    # gates that went through serialisation (equal name strings are then not the interned literals)
    for name, ps in (("crz", [0.7]), ("crx", [1.3]), ("cry", [2.1]), ("cp", [0.9]), ("rzz", [0.4]), ("cs", []), ("csdg", []), ("cx", []), ("swap", [])):
        yield ("gate", {"gate": name, "params": ps, "pickled": True})
    for bad in ["h", "ccx", "unbound_rzz", "unbound_cp", "opaque2q", "measure", "barrier2", "unbound_unitary_like",
                "mcphase2", "mcphase3", "mcu1_2", "phase_ctrl2"]:
        yield ("refuse", {"gate": bad})
    # wrapped two-qubit operations (lazy inverse / power annotations, a gate inside a one-instruction definition): the package may refuse them
    # or support them, but a basis it hands out must decompose the instruction it was asked for, not the operation inside the wrapper
    for wrapped in ["annot_inv:dcx", "annot_inv:rzz", "annot_inv:cs", "annot_inv:iswap", "annot_pow3:rxx", "annot_powhalf:cz", "annot_inv:crz",
                    "annot_inv:cx"]:
        yield ("refuse", {"gate": wrapped, "or_exact": True, "always_oracle": True})


def _gate(payload):
    from qiskit.circuit import Parameter, Instruction, Measure, Barrier, Gate
    from qiskit.circuit.library import RZZGate, CPhaseGate, UnitaryGate
    from qiskit.quantum_info import random_unitary
    n = payload["gate"]
    if n == "csxdg":
        return canon.mk_op("csxdg")
    if n.startswith("open:"):
        base = canon.mk_op(n[5:], payload.get("params", ()))
        g = base.to_mutable() if hasattr(base, "to_mutable") else base.copy()
        g.ctrl_state = 0
        assert g.name.endswith("_o0"), g.name
        return g
    if n == "weyl":
        import scipy.linalg as la
        from ..oracles.channel import PAULI
        a, b, c = payload["params"]
        XX, YY, ZZ = (np.kron(PAULI[k], PAULI[k]) for k in (1, 2, 3))
        U = la.expm(1j * (a * XX + b * YY + c * ZZ))
        s = payload["seeds"]
        L = np.kron(random_unitary(2, seed=s[0]).data, random_unitary(2, seed=s[1]).data)
        R = np.kron(random_unitary(2, seed=s[2]).data, random_unitary(2, seed=s[3]).data)
        return UnitaryGate(L @ U @ R)
    if n in ("mcphase2", "mcphase3", "mcu1_2", "phase_ctrl2"):
        # phase gates with two or three controls: three/four-qubit instructions that share their name with nothing cuttable
        from qiskit.circuit.library import MCPhaseGate, PhaseGate
        if n == "phase_ctrl2":
            return PhaseGate(0.7).control(2)
        if n == "mcu1_2":
            try:
                from qiskit.circuit.library import MCU1Gate
                return MCU1Gate(0.7, 2)
            except Exception:
                return MCPhaseGate(0.7, 2)
        return MCPhaseGate(0.7, 2 if n == "mcphase2" else 3)
    if n.startswith("box"):
        return _box(payload)
    if n.startswith("userdef:"):
        return _userdef(payload)
    if n.startswith("near:"):
        return _near(payload)
    if n.startswith("angle_form:"):
        return _lib_cls(n.split(":")[1])(_angle_param(payload["form"], payload["params"][0]))
    if n.startswith("annot_"):
        from qiskit.circuit import AnnotatedOperation, InverseModifier, PowerModifier
        how, base = n.split(":")
        g0 = canon.mk_op(base, {"rzz": [0.4], "rxx": [0.4], "crz": [0.9]}.get(base, ()))
        mod = {"annot_inv": InverseModifier(), "annot_pow3": PowerModifier(3), "annot_powhalf": PowerModifier(0.5)}[how]
        return AnnotatedOperation(g0, mod)
    if n == "unbound_rzz":
        return RZZGate(Parameter("t"))
    if n == "unbound_cp":
        return CPhaseGate(Parameter("t"))
    if n == "opaque2q":
        return Instruction("opaque", 2, 0, [])
    if n == "unbound_unitary_like":
        return Gate("mygate", 2, [Parameter("a")])
    if n == "measure":
        return Measure()
    if n == "barrier2":
        return Barrier(2)
    g = canon.mk_op(n, payload.get("params", ()))
    if payload.get("pickled"):
        import pickle
        g = pickle.loads(pickle.dumps(g))
    return g


def _lib_cls(name):
    from qiskit.circuit import library as L
    return {"rxx": L.RXXGate, "ryy": L.RYYGate, "rzz": L.RZZGate, "crx": L.CRXGate, "cry": L.CRYGate, "crz": L.CRZGate, "cp": L.CPhaseGate}[name]


def _angle_param(form, v):
    """the reference angle v (a real number) in the requested form; the forms of NONREAL_FORMS give a value that is not real"""
    from qiskit.circuit import Parameter
    p = Parameter("p")
    if form == "int":
        assert int(v) == v
        return int(v)
    if form == "np64":
        return np.float64(v)
    if form == "bound":
        return (2 * p).bind({p: v / 2})
    if form == "cplxreal":
        return (p * 1j * -1j).bind({p: v})
    if form == "plus0j":
        return (-p + 0j).bind({p: -v})
    if form == "imag":
        return (p * 1j).bind({p: v})
    if form == "cplx":
        return (p * (1 + 0.05j)).bind({p: v})
    if form == "shift":
        return (p + 0.4j).bind({p: v})
    raise KeyError(form)


def _userdef(payload):
    """a gate with a registered name that is not the library object of that name (see USERDEF_QASM)"""
    from qiskit import QuantumCircuit, qasm2
    from qiskit.circuit import Gate, ControlledGate
    from qiskit.quantum_info import Operator
    name = payload["gate"].split(":")[1]
    ps = [float(x) for x in payload.get("params", ())]
    lib = canon.mk_op(name, ps)
    if payload["how"] == "qasm":
        call = name + ("(" + ",".join(repr(x) for x in ps) + ")" if ps else "") + " q[0],q[1];\n"
        g = qasm2.loads(USERDEF_QASM + call).data[0].operation
    else:
        g = Gate(name, 2, list(ps))
        qc = QuantumCircuit(2)
        qc.append(lib, [0, 1])
        g.definition = qc
    # sanity of the input itself (independent of the package): right name, right angle, the gate of that name, not the library class
    assert g.name == name and [float(x) for x in g.params] == ps and not isinstance(g, (ControlledGate, type(lib))), payload
    assert Operator(g).equiv(Operator(lib)), payload
    return g


def _near(payload):
    """UnitaryGate(e^{i phase} G R) or (e^{i phase} R G): R a rotation by the small angle eps, G a gate with an explicit basis"""
    from qiskit.circuit.library import UnitaryGate
    from qiskit.quantum_info import Operator
    G = Operator(canon.mk_op(payload["gate"].split(":")[1], payload.get("params", ()))).data
    e, I2 = float(payload["eps"]), np.eye(2)
    one = lambda nm, a: Operator(canon.mk_op(nm, [a])).data
    rot = payload["rot"]
    if rot in ("rzz", "rxx", "ryy", "rzx"):
        R = one(rot, e)
    elif rot == "ry1rz0":
        R = np.kron(one("ry", e), one("rz", -2 * e))
    else:
        R = np.kron(one(rot[:2], e), I2) if rot[2] == "1" else np.kron(I2, one(rot[:2], e))
    U = R @ G if payload.get("left") else G @ R
    return UnitaryGate(np.exp(1j * float(payload.get("phase", 0.0))) * U)


def _box(payload):
    """a composite gate (no to_matrix of its own) around one two-qubit gate"""
    from qiskit import QuantumCircuit
    n = payload["gate"]
    how, _, inner_name = n.partition(":")
    ps = payload.get("params", ())
    if how == "box_mcphase1":
        from qiskit.circuit.library import MCPhaseGate
        return MCPhaseGate(ps[0], 1)
    inner = canon.mk_op(inner_name, ps)
    if how == "box_repeat1":
        return inner.repeat(1)
    if how == "box_outer_rev":
        qc = QuantumCircuit(2)
        qc.append(inner, [0, 1])
        out = QuantumCircuit(2)
        out.append(qc.to_gate(), [1, 0])
        return out.to_gate()
    qc = QuantumCircuit(2)
    if how == "box_two":
        qc.h(0)
    if how == "box_phase":
        qc.global_phase = 0.3
    qc.append(inner, list(payload.get("order", [0, 1])))
    g = qc.to_gate()
    for _ in range(int(payload.get("depth", 1)) - 1):
        qc = QuantumCircuit(2)
        qc.append(g, [0, 1])
        g = qc.to_gate()
    return g


def _wrapped_target(payload, g):
    """4x4 unitary of the instruction a wrapped / re-expressed case asks for, computed without the package; None when the instruction has
    no unitary at all (an angle that is not real), i.e. when there is nothing a basis could decompose"""
    from qiskit.quantum_info import Operator
    if payload["gate"].startswith("angle_form:"):
        if payload["form"] in NONREAL_FORMS:
            return None
        return Operator(canon.mk_op(payload["gate"].split(":")[1], [float(payload["params"][0])])).data
    return Operator(g).data


def _env(kind, payload, gate=None):
    r = math.sqrt(0.5)
    if kind == "gate":
        if payload["gate"] in FAMS:
            tp = _theta_prime(payload["gate"], payload["params"][0])
            return [math.cos(tp), math.sin(tp), r]
        return [1.0, 0.0, r]
    if kind == "kak":
        u = _u_of(gate)
        return [1.0, 0.0, r] + [x for z in u for x in (float(z.real), float(z.imag))]
    return [1.0, 0.0, r]


def _weyl(gate):
    from qiskit.synthesis import TwoQubitWeylDecomposition
    return TwoQubitWeylDecomposition(gate.to_matrix(), fidelity=None)


def _u_of(gate):
    """coefficient vector of exp(i(aXX+bYY+cZZ)) in the basis II,XX,YY,ZZ — computed independently of the package"""
    import scipy.linalg as la
    from ..oracles.channel import PAULI
    d = _weyl(gate)
    XX, YY, ZZ = (np.kron(PAULI[k], PAULI[k]) for k in (1, 2, 3))
    U = la.expm(1j * (d.a * XX + d.b * YY + d.c * ZZ))
    return [np.trace(np.kron(PAULI[k], PAULI[k]) @ U) / 4 for k in range(4)]


def model_line(kind, payload):
    if kind == "refuse":
        return {"op": "c02.basis", "gate": "unsupported:" + payload["gate"], "env": [1.0, 0.0, math.sqrt(0.5)]}
    g = _gate(payload)
    return {"op": "c02.basis", "gate": "kak" if kind == "kak" else payload["gate"], "env": _env(kind, payload, g)}


def _canon_maps(maps, strip):
    from ..oracles.channel import ptm_op
    out = []
    for m in maps:
        sides = []
        for side in m:
            ops = list(side)
            if strip:
                ops = ops[1:-1]
            sides.append([{"name": op.name, "ptm": ptm_op(op).tolist()} for op in ops])
        out.append(sides)
    return out


def _edit_first(payload):
    """obtain a basis for another (or the same) gate and edit its per-qubit operation lists in place"""
    from qiskit_addon_cutting.qpd import QPDBasis
    e = payload.get("edit_first")
    if not e:
        return
    b1 = QPDBasis.from_instruction(_gate({"gate": e["gate"], "params": e["params"]}))
    seen = set()
    for m in b1.maps:
        side = m[e["side"]]
        if isinstance(side, list) and id(side) not in seen:
            seen.add(id(side))
            op = canon.mk_op(e["op"])
            side.insert(0, op) if e["front"] else side.append(op)


def run_real(kind, payload):
    from qiskit_addon_cutting.qpd import QPDBasis
    from ..oracles import channel
    g = _gate(payload)
    _edit_first(payload)
    b = QPDBasis.from_instruction(g)
    if kind == "refuse":
        if payload.get("or_exact"):
            U = _wrapped_target(payload, g)
            if U is None:
                return {"ok": "basis produced for an instruction that has no unitary (its angle is not real)"}
            err = float(np.abs(channel.basis_ptm(b) - channel.ptm2_kraus([U])).max())
            if err <= 1e-7:
                return {"error": "ValueError", "note": "supported and exact"}  # as good as a refusal for this clause
            return {"ok": f"basis produced that is not exact for the wrapped instruction (error {err:.3e})"}
        return {"ok": "basis produced"}
    res = {"coeffs": [float(c) for c in b.coeffs], "kappa": float(b.kappa), "maps": _canon_maps(b.maps, kind == "kak")}
    if kind == "kak":
        import scipy.linalg as la
        d = _weyl(g)
        XX, YY, ZZ = (np.kron(channel.PAULI[k], channel.PAULI[k]) for k in (1, 2, 3))
        res["target"] = channel.ptm2_kraus([la.expm(1j * (d.a * XX + d.b * YY + d.c * ZZ))]).tolist()
        # dressing: first/last operation of every list are the local unitaries of the Weyl decomposition
        ok = True
        for m in b.maps:
            for side, (k2, k1) in zip(m, ((d.K2r, d.K1r), (d.K2l, d.K1l))):
                if len(side) < 2 or side[0].name != "unitary" or side[-1].name != "unitary":
                    ok = False
                elif not (np.allclose(side[0].to_matrix(), k2) and np.allclose(side[-1].to_matrix(), k1)):
                    ok = False
        res["dressing_ok"] = ok
        res["dressed_error"] = float(np.abs(channel.basis_ptm(b) - channel.ptm2_gate(g)).max())
    else:
        res["target"] = channel.ptm2_gate(g).tolist()
    return {"ok": res}


def model_canon(kind, payload, out):
    if "driver_error" in out:
        raise RuntimeError(out["driver_error"])
    if "error" in out:
        return out
    o = out["ok"]
    return {"ok": {"coeffs": [c / SC for c in o["coeffs"]], "kappa": o["kappa"] / SC,
                   "target": [[x / SC for x in row] for row in o["target"]],
                   "maps": [[[{"name": op["name"], "ptm": [[x / SC for x in row] for row in op["ptm"]]} for op in side] for side in m]
                            for m in o["maps"]]}}


def compare(kind, payload, real, model):
    if "error" in real or "error" in model:
        if kind == "refuse":
            return None if real.get("error") == "ValueError" and model.get("error") == "ValueError" else f"real={real} model={model}"
        return None if real == model else f"real={str(real)[:200]} model={str(model)[:200]}"
    if kind == "refuse":
        return f"unsupported instruction {payload['gate']} produced a basis"
    r, m = real["ok"], model["ok"]
    if len(r["maps"]) != len(m["maps"]) or len(r["coeffs"]) != len(m["coeffs"]):
        return f"{len(r['maps'])} maps / {len(r['coeffs'])} coeffs, model {len(m['maps'])} / {len(m['coeffs'])}"
    for i, (cr, cm) in enumerate(zip(r["coeffs"], m["coeffs"])):
        if abs(cr - cm) > TOL:
            return f"coefficient {i}: real {cr} model {cm}"
    if abs(r["kappa"] - m["kappa"]) > TOL:
        return f"kappa: real {r['kappa']} model {m['kappa']}"
    for i, (mr, mm) in enumerate(zip(r["maps"], m["maps"])):
        for s in (0, 1):
            nr, nm = [o["name"] for o in mr[s]], [o["name"] for o in mm[s]]
            if nr != nm:
                return f"map {i} side {s}: operations {nr}, model {nm}"
            for k, (a, b) in enumerate(zip(mr[s], mm[s])):
                if np.abs(np.array(a["ptm"]) - np.array(b["ptm"])).max() > TOL:
                    return f"map {i} side {s} op {k} ({a['name']}): transfer matrix differs from the model's gate table"
    if np.abs(np.array(r["target"]) - np.array(m["target"])).max() > TOL:
        return "target transfer matrix (Qiskit Operator) differs from the model's gate table"
    if kind == "kak":
        if not r["dressing_ok"]:
            return "KAK dressing is not (K2r..K1r | K2l..K1l)"
        if r["dressed_error"] > 1e-7:
            return f"dressed KAK basis is not exact: error {r['dressed_error']}"
    return None


def describe(kind, payload):
    return {"gate": payload["gate"]}


def nontrivial_key(kind, payload):
    if kind == "refuse":
        return None
    return hash(json.dumps(payload, sort_keys=True))


def oracle(kind, payload):
    from ..oracles import channel
    from qiskit_addon_cutting.qpd import QPDBasis
    g = _gate(payload)
    if kind == "refuse" and payload.get("or_exact"):
        from qiskit.quantum_info import Operator
        try:
            b = QPDBasis.from_instruction(g)
        except ValueError:
            return None
        except Exception as ex:
            return f"wrapped instruction {payload['gate']} raised {type(ex).__name__} instead of ValueError"
        what = {k: payload[k] for k in ("gate", "params", "order", "depth", "form", "how") if k in payload}
        U = _wrapped_target(payload, g)
        if U is None:
            return (f"instruction {what} has an angle that is not real ({g.params[0]}), so it has no unitary and cannot be decomposed, "
                    f"yet it was not refused: a basis with {len(b.maps)} maps was handed out")
        err = float(np.abs(channel.basis_ptm(b) - channel.ptm2_kraus([U])).max())
        return None if err <= 1e-7 else (f"the basis handed out for the wrapped instruction {what if len(what) > 1 else payload['gate']} is not an exact "
                                         f"decomposition of it: max transfer-matrix error {err:.3e}")
    if kind == "refuse":
        try:
            QPDBasis.from_instruction(g)
        except ValueError:
            return None
        except Exception as ex:
            return f"unsupported instruction {payload['gate']} raised {type(ex).__name__} instead of ValueError"
        return f"unsupported instruction {payload['gate']} yielded a basis"
    try:
        _edit_first(payload)
        err, b = channel.exactness_error(g)
    except Exception as ex:
        return f"supported instruction {payload['gate']}{payload.get('params')} raised {type(ex).__name__}: {ex}"
    if err > 1e-7:
        more = "".join(f" {k}={payload[k]}" for k in ("rot", "eps", "left", "phase") if k in payload)
        return f"basis of {payload['gate']}{payload.get('params')}{more} is not an exact decomposition: max transfer-matrix error {err:.3e}"
    return None


def search_cases(rng, tier):
    yield from cases(rng, "thorough")
