"""C04 — joint weights are exact above threshold, normalised, and unbiased in the tail."""
from __future__ import annotations

import itertools
import json
import math
import random
import numpy as np
from fractions import Fraction

from ..core import frac, call_real

ID = "C04"
LEAN_MODULE = "CKT.Props.C04Gen"
THEOREMS = [
    # the scalar arithmetic of the model is the translated source (harness/translate/weights.py -> Generated/WeightArith.lean)
    "CKT.C04Gen.generateWeights_translated", "CKT.C04Gen.generateWeights_infinite",
    "CKT.C04.infinite_budget", "CKT.C04.mem_allExact", "CKT.C04.allExact_no_zero", "CKT.C04.refuses_small_budget",
    "CKT.C04.visited_ge", "CKT.C04.dfs_full_ge", "CKT.C04.mem_visited", "CKT.C04.dfs_complete",
    "CKT.C04.exact_weight_ge_one", "CKT.C04.ceilRat_eq", "CKT.C04.count_bound", "CKT.C04.counter_length_le",
    # T04.3 mass balance (Props/C04Mass): exact mass + residual mass of the conditional tables = node probability, at every node
    "CKT.C04.zeroSmall_zero", "CKT.C04.finish_mass", "CKT.C04.visited_eq", "CKT.C04.sum_weighted_split", "CKT.C04.dfs_mass",
    "CKT.C04.genSorted_mass", "CKT.C04.sortPerm_perm", "CKT.C04.applyPerm_sum", "CKT.C04.genUnsorted_mass", "CKT.C04.top_table",
    "CKT.C04.exact_plus_tail",
    # T04.4 unbiased tail (Props/C04Law, C04LawU): the law of the recursive sampler through the yielded tables, at every node and at the top
    # level, in sorted order and — through the permutation wrapper — in caller order
    "CKT.C04.law_congr", "CKT.C04.dfs_keys", "CKT.C04.find_restrict", "CKT.C04.node_law", "CKT.C04.dfs_none_nil", "CKT.C04.dfs_law",
    "CKT.C04.genSorted_law", "CKT.C04.law_normTop_top", "CKT.C04.tail_unbiased",
    "CKT.C04.relab_inj", "CKT.C04.probOf_relab", "CKT.C04.unPerm_getD", "CKT.C04.dfs_valid", "CKT.C04.genUnsorted_eq", "CKT.C04.find_relab",
    "CKT.C04.lawU_eq", "CKT.C04.relab_unrelab", "CKT.C04.genUnsorted_law", "CKT.C04.tail_unbiased_caller_order",
    # the sampler hands back as many samples as requested, and in every branch the weights add up to N (Props/C04Pop); the hypothesis
    # `samplerOK` (every oracle answer has the requested size) is evaluated by the driver for every case and must be true
    "CKT.C04.counter_sum", "CKT.C04.populate_count", "CKT.C04.top_find", "CKT.C04.unPerm_sum", "CKT.C04.wts0_unsorted",
    "CKT.C04.generateWeights_some", "CKT.C04.samplerOK_some", "CKT.C04.mass_split", "CKT.C04.sum_productIdx", "CKT.C04.allExact_sum",
    "CKT.C04.generateWeights_total",
]
RULE = ("1-4 probability vectors with 1-8 (thorough: up to 58) entries each: dyadic synthetic vectors (zeros, ties, near-zero entries; float arithmetic "
        "exact) and real gate bases; budgets N in [1, 1e6] integer / fractional / infinity; numpy.random.choice replaced by a scripted oracle whose "
        "draws are sent to the model; sorted-generator yield sequences compared directly; non-trivial = at least two vectors or a sampled tail; distinct by payload")
ASSUMPTIONS = ["numpy.random.choice(n, size, p) = size i.i.d. draws from p that never return an index of probability 0 (scripted in the harness; p is validated like numpy does)",
               "numpy argsort tie order only influences the order of tied yields, never a value: results are compared as mappings",
               "float arithmetic is exact on dyadic inputs for EXACT weights; SAMPLED weights and conditional tables compared to 1e-12 relative"]
ATOL = Fraction(1, 10 ** 14)
_cache = {}


def _dyadic_row(rng, n, denom_bits):
    """n non-negative dyadic numbers summing to 1 (zeros and ties likely)."""
    D = 1 << denom_bits
    cuts = sorted(rng.randrange(D + 1) for _ in range(n - 1))
    parts = [b - a for a, b in zip([0] + cuts, cuts + [D])]
    rng.shuffle(parts)
    return [Fraction(p, D) for p in parts]


SMALL_LAWS = [([[4, 4], [4, 4]], 3), ([[6, 2], [4, 2, 2]], 2), ([[7, 1], [4, 4], [4, 4]], 30), ([[4, 4], [4, 2, 2]], "5/2"),
              ([[5, 3], [6, 2]], 4), ([[4, 2, 2], [4, 2, 2]], 3), ([[6, 1, 1], [4, 4]], 2), ([[4, 4], [4, 4], [4, 4]], 2)]


def regenerate():
    """the scalar arithmetic of _generate_qpd_weights, translated on every run"""
    from ..translate import weights
    from ..core import REPO, LEAN
    weights.regenerate(REPO, LEAN)


def cases(rng, tier):
    N = 150 if tier == "quick" else 3000
    big = tier == "thorough"
    # small cases whose complete output law is enumerated by the oracle (several samples drawn at once for several bases)
    for rows8, n_ in SMALL_LAWS:
        yield ("weights", {"rows": [[frac(Fraction(x, 8)) for x in r] for r in rows8], "N": frac(Fraction(n_)), "seed": rng.randrange(1 << 30),
                           "always_oracle": True})
    # budgets at which N·w and w/(1/N) round differently in double precision (49, 98, 103, ...): the number of samples requested from the
    # sampler is ceil of the former; nothing exact (every joint probability is below 1/N), and a mixed case
    for n_ in (49, 98, 103, 107, 196, 197, 206, 214):
        yield ("weights", {"rows": [[frac(Fraction(1, 8))] * 8] * 3, "N": frac(Fraction(n_)), "seed": rng.randrange(1 << 30), "always_oracle": n_ == 49})
    yield ("weights", {"rows": [[frac(Fraction(x, 64)) for x in (40, 8, 8, 8)], [frac(Fraction(1, 8))] * 8, [frac(Fraction(1, 8))] * 8], "N": frac(Fraction(49)),
                       "seed": rng.randrange(1 << 30)})
    # probabilities that differ by less than 1e-12 (2^-42) around the threshold 1/N: the larger one is at least 1/N and exact, the smaller one is
    # sampled (dyadic and multiplied only by powers of two, so the float products are exact); listed larger-first, smaller-first, alone and as the second / first of two vectors
    e = Fraction(1, 2 ** 42)
    near = [Fraction(1, 2), Fraction(1, 4) + e, Fraction(1, 4) - e]
    for rows_, n_ in (([near], 4), ([[near[0], near[2], near[1]]], 4), ([[Fraction(1, 2), Fraction(1, 2)], near], 8), ([near, [Fraction(1, 2), Fraction(1, 2)]], 8),
                      ([[near[2], near[1], near[0]]], 4), ([[Fraction(1, 4) + e, Fraction(1, 4), Fraction(1, 4), Fraction(1, 4) - e]], 4)):
        yield ("weights", {"rows": [[frac(x) for x in r] for r in rows_], "N": frac(Fraction(n_)), "seed": rng.randrange(1 << 30), "always_oracle": True})
    # entries between the 1e-14 cut-off and 1e-8 next to large ones, small budgets: they are below 1/N and must not become entries of their own
    t = Fraction(1, 2 ** 30)
    for rows_, n_ in (([[Fraction(9, 16), Fraction(7, 16) - 2 * t, t, t]], Fraction(5, 2)),
                      ([[Fraction(1, 2), Fraction(1, 2) - t, t], [Fraction(3, 4), Fraction(1, 4)]], Fraction(11, 2)),
                      ([[Fraction(1, 2) - t, Fraction(1, 2), t]], Fraction(2)),
                      ([[Fraction(5, 8), Fraction(3, 8) - 3 * t, t, t, t]], Fraction(3))):
        yield ("weights", {"rows": [[frac(x) for x in r] for r in rows_], "N": frac(n_), "seed": rng.randrange(1 << 30), "approx": True, "always_oracle": True})
    # one basis object repeated by identity (`[basis] * L`): the joint minimum is the L-th power of the basis minimum; budgets inside, at and
    # outside the window between the basis minimum and the joint minimum
    for row8, L_, n_ in (([4, 2, 2], 2, 8), ([4, 2, 2], 2, 4), ([4, 2, 2], 2, 16), ([4, 2, 2], 3, 20), ([4, 4], 3, 5), ([2, 2, 2, 2], 2, 6), ([6, 1, 1], 2, 30)):
        yield ("weights", {"rows": [[frac(Fraction(x, 8)) for x in row8]] * L_, "signs": [[1] * len(row8)] * L_, "old": [None] * L_, "bases": True,
                           "same_object": True, "N": frac(Fraction(n_)), "seed": rng.randrange(1 << 30), "always_oracle": True})
    for _ in range(N):
        L = rng.randint(1, 4)
        rows = []
        for _ in range(L):
            n = rng.choice([1, 2, 3, 4, 6, 8] + ([16, 58] if big and L <= 2 else []))
            rows.append(_dyadic_row(rng, n, rng.choice([3, 4, 6])))
        r = rng.random()
        if r < 0.15:
            Nv = None
        elif r < 0.6:
            Nv = Fraction(rng.choice([1, 2, 3, 5, 8, 17, 49, 64, 100, 103, 1000, 5000, 10 ** 6]))
        else:
            Nv = Fraction(rng.randint(8, 8000), 8)
        if rng.random() < 0.04:
            Nv = Fraction(rng.choice([0, 1, 7]), 8)  # below one: refused
        yield ("weights", {"rows": [[frac(x) for x in r_] for r_ in rows], "N": None if Nv is None else frac(Nv), "seed": rng.randrange(1 << 30)})
    for _ in range(N // 2):
        L = rng.randint(1, 4)
        rows = [sorted(_dyadic_row(rng, rng.choice([1, 2, 3, 4, 6]), rng.choice([3, 4, 6])), reverse=True) for _ in range(L)]
        thr = Fraction(1, rng.choice([1, 2, 3, 4, 7, 16, 50, 64, 300, 4096]))
        yield ("gen_sorted", {"rows": [[frac(x) for x in r_] for r_ in rows], "thr": frac(thr)})
    # the public function on basis objects; half of them after a history (probabilities read, coefficients re-assigned)
    for _ in range(N // 4):
        L = rng.randint(1, 3)
        rows, signs, olds = [], [], []
        for _ in range(L):
            n = rng.choice([2, 3, 4, 6])
            row = _dyadic_row(rng, n, rng.choice([3, 4, 6]))
            rows.append(row)
            signs.append([rng.choice([1, -1]) for _ in row])
            olds.append([frac(x) for x in _dyadic_row(rng, n, 4)] if rng.random() < 0.5 else None)
        Nv = rng.choice([None, Fraction(2), Fraction(5), Fraction(17), Fraction(64), Fraction(1000), Fraction(rng.randint(8, 800), 8)])
        yield ("weights", {"rows": [[frac(x) for x in r_] for r_ in rows], "signs": signs, "old": olds, "bases": True,
                           "N": None if Nv is None else frac(Nv), "seed": rng.randrange(1 << 30), "rejected": rng.random() < 0.4})
    # small but not negligible tails: total tail mass between the 1e-14 cut-off and 1e-8
    for _ in range(N // 8):
        rows = []
        for _ in range(rng.randint(1, 2)):
            k = rng.randint(2, 4)
            tiny = [Fraction(1, 2 ** rng.choice([28, 30, 33, 36, 40]))] * rng.randint(1, 2)
            base = _dyadic_row(rng, k, 3)
            while min(base) == 0:
                base = _dyadic_row(rng, k, 3)
            row = base + tiny
            row[row.index(max(row))] -= sum(tiny)
            rng.shuffle(row)
            rows.append(row)
        yield ("weights", {"rows": [[frac(x) for x in r_] for r_ in rows], "N": frac(Fraction(rng.choice([64, 1024, 2 ** 17, 10 ** 5, 10 ** 6]))),
                           "seed": rng.randrange(1 << 30), "approx": True})
    # tiny tails: entries below the 1e-14 cut-off (the D5 input class)
    for _ in range(N // 10):
        rows = []
        for _ in range(rng.randint(1, 3)):
            k = rng.randint(2, 5)
            tiny = [Fraction(1, 2 ** rng.choice([46, 46, 50]))] * rng.randint(1, 2)
            base = _dyadic_row(rng, k, 4)
            base[0] = base[0] - sum(tiny) if base[0] > sum(tiny) else base[0]
            row = base + tiny
            s = sum(row)
            row[row.index(max(row))] += 1 - s
            rng.shuffle(row)
            rows.append(row)
        yield ("weights", {"rows": [[frac(x) for x in r_] for r_ in rows], "N": frac(Fraction(rng.choice([3, 17, 1000, 10 ** 6]))), "seed": rng.randrange(1 << 30), "approx": True})
    # the D5 class proper: one vector is (almost) a point mass plus an entry just above the cut-off, the other has no entry near 1
    for _ in range(max(4, N // 10)):
        t = Fraction(1, 2 ** 46)
        a = [Fraction(0), 1 - t, t, Fraction(0)][: rng.randint(2, 4)]
        a[1] = 1 - sum(a) + a[1]
        k = rng.randint(2, 4)
        b = _dyadic_row(rng, k, 2)
        while max(b) > Fraction(1, 2) + Fraction(1, 8) or min(b) == 0:
            b = _dyadic_row(rng, k, 3)
        rows = [b, a] if rng.random() < 0.5 else [a, b]
        yield ("weights", {"rows": [[frac(x) for x in r_] for r_ in rows], "N": frac(Fraction(rng.choice([9, 17, 33, 1000]))), "seed": rng.randrange(1 << 30), "approx": True})


class ScriptedChoice:
    """Stand-in for numpy.random.choice: validates p like numpy, draws from its own PRNG, logs every call."""

    def __init__(self, seed, forced=None):
        self.rng = random.Random(seed)
        self.calls = []
        self.forced = forced  # optional list of outcomes, one per call (all draws of a call take that value)

    def __call__(self, a, size=None, replace=True, p=None):
        n = len(a) if hasattr(a, "__len__") else int(a)
        p = np.asarray(p, dtype=float)
        if len(p) != n or np.any(p < 0) or np.any(np.isnan(p)) or abs(p.sum() - 1) > 1e-8:
            raise ValueError("probabilities do not sum to 1 / invalid")
        k = len(self.calls)
        if self.forced is not None and k < len(self.forced):
            fk = self.forced[k]
            out = list(fk) if isinstance(fk, (list, tuple)) else [fk] * int(size)
            assert len(out) == int(size)
        else:
            support = [i for i in range(n) if p[i] > 0]
            cum = np.cumsum(p)
            out = []
            for _ in range(int(size)):
                u = self.rng.random()
                i = int(np.searchsorted(cum, u, side="right"))
                i = min(i, n - 1)
                if p[i] <= 0:
                    i = support[-1]
                out.append(i)
        self.calls.append({"n": n, "size": int(size), "p": p.copy(), "out": out})
        return np.array(out, dtype=int)


def _run_weights(payload, forced=None):
    from qiskit_addon_cutting.qpd import weights as W
    rows = [np.array([float(Fraction(x)) for x in r]) for r in payload["rows"]]
    Nv = math.inf if payload["N"] is None else float(Fraction(payload["N"]))
    sc = ScriptedChoice(payload["seed"], forced)
    bases = None
    if payload.get("bases"):
        # the public entry point on QPDBasis objects, possibly after a history: probabilities read, then coefficients re-assigned
        from qiskit_addon_cutting.qpd import QPDBasis, generate_qpd_weights
        from qiskit.circuit.library import XGate
        bases = []
        for r, sg, first in zip(payload["rows"], payload["signs"], payload["old"]):
            final = [float(Fraction(x)) * s_ for x, s_ in zip(r, sg)]
            maps = [([XGate()],) for _ in final]
            if first is not None:
                b = QPDBasis(maps, [float(Fraction(x)) for x in first])
                _ = (list(b.probabilities), b.kappa, b.overhead)
                generate_qpd_weights([b], math.inf)
                b.coeffs = final
            else:
                b = QPDBasis(maps, final)
            if payload.get("rejected"):
                # a refused assignment (wrong length) must leave the object as it was
                for bad in ([0.5] * (len(final) + 1), [2.5] * max(0, len(final) - 1)):
                    try:
                        b.coeffs = bad
                    except ValueError:
                        pass
            bases.append(b)
        if payload.get("same_object"):
            # one and the same basis object at every position (all rows equal): `[basis] * L`, as a caller that re-uses a decomposition writes it
            bases = [bases[0]] * len(bases)
    old = np.random.choice
    np.random.choice = sc
    try:
        if bases is not None:
            out = W.generate_qpd_weights(bases, Nv)
        else:
            out = W._generate_qpd_weights(rows, Nv)
    finally:
        np.random.choice = old
    return out, sc


def _key(payload):
    return json.dumps(payload, sort_keys=True)


def model_line(kind, payload):
    if kind == "gen_sorted":
        return {"op": "c04.gen_sorted", "rows": payload["rows"], "thr": payload["thr"], "atol": frac(ATOL)}
    real = call_real(lambda p: _real_weights(p), payload)
    _cache[_key(payload)] = real
    draws = real.pop("draws", [])
    return {"op": "c04.weights", "rows": payload["rows"], "N": payload["N"], "atol": frac(ATOL), "draws": draws}


def _real_weights(payload):
    out, sc = _run_weights(payload)
    return {"ok": {str([int(i) for i in k]): [frac(v[0]), v[1].name] for k, v in out.items()}, "draws": [c["out"] for c in sc.calls],
            # the probability vector of every sampler call, in call order (compared with the model's `samplerCalls`)
            "calls": [[float(x) for x in c["p"]] for c in sc.calls]}


def run_real(kind, payload):
    from qiskit_addon_cutting.qpd import weights as W
    if kind == "gen_sorted":
        rows = [np.array([float(Fraction(x)) for x in r]) for r in payload["rows"]]
        ys = []
        for s, v in W._generate_exact_weights_and_conditional_probabilities_assume_sorted(rows, float(Fraction(payload["thr"]))):
            if len(s) == len(rows):
                ys.append({"s": [int(i) for i in s], "p": frac(v)})
            else:
                ys.append({"s": [int(i) for i in s], "arr": [float(x) for x in v]})
        return {"ok": ys}
    r = _cache.get(_key(payload))
    if r is None:
        r = _real_weights(payload)
        r.pop("draws", None)
    return r


def model_canon(kind, payload, out):
    if "driver_error" in out:
        raise RuntimeError(out["driver_error"])
    if "error" in out:
        return {"error": out["error"]}
    if kind == "gen_sorted":
        return {"ok": out["ok"]}
    return {"ok": {str(w["key"]): [w["w"], w["ty"]] for w in out["ok"]}, "calls": out.get("calls"), "sampler_ok": out.get("sampler_ok")}


def _close(a, b):
    a, b = Fraction(a), Fraction(b)
    return abs(a - b) <= Fraction(1, 10 ** 12) * max(1, abs(a), abs(b))


def compare(kind, payload, real, model):
    if "error" in real or "error" in model:
        return None if real == model else f"real={real} model={model}"
    if kind == "gen_sorted":
        ra, ma = real["ok"], model["ok"]
        if len(ra) != len(ma):
            return f"{len(ra)} yields vs {len(ma)}: real={json.dumps(ra)[:300]} model={json.dumps(ma)[:300]}"
        for x, y in zip(ra, ma):
            if x["s"] != y["s"] or ("p" in x) != ("p" in y):
                return f"yield mismatch real={x} model={y}"
            if "p" in x:
                if Fraction(x["p"]) != Fraction(y["p"]):
                    return f"exact probability mismatch real={x} model={y}"
            elif len(x["arr"]) != len(y["arr"]) or not all(_close(Fraction(a), b) for a, b in zip(x["arr"], y["arr"])):
                return f"conditional table mismatch real={x} model={y}"
        return None
    if model.get("sampler_ok") is False:
        # hypothesis of `generateWeights_total` / `populate_count`: the scripted sampler answers every call with `size` draws
        return "the draws recorded from the real run are not well formed for the model's sampler (samplerOK = false): the call structure differs"
    rc, mc = real.get("calls"), model.get("calls")
    if rc is not None and mc is not None:
        if [len(c) for c in rc] != [len(c) for c in mc]:
            return f"sampler calls: real {[len(c) for c in rc]} probability vectors, model {[len(c) for c in mc]}"
        tol = 1e-9 if payload.get("approx") else 1e-12
        for k, (a, b) in enumerate(zip(rc, mc)):
            if any(abs(x - float(Fraction(y))) > tol for x, y in zip(a, b)):
                return f"sampler call {k}: real p={a[:8]} model p={[float(Fraction(y)) for y in b][:8]}"
    ra, ma = real["ok"], model["ok"]
    if set(ra) != set(ma):
        return f"key sets differ: only real {sorted(set(ra) - set(ma))[:5]} only model {sorted(set(ma) - set(ra))[:5]}"
    for k in ra:
        if ra[k][1] != ma[k][1]:
            return f"type of {k}: real {ra[k]} model {ma[k]}"
        if ra[k][1] == "EXACT" and not payload.get("approx"):
            if Fraction(ra[k][0]) != Fraction(ma[k][0]):
                return f"exact weight of {k}: real {ra[k]} model {ma[k]}"
        elif not _close(ra[k][0], ma[k][0]):
            return f"weight of {k}: real {ra[k]} model {ma[k]}"
    return None


def _single_leftover(k, ra):
    return False


def describe(kind, payload):
    d = {"L": len(payload["rows"]), "maxlen": max(len(r) for r in payload["rows"])}
    if kind == "weights":
        d["N"] = "inf" if payload["N"] is None else ("<1" if Fraction(payload["N"]) < 1 else ("int" if Fraction(payload["N"]).denominator == 1 else "frac"))
        r = _cache.get(_key(payload))
        if r and "ok" in r:
            tys = {v[1] for v in r["ok"].values()}
            d["result"] = "+".join(sorted(tys)) or "empty"
    return d


def nontrivial_key(kind, payload):
    if len(payload["rows"]) < 2 and kind == "gen_sorted":
        return None
    return hash(_key(payload) + kind)


def _exact_law(payload, rows, Nv, limit=6000):
    """E[weight(map)] over all draws: every possible answer array of every sampler call is enumerated (small cases only).
    Returns {map: expected sampled weight} or None when the enumeration would exceed `limit` runs."""
    from qiskit_addon_cutting.qpd import weights as W
    law, runs = {}, [0]

    def rec(forced, pr):
        if runs[0] > limit:
            return False
        runs[0] += 1
        sc2 = ScriptedChoice(payload["seed"], forced)
        old = np.random.choice
        np.random.choice = sc2
        try:
            o2 = W._generate_qpd_weights([np.array([float(x) for x in r]) for r in rows], float(Nv))
        finally:
            np.random.choice = old
        if len(sc2.calls) > len(forced):
            nxt = sc2.calls[len(forced)]
            support = [i for i in range(nxt["n"]) if nxt["p"][i] > 0]
            if len(support) ** nxt["size"] > limit:
                return False
            for arr in itertools.product(support, repeat=nxt["size"]):
                q = pr
                for i in arr:
                    q *= float(nxt["p"][i])
                if not rec(forced + [list(arr)], q):
                    return False
            return True
        for k, v in o2.items():
            if v[1].name == "SAMPLED":
                kk = tuple(int(i) for i in k)
                law[kk] = law.get(kk, 0.0) + pr * float(v[0])
        return True
    return law if rec([], 1.0) else None


def oracle(kind, payload):
    """The four clauses of C04 checked directly on the real function (joint probabilities recomputed exactly)."""
    if kind != "weights":
        return None
    rows = [[Fraction(x) for x in r] for r in payload["rows"]]
    Nv = None if payload["N"] is None else Fraction(payload["N"])
    if Nv is not None and Nv < 1:
        real = call_real(lambda p: _real_weights(p), payload)
        return None if real.get("error") == "ValueError" else "budget below one not refused"
    try:
        out, sc = _run_weights(payload)
    except Exception as ex:
        return f"_generate_qpd_weights raised {type(ex).__name__}: {ex}"
    joint = {}
    for key in itertools.product(*[range(len(r)) for r in rows]):
        p = Fraction(1)
        for r, i in zip(rows, key):
            p *= r[i]
        joint[key] = p
    res = {tuple(int(i) for i in k): (Fraction(float(v[0])), v[1].name) for k, v in out.items()}
    tol = Fraction(1, 10 ** 9)
    if Nv is None:
        for k, p in joint.items():
            if p > ATOL * 2 and (k not in res or abs(res[k][0] - p) > tol or res[k][1] != "EXACT"):
                return f"infinite budget: map {k} with probability {float(p)} -> {res.get(k)}"
        for k in res:
            if joint[k] == 0:
                return f"zero-probability map {k} included"
        if sc.calls:
            return "the sampler was consulted although the budget is infinite"
        return None
    for k, p in joint.items():
        # "at least 1/N": the boundary p = 1/N is included (on dyadic inputs the float products are exact, so equality is meaningful)
        if p * Nv >= (1 if not payload.get("approx") else 1 + tol):
            if k not in res or res[k][1] != "EXACT" or abs(res[k][0] - p * Nv) > tol * max(1, p * Nv):
                return f"map {k} has probability {float(p)} >= 1/N but got {res.get(k)}"
    for k, (w, ty) in res.items():
        if joint[k] == 0:
            return f"zero-probability map {k} included with weight {float(w)}"
    if len(res) > math.ceil(Nv):
        return f"{len(res)} entries exceed ceil(N) = {math.ceil(Nv)}"
    # the same clause for the least favourable draws: the number of samples requested bounds the number of sampled entries; it must be
    # ceil(N·w) with w the mass of the maps below 1/N (computed here in exact arithmetic), so that #exact + #sampled <= ceil(N)
    if sc.calls and not payload.get("approx") and not payload.get("bases"):
        n_exact = sum(1 for p in joint.values() if p * Nv >= 1)
        w_tail = sum(p for p in joint.values() if p * Nv < 1)
        asked = sc.calls[0]["size"]
        if asked != math.ceil(w_tail * Nv):
            msg = f"the sampler is asked for {asked} samples, ceil(N*w) = {math.ceil(w_tail * Nv)} (N = {float(Nv)}, tail mass {float(w_tail)})"
            if n_exact == 0 and asked <= len(joint):
                # nothing exact: every basis is sampled independently; answer the calls with pairwise different joint draws
                digits, radix = [], [len(r) for r in rows]
                support = [[j for j, x in enumerate(r) if x > 0] for r in rows]
                keys = list(itertools.islice(itertools.product(*support), asked))
                if len(keys) == asked:
                    forced = [[k[b] for k in keys] for b in range(len(rows))]
                    try:
                        out2, _ = _run_weights(payload, forced)
                        if len(out2) > math.ceil(Nv):
                            return msg + f": with pairwise different draws the result has {len(out2)} entries > ceil(N) = {math.ceil(Nv)}"
                    except Exception:
                        pass
            return msg
    dropped = sum(p for p in joint.values() if p <= ATOL * 4)
    total = sum(w for w, _ in res.values())
    if abs(total - Nv) > Fraction(1, 10 ** 12) * Nv + Nv * dropped * 2 + Nv * len(joint) * ATOL * 2:
        return f"weights sum to {float(total)} instead of N = {float(Nv)}"
    # unbiasedness of the tail, exactly: the law of the sampled weights over *all* draws (every answer array of every call)
    if sc.calls and not payload.get("bases") and sum(c["size"] for c in sc.calls) <= 8:
        law = _exact_law(payload, rows, Nv)
        if law is not None:
            for k, p in joint.items():
                is_exact = k in res and res[k][1] == "EXACT"
                exp = 0.0 if is_exact else float(Nv * p)
                got = law.get(k, 0.0)
                if abs(got - exp) > 1e-9 * max(1.0, float(Nv)):
                    return f"expected weight of map {k} over all draws is {got}, should be N*p = {exp}"
    # the same along constant-answer paths (larger cases): P(m) from the conditional tables actually handed to the sampler
    if len(joint) <= 150 and sc.calls:
        L = len(rows)
        law = {}

        def explore(prefix_forced):
            try:
                o2, s2 = _run_weights(payload, forced=prefix_forced + [None])
            except Exception:
                return
        # enumerate paths: a path is a list of outcomes, one per sampler call
        def rec(forced):
            # run with the forced prefix; look at the next call's p to branch
            sc2 = ScriptedChoice(payload["seed"], forced + [0] * 0)
            from qiskit_addon_cutting.qpd import weights as W
            old = np.random.choice
            np.random.choice = sc2
            try:
                rws = [np.array([float(x) for x in r]) for r in rows]
                o2 = W._generate_qpd_weights(rws, float(Nv))
            finally:
                np.random.choice = old
            if len(sc2.calls) > len(forced):
                nxt = sc2.calls[len(forced)]
                for i in range(nxt["n"]):
                    if nxt["p"][i] > 0:
                        rec(forced + [i])
            else:
                pr = 1.0
                for c, f in zip(sc2.calls, forced):
                    pr *= c["p"][f]
                sampled = [tuple(int(i) for i in k) for k, v in o2.items() if v[1].name == "SAMPLED"]
                wsum = sum(float(v[0]) for k, v in o2.items() if v[1].name == "SAMPLED")
                if len(sampled) == 1:
                    law[sampled[0]] = law.get(sampled[0], 0.0) + pr
                    law["_w"] = wsum
        if len(sc.calls) <= 4:
            rec([])
            if law:
                wsum = law.pop("_w")
                for k, p in joint.items():
                    is_exact = k in res and res[k][1] == "EXACT"
                    exp = 0.0 if is_exact else float(Nv * p)
                    got = wsum * law.get(k, 0.0)
                    if abs(got - exp) > 1e-7 * max(1.0, float(Nv)):
                        return f"expected weight of tail map {k} is {got}, should be N*p = {exp}"
    return None
