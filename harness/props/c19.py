"""C19 — wire cuts without qubit re-use yield reset-free subexperiments."""
from __future__ import annotations

import json
import math
import numpy as np

from .. import canon, gen, workflow
from ..core import frac, call_real
from . import c05
from .c04 import ScriptedChoice

ID = "C19"
LEAN_MODULE = "CKT.Props.C19Gen"
THEOREMS = [
    # the reset optimisations of the model are the translated source (harness/translate/resets.py -> Generated/ResetScans.lean)
    "CKT.C12Gen.passes_translated", "CKT.C19Gen.optimizeResets_translated",
    "CKT.C19.optimizeResets_wire", "CKT.C19.optimizeResets_shape", "CKT.C19.optimizeResets_only",
    # T19.1 (Props/C19Moves): wire level, splice level, model level with decidable hypotheses, Move basis, both clauses together
    "CKT.C19.shape_clean", "CKT.C19.reset_free_of_shape", "CKT.C19.cond_shape", "CKT.C19.good_of_admissible", "CKT.C19.spliced_shape",
    "CKT.C19.no_reuse_reset_free", "CKT.C19.no_reuse_reset_free_model", "CKT.C19.no_reuse_reset_free_dummy",
    "CKT.C19.moveNameBasis_moveLike", "CKT.C19.moveLike1_of_basis", "CKT.C19.condB_sound", "CKT.C19.admissibleB_sound",
    "CKT.C19.noReuseB_sound", "CKT.C19.experimentFor_reset_free", "CKT.C19.no_reuse_reset_free_and_same_statistics",
    "CKT.C12Sem.optimizeResets_obs",
    # second clause without assumed laws: the reset laws are proved for the Pauli-expectation semantics (C12PTM)
    "CKT.C12PTM.ptm", "CKT.C12PTM.optimizeResets_statistics", "CKT.C19PTM.no_reuse_reset_free_and_same_statistics_ptm",
]
LEVEL_TEXT = ("shape of the three passes, T19.1 at wire / splice / model level with decidable hypotheses evaluated per workflow, and the second clause (statistics unchanged) without assumed laws in the Pauli-expectation semantics; that real no-re-use workflows meet the hypotheses is checked per run, not proved")
RULE = ("circuits on 1-4 qubits with 1-3 wire-cut markers at any position (first/last on a wire, interleaved) pushed through cut_wires -> "
        "expand_observables -> partition_problem (automatic / explicit) -> generate_cutting_experiments, observables incl. identity on whole "
        "partitions; plus hand-placed Moves onto fresh qubits and Move chains that re-use qubits; for the second clause also user-written resets with "
        "gate cuts only (no wire cut); budgets {inf, 1..500}; non-trivial = at least one "
        "Move; distinct by payload")
ASSUMPTIONS = c05.ASSUMPTIONS + ["values unaffected: checked in the failing-input search by reconstructing from exactly simulated subexperiments"]
_cache = {}


def _dest_used_case(rng, two):
    """a Move onto a wire that ordinary gates have used before (so its reset matters); afterwards the wire occurs only as the
    second operand of two-qubit gates and no observable acts on it"""
    instrs = [{"name": "ry", "qubits": [1], "params": [rng.choice([0.9, 2.2, -1.3])]}, gen.rand_1q(rng, 0), {"name": "h", "qubits": [0]},
              {"name": "move", "qubits": [0, 1]}, {"name": "h", "qubits": [2]}, {"name": two, "qubits": [2, 1]}, {"name": "h", "qubits": [2]}]
    if rng.random() < 0.5:
        instrs += [{"name": rng.choice(["cz", "cx"]), "qubits": [2, 1]}, gen.rand_1q(rng, 2)]
    return ("workflow", {"kind": "reuse_chain", "nq": 3, "qregs": [3], "instrs": instrs,
                         "obs": [{"l": "IIX", "p": 0}, {"l": "IIZ", "p": 0}, {"l": "IIY", "p": 0}], "auto": rng.random() < 0.5, "N": None,
                         "seed": rng.randrange(1 << 30), "single": rng.random() < 0.5})


def _gate_cut_reset_cases():
    """second clause, "in every workflow": the input circuit itself carries reset instructions (explicit initialisation as the first operation
    of a wire, a doubled re-initialisation in the middle of a wire, a tidy-up reset as the last operation of a wire that is not measured) and
    the problem has gate cuts only - no wire cut, no Move basis among the bases - or a gate cut next to a wire cut.  Every subexperiment must
    still be free of leading / trailing / doubled resets and the reconstructed values must be those of the uncut circuit.
    (Second clause only: a wire that carries a user reset has been used, T19.1's conclusion "no reset at all" is not claimed for it.)"""
    def g(name, qs, *params):
        return {"name": name, "qubits": list(qs), **({"params": list(params)} if params else {})}
    r = lambda q: {"name": "reset", "qubits": [q]}   # noqa: E731
    fam = [
        # init reset on wire 0, doubled reset in the middle of wire 2, trailing reset on the unmeasured wire 1; cut: cx(1,2)
        (3, [r(0), g("h", [0]), g("ry", [2], 0.6), g("cx", [0, 1]), g("cx", [1, 2]), r(2), r(2), g("ry", [2], 0.8), g("rx", [1], 0.3), r(1)],
         [4], ["ZIZ", "ZII", "XII", "ZIX"], False, False, None),
        # the same, only partition-B observables (identity on partition A: placeholder measurement), finite budget
        (3, [r(0), g("h", [0]), g("ry", [2], 0.6), g("cx", [0, 1]), g("cx", [1, 2]), r(2), r(2), g("ry", [2], 0.8), g("rx", [1], 0.3), r(1)],
         [4], ["IIZ", "IIX"], True, False, 12),
        # every wire initialised explicitly (QASM style), two cut gates, trailing resets on both wires of one partition; unseparated call form
        (3, [r(0), r(1), r(2), g("h", [0]), g("cx", [0, 1]), g("rzz", [1, 2], 0.7), g("ry", [2], 0.4), g("cz", [1, 2]), g("h", [1]), r(0), r(1)],
         [5, 7], ["IIZ", "IIY"], True, True, None),
        # two qubits, one cut gate, three resets in a row in the middle of a wire and a leading doubled reset
        (2, [r(1), r(1), g("h", [0]), g("ry", [1], 1.1), g("cx", [0, 1]), r(0), r(0), r(0), g("ry", [0], 0.5), g("rx", [1], 0.2)],
         [4], ["ZZ", "XI", "IY"], True, False, None),
        # control: the same kind of circuit with an additional wire cut (Move onto a fresh wire)
        (4, [r(0), g("h", [0]), g("ry", [2], 0.6), g("cx", [0, 1]), g("cx", [1, 2]), r(1), g("ry", [2], 0.8), g("move", [2, 3]),
             g("rx", [3], 0.4)], [4], ["ZIIZ", "XIII", "ZIIX"], True, False, None),
    ]
    for k, (nq, instrs, cut_ids, obs, auto, single, n_) in enumerate(fam):
        yield ("workflow", {"kind": "reuse_chain", "nq": nq, "qregs": [nq], "instrs": instrs, "cut_ids": cut_ids,
                            "obs": [{"l": l, "p": 0} for l in obs], "auto": auto, "N": n_, "seed": 191200 + k, "single": single,
                            "always_oracle": True})


def _reset_gate_reset_cases():
    """second clause, re-use workflows: on one wire a reset, then ONLY two-qubit gates in which this wire is not the first operand (cx / cy target,
    second argument of cz / ch / rzz), then another reset, and the wire is used again afterwards.  The two resets are not consecutive - the wire
    was entangled in between - so both must stay and the reconstructed values must be those of the uncut circuit.  The resets come from Moves
    (a Move leaves its source in |0>: Move away, use the wire as a fresh target, Move away again, carry on) and / or from the user."""
    def g(name, qs, *params):
        return {"name": name, "qubits": list(qs), **({"params": list(params)} if params else {})}
    r = lambda q: {"name": "reset", "qubits": [q]}   # noqa: E731
    mv = lambda a, b: {"name": "move", "qubits": [a, b]}   # noqa: E731
    fam = [
        # a=0, b=1 | c=2, d=3: Move(a->c); cx(b,a); Move(a->d); new work on a
        (4, [g("ry", [0], 0.7), g("ry", [1], 1.1), g("cx", [0, 1]), mv(0, 2), g("cx", [1, 0]), mv(0, 3), g("ry", [0], 0.4), g("cx", [0, 1])],
         [], ["ZIII", "IZII", "ZZIZ", "XXII", "IIZI", "XIIZ"], True, False, None),
        # the same with cz then cy in between, unseparated call form
        (4, [g("ry", [0], 0.7), g("ry", [1], 1.1), g("cx", [0, 1]), mv(0, 2), g("h", [1]), g("cz", [1, 0]), g("cy", [1, 0]), mv(0, 3), g("ry", [0], 0.4),
             g("cx", [0, 1])], [], ["ZIII", "IZII", "ZZIZ", "XXII", "IIZI"], True, True, None),
        # ... and the first Move's qubit comes back onto a (Move(c->a)): a chain that re-uses a twice; finite budget
        (4, [g("ry", [0], 0.7), g("ry", [1], 1.1), g("cx", [0, 1]), mv(0, 2), g("cx", [1, 0]), mv(0, 3), mv(2, 0), g("cx", [0, 1]), g("ry", [0], 0.4)],
         [], ["ZIII", "IZII", "ZZIZ"], False, False, 40),
        # one Move, then the user re-initialises the wire by hand after having used it as a cx target
        (3, [g("ry", [0], 0.7), g("ry", [1], 1.1), g("cx", [0, 1]), mv(0, 2), g("cx", [1, 0]), r(0), g("ry", [0], 0.4), g("cx", [0, 1])],
         [], ["ZII", "IZI", "ZZZ", "XXI", "IIZ"], True, False, None),
        # user resets only, gate cut elsewhere: reset, cx / rzz with the wire as second operand, reset, more gates
        (3, [g("h", [0]), g("ry", [1], 0.9), g("cx", [0, 1]), r(1), g("cx", [0, 1]), g("rzz", [0, 1], 0.8), r(1), g("ry", [1], 0.4), g("cx", [1, 2]),
             g("ry", [2], 0.3)], [8], ["IZI", "IZZ", "ZZX", "XIZ"], True, False, None),
    ]
    for k, (nq, instrs, cut_ids, obs, auto, single, n_) in enumerate(fam):
        yield ("workflow", {"kind": "reuse_chain", "nq": nq, "qregs": [nq], "instrs": instrs, "cut_ids": cut_ids,
                            "obs": [{"l": l, "p": 0} for l in obs], "auto": auto, "N": n_, "seed": 191500 + k, "single": single,
                            "always_oracle": True})


def _obs_order_cases():
    """first clause, "whatever the observables are": the dictionary of sub-observables is handed to generate_cutting_experiments with its keys
    in ANOTHER ORDER than the dictionary of subcircuits (rebuilt / filtered / sorted by the caller: the two are matched by partition label,
    not by position).  No-re-use problems from wire-cut markers and from Moves onto fresh wires whose partitions have EQUAL widths, so that a
    sub-observable of one partition is well-formed for another one; observables incl. the identity on a whole partition."""
    def g(name, qs, *params):
        return {"name": name, "qubits": list(qs), **({"params": list(params)} if params else {})}
    cw = lambda q: {"name": "cut_wire", "qubits": [q]}   # noqa: E731
    mv = lambda a, b: {"name": "move", "qubits": [a, b]}   # noqa: E731
    fam = [
        # 3 qubits, one marker in the middle wire: partitions {0,1} and {1',2}
        ("markers", 3, [g("ry", [0], 0.9), g("cx", [0, 1]), g("ry", [1], 0.7), cw(1), g("cx", [1, 2]), g("rx", [2], 0.3), g("rz", [1], 0.4),
                        g("ry", [1], 0.5)], ["ZZZ", "XZI", "ZIX", "IIZ", "IXI"], True, None, "reversed"),
        # the same, explicit labels, observables that are the identity on the upstream partition (placeholder measurement there)
        ("markers", 3, [g("ry", [0], 0.9), g("cx", [0, 1]), g("ry", [1], 0.7), cw(1), g("cx", [1, 2]), g("rx", [2], 0.3), g("ry", [1], 0.5)],
         ["IZZ", "IXI", "IZX"], False, None, "reversed"),
        # 4 qubits, two markers: three partitions of width 2, keys rotated
        ("markers", 4, [g("h", [0]), g("cx", [0, 1]), cw(1), g("ry", [1], 0.6), g("cx", [1, 2]), cw(2), g("rx", [2], 0.8), g("cx", [2, 3]),
                        g("ry", [3], 0.3)], ["ZZZZ", "IZXI", "XIIZ", "IIZI"], True, None, "rotated"),
        # one qubit, one marker: two partitions of width 1; finite budget
        ("markers", 1, [g("ry", [0], 1.1), cw(0), g("rx", [0], 0.4)], ["Z", "X"], True, 30, "reversed"),
        # two qubits, a marker on each wire between two cx: partitions {0,1} and {0',1'}; keys sorted in descending order
        ("markers", 2, [g("ry", [0], 0.7), g("cx", [0, 1]), cw(0), cw(1), g("ry", [0], 0.4), g("cx", [1, 0])], ["ZZ", "XI", "IY"], True, None, "sorted_desc"),
        # hand-placed Move onto a fresh wire: partitions {0,1} and {2,3}
        ("fresh_moves", 4, [g("ry", [0], 0.8), g("cx", [0, 1]), g("ry", [1], 0.5), mv(1, 2), g("ry", [2], 0.4), g("cx", [2, 3]), g("rx", [3], 0.2)],
         ["ZIZZ", "XIIZ", "ZIXI", "IIIZ"], True, None, "reversed"),
    ]
    for k, (kind, nq, instrs, obs, auto, n_, order) in enumerate(fam):
        yield ("workflow", {"kind": kind, "nq": nq, "qregs": [nq], "instrs": instrs, "obs": [{"l": l, "p": 0} for l in obs], "auto": auto,
                            "N": n_, "seed": 191900 + k, "single": False, "obs_order": order, "always_oracle": True})


def _third_operand_cases():
    """second clause, re-use workflows with gates on three or more qubits (allowed inside a partition): before a wire is vacated by a Move it is
    touched ONLY as the third (or a later) operand of such gates - ccx / rccx target, last qubit of ccz / cswap / c3x -, then it is entangled
    with the rest; a later Move writes back onto it.  The reset of that wire is not a reset of |0>: it must stay (exactly one of it) and the
    reconstructed values must be those of the uncut circuit."""
    def g(name, qs, *params):
        return {"name": name, "qubits": list(qs), **({"params": list(params)} if params else {})}
    mv = lambda a, b: {"name": "move", "qubits": [a, b]}   # noqa: E731
    fam = [
        # wire 2 is the ccx target only; Move(2->3), work on 3, Move(3->2), more work on 2
        (4, [g("ry", [0], 0.8), g("ry", [1], 1.9), g("ccx", [0, 1, 2]), g("ry", [0], 0.5), mv(2, 3), g("ry", [3], 0.4), mv(3, 2), g("cx", [2, 0]),
             g("ry", [2], 0.7), g("cx", [1, 2])], ["ZIII", "IIZI", "ZZZI", "XIZI", "IZZI"], True, False, None),
        # the demo shape on 5 wires: wire 4 takes part while the state is parked on wire 3; explicit labels
        (5, [g("ry", [0], 0.8), g("ry", [1], 1.9), g("ccx", [0, 1, 2]), g("ry", [0], 0.5), mv(2, 3), g("ry", [3], 0.4), g("cx", [3, 4]),
             g("ry", [3], 0.3), mv(3, 2), g("cx", [2, 0]), g("ry", [2], 0.7), g("cx", [1, 2])],
         ["IIZII", "ZIIIZ", "IIIIZ", "XZXII", "ZIZIZ", "IZZII"], False, False, None),
        # cswap with the wire as last operand (and ccz, diagonal, before it); unseparated call form
        (4, [g("ry", [0], 1.2), g("ry", [1], 0.9), g("ccz", [0, 1, 2]), g("cswap", [0, 1, 2]), g("h", [0]), mv(2, 3), g("rx", [3], 0.6), mv(3, 2),
             g("cx", [2, 1]), g("ry", [2], 0.4)], ["ZIII", "IXXI", "ZIZI", "XYYI", "IIZI"], True, True, None),
        # rccx twice, then the wire is vacated and written back by a different wire's Move chain: Move(2->3), Move(3->2) with a finite budget
        (4, [g("h", [0]), g("ry", [1], 0.7), g("rccx", [0, 1, 2]), g("ry", [1], 0.5), g("rccx", [1, 0, 2]), mv(2, 3), g("ry", [3], 0.9), mv(3, 2),
             g("cz", [0, 2]), g("ry", [2], 0.3)], ["IIZI", "ZYXI", "IYZI", "XXYI"], True, False, 60),
        # fourth operand of c3x
        (5, [g("ry", [0], 2.0), g("ry", [1], 2.3), g("ry", [2], 1.8), g("c3x", [0, 1, 2, 3]), g("ry", [0], 0.4), mv(3, 4), g("ry", [4], 0.5), mv(4, 3),
             g("cx", [3, 0]), g("ry", [3], 0.6)], ["IIIZI", "ZIIZI", "XIIXI", "IZZII"], True, False, None),
    ]
    for k, (nq, instrs, cut_ids, obs, auto, single, n_) in enumerate(
            (nq, instrs, [], obs, auto, single, n_) for nq, instrs, obs, auto, single, n_ in fam):
        yield ("workflow", {"kind": "reuse_chain", "nq": nq, "qregs": [nq], "instrs": instrs, "cut_ids": cut_ids,
                            "obs": [{"l": l, "p": 0} for l in obs], "auto": auto, "N": n_, "seed": 192000 + k, "single": single,
                            "always_oracle": True})


def regenerate():
    """the three reset optimisations, translated from cutting_experiments.py on every run"""
    from ..translate import resets
    from ..core import REPO, LEAN
    resets.regenerate(REPO, LEAN)


def cases(rng, tier):
    N = 50 if tier == "quick" else 600
    yield from _obs_order_cases()
    yield from _third_operand_cases()
    yield from _gate_cut_reset_cases()
    yield from _reset_gate_reset_cases()
    for two in ("cz", "cy", "ch"):
        yield _dest_used_case(rng, two)
    for k in range(2):
        # three or more consecutive resets in the middle of a wire: the user resets the parked qubit between moving out and moving back in
        # (k = 0), or a used qubit serves as a relay (k = 1)
        if k == 0:
            instrs = [gen.rand_1q(rng, 0), {"name": "ry", "qubits": [1], "params": [0.8]}, {"name": "cx", "qubits": [0, 1]},
                      {"name": "move", "qubits": [1, 2]}, {"name": "reset", "qubits": [1]}, {"name": "move", "qubits": [2, 1]},
                      {"name": "ry", "qubits": [1], "params": [0.5]}, {"name": "cx", "qubits": [0, 1]}]
            nq_, obs_ = 3, [{"l": "ZZI", "p": 0}, {"l": "XYI", "p": 0}, {"l": "IZI", "p": 0}]
        else:
            instrs = [{"name": "ry", "qubits": [1], "params": [0.8]}, {"name": "cx", "qubits": [0, 1]}, {"name": "move", "qubits": [1, 2]},
                      {"name": "rx", "qubits": [2], "params": [0.4]}, {"name": "move", "qubits": [2, 1]}, {"name": "move", "qubits": [1, 3]},
                      {"name": "ry", "qubits": [1], "params": [0.3]}, {"name": "cx", "qubits": [0, 1]}]
            nq_, obs_ = 4, [{"l": "ZZIZ", "p": 0}, {"l": "XIIY", "p": 0}, {"l": "IZII", "p": 0}]
        yield ("workflow", {"kind": "reuse_chain", "nq": nq_, "qregs": [nq_], "instrs": instrs, "obs": obs_, "auto": True, "N": None,
                            "seed": rng.randrange(1 << 30), "single": k == 1})
    for k in range(2):
        # a Move onto a used wire is the last thing on that wire and the observables act on it: its reset stays in front of the measurement
        instrs = [{"name": "ry", "qubits": [1], "params": [rng.choice([0.9, 2.2])]}, gen.rand_1q(rng, 0), {"name": "h", "qubits": [0]},
                  {"name": "ry", "qubits": [0], "params": [0.6]}, {"name": "move", "qubits": [0, 1]}]
        if k:
            instrs.insert(4, {"name": "cx", "qubits": [0, 2]})
        yield ("workflow", {"kind": "reuse_chain", "nq": 3, "qregs": [3], "instrs": instrs,
                            "obs": [{"l": "IZI", "p": 0}, {"l": "IXI", "p": 0}, {"l": "IYZ", "p": 0}], "auto": k == 0, "N": None,
                            "seed": rng.randrange(1 << 30), "single": k == 1})
    for k in range(3):
        # the input carries explicit initialisation resets (one or two per wire, QASM style) and a Move writes onto such a wire:
        # reset(user) [reset(user)] reset(preparation) ... are all resets of |0>, none may survive as the first operation of the wire.
        # (Second clause only: a wire that carries a user reset has been "used before", so T19.1's hypotheses do not hold.)
        init = [{"name": "reset", "qubits": [q]} for q in range(3) for _ in range(2 if (k == 1 and q == 1) else 1)]
        body = [{"name": "h", "qubits": [0]}, {"name": "cx", "qubits": [0, 2]}, {"name": "move", "qubits": [0, 1]},
                {"name": "ry", "qubits": [1], "params": [0.7]}, {"name": "cx", "qubits": [1, 2]}]
        if k == 2:
            init = [i for i in init if i["qubits"] != [0]] + [{"name": "reset", "qubits": [1]}]
        yield ("workflow", {"kind": "reuse_chain", "nq": 3, "qregs": [3], "instrs": init + body,
                            "obs": [{"l": "IZZ", "p": 0}, {"l": "IXY", "p": 0}, {"l": "IIZ", "p": 0}], "auto": k != 1, "N": None,
                            "seed": rng.randrange(1 << 30), "single": k == 2, "always_oracle": True})
    for _ in range(N):
        kind = rng.choice(["markers", "markers", "markers", "fresh_moves", "reuse_chain"])
        nq = rng.randint(1, 4) if kind == "markers" else rng.randint(2, 4)
        instrs = []
        if kind == "markers":
            instrs = gen.rand_instrs(rng, nq, rng.randint(1, 7), barriers=rng.random() < 0.2, p2=0.45, families="integer")
            for _ in range(rng.randint(1, 3)):
                instrs.insert(rng.randint(0, len(instrs)), {"name": "cut_wire", "qubits": [rng.randrange(nq)]})
            if rng.random() < 0.35:
                # a barrier across the whole input circuit, before / between / after the markers
                instrs.insert(rng.randint(0, len(instrs)), {"name": "barrier", "qubits": list(range(nq))})
            nobs_q = nq
        elif kind == "fresh_moves":
            # logical qubits 0..k-1 start on wires 0..k-1; each Move goes to a never-used wire and the source is never used again
            k = rng.randint(1, nq - 1)
            pos = list(range(k))
            free = list(range(k, nq))
            for _ in range(rng.randint(2, 8)):
                if free and rng.random() < 0.35:
                    lq = rng.randrange(k)
                    dst = free.pop(0)
                    instrs.append({"name": "move", "qubits": [pos[lq], dst]})
                    pos[lq] = dst
                elif k >= 2 and rng.random() < 0.5:
                    a, b = rng.sample(range(k), 2)
                    instrs.append(gen.rand_2q(rng, [pos[a], pos[b]], "integer"))
                else:
                    instrs.append(gen.rand_1q(rng, pos[rng.randrange(k)]))
            for lq in range(k):
                instrs.append(gen.rand_1q(rng, pos[lq]))
            nobs_q = nq
        else:
            # Move chains that re-use qubits: move back and forth between two wires
            a, b = 0, 1
            instrs.append(gen.rand_1q(rng, a))
            tail = nq > 2 and rng.random() < 0.5
            nmoves = rng.choice([2, 2, 2, 3, 3] if tier == "quick" else [2, 2, 2, 3, 3, 4])
            for mv in range(nmoves):
                instrs.append({"name": "move", "qubits": [a, b]})
                if tail and mv == nmoves - 1:
                    # after its last reset the wire occurs only as a second operand; the effect is visible on wire 2
                    instrs.append(gen.rand_1q(rng, 2))
                    for _ in range(rng.randint(1, 2)):
                        instrs.append(gen.rand_2q(rng, [2, b], "integer"))
                        instrs.append(gen.rand_1q(rng, 2))
                    a, b = b, a
                    break
                if rng.random() < 0.6:
                    instrs.append(gen.rand_1q(rng, b))
                if nq > 2 and rng.random() < 0.6:
                    # the re-used wire as first or as second operand (cx target, second argument of cz)
                    instrs.append(gen.rand_2q(rng, [b, 2] if rng.random() < 0.4 else [2, b], "integer"))
                a, b = b, a
            nobs_q = nq
        obs = gen.rand_paulis(rng, nobs_q, rng.randint(1, 3), rng.choice(["IIXYZ", "IZ", "I", "IIIZ"]))
        if kind == "reuse_chain" and tail:
            obs = gen.rand_paulis(rng, nobs_q, rng.randint(1, 3), "XYZ")
        if kind != "markers":
            # a Move source that is "never used afterwards" is not measured either: identity there
            last = {}
            for ins in instrs:
                for q in ins["qubits"]:
                    last[q] = ins
            srcs = {q for q, ins in last.items() if ins["name"] == "move" and ins["qubits"][0] == q}
            if kind == "reuse_chain" and (tail or rng.random() < 0.4):
                # nothing is measured on the wire the chain ends on (it may then occur only as a second operand after its reset)
                srcs = srcs | {a}
            for o in obs:
                o["l"] = "".join("I" if q in srcs else c for q, c in enumerate(o["l"]))
        yield ("workflow", {"kind": kind, "nq": nq, "qregs": gen.rand_regs(rng, nq), "instrs": instrs, "obs": obs,
                            "auto": rng.random() < 0.6, "N": rng.choice([None, None, 3, 50, 500]), "seed": rng.randrange(1 << 30),
                            # unseparated call form (the circuit with wrapped Moves is passed as one QuantumCircuit): only without markers
                            "single": kind != "markers" and rng.random() < 0.4})


def _pipeline(payload):
    """cut_wires -> expand_observables -> partition_problem; returns the inputs of experiment generation."""
    from qiskit.quantum_info import PauliList
    from qiskit_addon_cutting import cut_wires, expand_observables, partition_problem
    from qiskit_addon_cutting.utils.transforms import _partition_labels_from_circuit
    from qiskit_addon_cutting.qpd import TwoQubitQPDGate
    qc0 = canon.build_circuit({"nq": payload["nq"], "qregs": payload["qregs"], "instrs": payload["instrs"]})
    obs0 = PauliList([o["l"][::-1] for o in payload["obs"]])
    if payload["kind"] == "markers":
        qc1 = cut_wires(qc0)
        obs1 = expand_observables(obs0, qc0, qc1)
    else:
        from qiskit_addon_cutting import cut_gates
        # Moves are wrapped as wire cuts; `cut_ids` names further (ordinary two-qubit) gates to be cut
        ids = sorted({i for i, ins in enumerate(payload["instrs"]) if ins["name"] == "move"} | set(payload.get("cut_ids", [])))
        qc1, _ = cut_gates(qc0, ids)
        obs1 = obs0
    if payload.get("single"):
        return qc0, obs0, qc1, obs1, None
    labels = None
    if not payload["auto"]:
        labels = _partition_labels_from_circuit(qc1, ignore=lambda inst: isinstance(inst.operation, TwoQubitQPDGate))
        labels = [None if l is None else f"p{l}" for l in labels]
    pp = partition_problem(qc1, labels, obs1)
    if payload.get("obs_order"):
        pp = _Reordered(pp, payload["obs_order"])
    return qc0, obs0, qc1, obs1, pp


def _run(payload):
    import qiskit_addon_cutting.cutting_experiments as CE
    qc0, obs0, qc1, obs1, pp = _pipeline(payload)
    Nv = math.inf if payload["N"] is None else payload["N"]
    captured = {}
    real_gqw = CE.generate_qpd_weights

    def wrapper(bases, num_samples=1000):
        out = real_gqw(bases, num_samples=num_samples)
        captured["weights"] = [{"key": [int(i) for i in k], "w": frac(v[0]), "ty": v[1].name} for k, v in out.items()]
        return out

    sc = ScriptedChoice(payload["seed"])
    old = np.random.choice
    np.random.choice = sc
    CE.generate_qpd_weights = wrapper
    try:
        if pp is None:
            exps, coeffs = CE.generate_cutting_experiments(qc1, obs1, Nv)
        else:
            exps, coeffs = CE.generate_cutting_experiments(pp.subcircuits, pp.subobservables, Nv)
    finally:
        CE.generate_qpd_weights = real_gqw
        np.random.choice = old
    if pp is None:
        pp = _Single(qc1, obs1)
        exps = {"A": exps}
    return qc0, obs0, pp, exps, coeffs, captured


class _Reordered:
    """the same partitioned problem; the dictionary of sub-observables lists its keys in another order than the dictionary of subcircuits"""

    def __init__(self, pp, how):
        self.subcircuits = dict(pp.subcircuits)
        items = list(pp.subobservables.items())
        if how == "reversed":
            items = items[::-1]
        elif how == "rotated":
            items = items[1:] + items[:1]
        elif how == "sorted_desc":
            items = sorted(items, key=lambda kv: str(kv[0]), reverse=True)
        else:
            raise AssertionError(how)
        self.subobservables = dict(items)
        self.bases = pp.bases


class _Single:
    """the unseparated call form, presented like a one-partition problem"""

    def __init__(self, qc, obs):
        self.subcircuits = {"A": qc}
        self.subobservables = {"A": obs}
        self.single = True


def _key(payload):
    return json.dumps(payload, sort_keys=True, default=str)


def _real(payload):
    qc0, obs0, pp, exps, coeffs, captured = _run(payload)
    t = canon.BasisTable()
    keys = list(pp.subobservables)
    parts = [{"label": k, "circuit": canon.canon_circuit(pp.subcircuits[lab], t), "groups": c05._groups(pp.subobservables[lab])}
             for k, lab in enumerate(keys)]
    res = [[keys.index(lab), [c05._strip(canon.canon_circuit(c)) for c in cs]] for lab, cs in exps.items()]
    line = {"op": "c19.generate", "bases": t.canon(), "parts": parts, "separated": not getattr(pp, "single", False),
            "weights": captured.get("weights", [])}
    return {"ok": {"experiments": res, "coefficients": [[frac(c), w.name] for c, w in coeffs]}}, line


def model_line(kind, payload):
    try:
        res, line = _real(payload)
    except ValueError:
        res, line = {"error": "ValueError"}, None
    _cache[_key(payload)] = res
    return line or {"op": "c19.generate", "bases": [], "parts": [], "separated": True, "weights": []}


def run_real(kind, payload):
    r = _cache.get(_key(payload))
    if r is None:
        r, _ = _real(payload)
    return r


def model_canon(kind, payload, out):
    m = c05.model_canon(kind, payload, out)
    m["no_reuse"] = out.get("no_reuse")
    return m


def compare(kind, payload, real, model):
    why = c05.compare(kind, payload, real, {k: v for k, v in model.items() if k != "no_reuse"})
    if why or "error" in real or "error" in model:
        return why
    nr = model.get("no_reuse")
    if not isinstance(nr, list) or len(nr) != len(real["ok"]["experiments"]):
        return f"no-re-use verdicts missing or of wrong shape: {str(nr)[:200]}"
    for (lab, circs), verdicts in zip(real["ok"]["experiments"], nr):
        if not isinstance(verdicts, list):
            return f"no-re-use verdicts refused for partition {lab}: {verdicts}"
        flat = [v for per_w in verdicts for v in per_w]
        if len(flat) != len(circs):
            return f"partition {lab}: {len(flat)} verdicts for {len(circs)} subexperiments"
        for k, (v, c) in enumerate(zip(flat, circs)):
            has_reset = any(i["name"] == "reset" for i in c["instrs"])
            if v and has_reset:
                # the theorem `experimentFor_reset_free` says this cannot happen in the model; the real code disagrees
                return f"partition {lab} subexperiment {k}: the no-re-use hypotheses hold, yet the real subexperiment contains a reset"
            if not v and payload["kind"] != "reuse_chain":
                return (f"partition {lab} subexperiment {k}: no qubit is re-used in this workflow, but the decidable hypotheses of T19.1 "
                        f"(noReuseExpB) are false: the theorem does not cover it")
    return None


def describe(kind, payload):
    r = _cache.get(_key(payload)) or {}
    resets = -1
    if "ok" in r:
        resets = sum(1 for _, cs in r["ok"]["experiments"] for c in cs for i in c["instrs"] if i["name"] == "reset")
    return {"kind": payload["kind"], "auto": payload["auto"], "N": str(payload["N"]),
            "T19.1 hypotheses": ("hold" if (payload["kind"] != "reuse_chain") else "not required (qubits re-used)"),
            "resets_left": "refused" if resets < 0 else ("0" if resets == 0 else ">0")}


def nontrivial_key(kind, payload):
    return hash(_key(payload))


def oracle(kind, payload):
    from qiskit_addon_cutting import reconstruct_expectation_values
    from qiskit.primitives import SamplerResult
    from qiskit.result import QuasiDistribution
    from ..oracles import sem
    try:
        qc0, obs0, pp, exps, coeffs, captured = _run(payload)
    except ValueError as ex:
        used = {q for ins in payload["instrs"] for q in ins["qubits"]}
        on_idle = any(c != "I" and q not in used for o in payload["obs"] for q, c in enumerate(o["l"]))
        return None if on_idle else f"workflow refused: {ex}"
    except Exception as ex:
        return f"workflow raised {type(ex).__name__}: {ex}"
    for lab, cs in exps.items():
        for k, c in enumerate(cs):
            per = {}
            for inst in c.data:
                for q in inst.qubits:
                    per.setdefault(c.find_bit(q).index, []).append(inst.operation.name)
            for q, seq in per.items():
                if seq[0] == "reset" or seq[-1] == "reset" or any(a == b == "reset" for a, b in zip(seq, seq[1:])):
                    return f"subexperiment {k} of partition {lab!r}: wire {q} is {seq}"
            if payload["kind"] != "reuse_chain" and any(i.operation.name == "reset" for i in c.data):
                return f"no qubit is re-used, yet subexperiment {k} of partition {lab!r} contains a reset"
    if payload["N"] is not None:
        # the value clause is exact only for the full expansion: same problem with an infinite budget
        return oracle(kind, dict(payload, N=None))
    if payload["N"] is None:
        # values unaffected by the removals: reconstruct from exactly simulated subexperiments
        results = {lab: SamplerResult([QuasiDistribution(d) for d in workflow.exact_quasi_dists(cs)], [{}] * len(cs)) for lab, cs in exps.items()}
        if getattr(pp, "single", False):
            got = reconstruct_expectation_values(results["A"], coeffs, pp.subobservables["A"])
        else:
            got = reconstruct_expectation_values(results, coeffs, pp.subobservables)
        want = sem.expectations(qc0, [o["l"] for o in payload["obs"]])
        if not np.allclose(got, want, atol=1e-8):
            return f"reconstructed {list(np.round(got, 8))} but the uncut circuit gives {list(np.round(want, 8))}"
    return None
