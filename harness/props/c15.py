"""C15 — sampling overheads match the documented closed forms."""
from __future__ import annotations

import copy
import json
import math
import numpy as np
from fractions import Fraction

from .. import canon, gen
from ..core import call_real, frac, LEAN, REPO
from . import c02

ID = "C15"
LEAN_MODULE = "CKT.Props.C15"
THEOREMS = ["CKT.C15." + t for t in [
    "kappa_rot", "kappa_rxx", "kappa_ryy", "kappa_rzz", "kappa_crx", "kappa_cry", "kappa_crz", "kappa_cp",
    "kappa_cs_family", "kappa_cx_family", "kappa_ecr", "kappa_move", "kappaAt_of_kappaConst", "kappaConst_swap",
    "kappaConst_iswap", "kappa_swap", "kappa_iswap", "kappa_dcx", "eval_kcoef", "kappa_kak", "kappaU_formula",
    "kappaU_ge_one", "kappaU_a00", "kappa_rzx", "kappaU_aa0", "kappa_xx_plus_minus_yy", "closed_forms_ge_one",
    "setter_spec", "probs_sum_one", "reassign", "setter_refuses", "run_invariant", "kappa1_nonneg", "docTable_rows",
    "doc_cs_value"]] + ["CKT.C02.kak_coeffs_local_invariant"]
RULE = ("kappa / overhead / probabilities of every documented family at special and random angles in [-8pi, 8pi] (KAK gates incl. near-special "
        "Weyl points) against the model's coefficient polynomials and the documented closed form; histories of coefficient reassignment on "
        "hand-made and gate bases (dyadic vectors, wrong lengths, in-place edits of the returned container followed by fresh constructions); "
        "random local conjugations (equal kappa); every row of the docs table evaluated against the code; histories spread over shallow / deep "
        "copies of one basis (every object alive checked against its own coefficients after every step); KAK-path gates (rzx, xx+-yy, open-"
        "controlled rotations, local conjugations of rzz/rxx/ryy/crz/cp) 4e-9 .. 5e-8 rad from a locally trivial gate; "
        "local conjugations handed over as matrix-only Gate objects other than UnitaryGate (user-defined subclasses with a fixed name), several "
        "decomposed in one process; dyadic coefficient vectors times 2^-10 .. 2^-60 (invariants to relative accuracy); graded neighbourhoods "
        "(1e-3 .. 1e-8 rad, both sides) of every multiple of pi/2 in [-8pi, 8pi] for every parametrised family (KAK-path families on a thinner "
        "grid); programs of in-place edits of the coefficient container (the list basis.coeffs returns, the caller's own list / array, an "
        "array scaled in place) before / between reads of kappa, overhead, probabilities, mixed with reassignments: overhead = kappa^2 and "
        "kappa, probabilities belong to one coefficient vector in every reachable state (oracle only); distinct by payload")
ASSUMPTIONS = ["Qiskit maps rzx / xx+-yy to Weyl coordinates (theta/2,0,0) / (theta/4,theta/4,0) (checked numerically per case through the real basis)",
               "numpy float arithmetic on dyadic coefficient vectors is exact (kappa, overhead compared exactly; probabilities to 1e-12)"]
TOL = 1e-9

DOC_FORMS = {
    "3+2\\sqrt{2} \\approx 5.828": lambda th: 3 + 2 * math.sqrt(2),
    "3^2=9": lambda th: 9.0,
    "7^2=49": lambda th: 49.0,
    "\\left[1 + 2 \\left|\\sin(\\theta)\\right| \\right]^2": lambda th: (1 + 2 * abs(math.sin(th))) ** 2,
    "\\left[1 + 2 \\left|\\sin(\\theta/2)\\right| \\right]^2": lambda th: (1 + 2 * abs(math.sin(th / 2))) ** 2,
    "\\left[1+4\\left|\\sin(\\theta/2)\\right|+2\\sin^2(\\theta/2)\\right]^2": lambda th: (1 + 4 * abs(math.sin(th / 2)) + 2 * math.sin(th / 2) ** 2) ** 2,
    "4^2=16": lambda th: 16.0,
}
CLASS_TO_NAME = {"CSGate": "cs", "CSdgGate": "csdg", "CSXGate": "csx", "CXGate": "cx", "CYGate": "cy", "CZGate": "cz", "CHGate": "ch",
                 "ECRGate": "ecr", "iSwapGate": "iswap", "DCXGate": "dcx", "SwapGate": "swap", "RXXGate": "rxx", "RYYGate": "ryy",
                 "RZZGate": "rzz", "RZXGate": "rzx", "CRXGate": "crx", "CRYGate": "cry", "CRZGate": "crz", "CPhaseGate": "cp",
                 "XXPlusYYGate": "xx_plus_yy", "XXMinusYYGate": "xx_minus_yy", "Move": "move"}
NPARAM = {"rxx": 1, "ryy": 1, "rzz": 1, "rzx": 1, "crx": 1, "cry": 1, "crz": 1, "cp": 1, "xx_plus_yy": 2, "xx_minus_yy": 2}


def closed_form(name, params):
    th = params[0] if params else 0.0
    if name.startswith("open:"):
        # ctrl_state=0 variant = (X (x) 1) G (X (x) 1): locally equivalent to the documented gate, hence the same kappa
        name = name[5:]
    if name in ("rxx", "ryy", "rzz", "rzx"):
        return 1 + 2 * abs(math.sin(th))
    if name in ("crx", "cry", "crz", "cp"):
        return 1 + 2 * abs(math.sin(th / 2))
    if name in ("cx", "cy", "cz", "ch", "ecr"):
        return 3.0
    if name in ("cs", "csdg", "csx", "csxdg"):
        return 1 + math.sqrt(2)
    if name in ("swap", "iswap", "dcx"):
        return 7.0
    if name == "move":
        return 4.0
    if name in ("xx_plus_yy", "xx_minus_yy"):
        return 1 + 4 * abs(math.sin(th / 2)) + 2 * math.sin(th / 2) ** 2
    return None


def regenerate():
    from ..translate import kak, doctable
    kak.regenerate(REPO, LEAN)
    doctable.regenerate(REPO, LEAN)


def _doc_rows():
    from ..translate import doctable
    return doctable.parse(REPO)


def _dyadic_vec(rng, n):
    v = [Fraction(rng.randint(-64, 64), rng.choice([1, 2, 4, 8, 16])) for _ in range(n)]
    if all(x == 0 for x in v):
        v[0] = Fraction(1, 2)
    return v


# several basis objects that share state through copies, one of them reassigned: (mode, container) per case, see run_real
SHARE_MODES = ("chain", "behind", "deepchain")
# offsets (rad) from a locally trivial point, all well inside double precision of the angle but with |sin| of order 1e-8
HAIR = (1e-8, -1.7e-8, 4e-9, 3e-8)


def _share_family():
    F = Fraction
    hand = [([F(1, 2), F(-1, 4), F(1, 8)], [[F(1), F(0), F(0)], [F(1, 4), F(1, 4), F(-1, 2)]]),
            ([F(3), F(-1), F(1, 2), F(1, 2)], [[F(1, 8), F(1, 8), F(-2), F(1)], [F(1), F(1), F(1)], [F(0), F(0), F(0), F(5, 4)]]),
            ([F(1, 4), F(3, 4)], [[F(-1, 2), F(1, 2)]])]
    for mode in SHARE_MODES:
        for (init, hist), cont in zip(hand, ("list", "ndarray", "tuple")):
            yield ("setter", {"nmaps": len(init), "init": [frac(x) for x in init], "hist": [[frac(x) for x in h] for h in hist], "gate": None,
                              "container": cont, "share": mode, "always_oracle": True})
    for mode in ("chain", "behind"):
        for name, params, n in (("rzz", [0.7], 6), ("cx", [], 6), ("move", [], 8), ("rzx", [1.1], 58)):
            hist = [[F(1)] + [F(0)] * (n - 1), [F((-1) ** i * (i + 1), 8) for i in range(n)]]
            yield ("setter", {"nmaps": n, "init": None, "hist": [[frac(x) for x in h] for h in hist], "gate": name, "params": params,
                              "share": mode, "always_oracle": True})


def _hair_family():
    pi = math.pi
    # gates without an explicit decomposition (KAK path) a hair away from a locally trivial gate: the closed form still applies
    for name, period, betas in (("rzx", pi, None), ("xx_plus_yy", 2 * pi, (0.0, 0.7, -2.1, 0.4)), ("xx_minus_yy", 2 * pi, (0.7, 0.0, 1.3, -2.1)),
                                ("open:crz", 2 * pi, None), ("open:crx", 2 * pi, None), ("open:cry", 2 * pi, None), ("open:cp", 2 * pi, None)):
        for i, (k, d) in enumerate(zip((0, 1, -2, 3), HAIR)):
            th = k * period + d
            yield ("kappa", {"gate": name, "params": [th] if betas is None else [th, betas[i]], "always_oracle": True})
    # ... and local conjugations (V1 x V2) G(theta) (V3 x V4) of explicitly decomposed gates at such angles: equal kappa
    for j, (name, period) in enumerate((("rzz", pi), ("rxx", pi), ("ryy", pi), ("crz", 2 * pi), ("cp", 2 * pi))):
        for i, (k, d) in enumerate(zip((0, -1, 2), HAIR)):
            yield ("local", {"gate": name, "params": [k * period + d], "seeds": [1000 * j + 10 * i + t for t in range(4)], "always_oracle": True})


# how a local conjugation (V1 x V2) G (V3 x V4) is handed over as a Gate object (see _carrier)
CARRIERS = ("unitary", "array", "to_matrix", "array-params", "reused")


def _carrier_family():
    """Local conjugations of documented gates handed over as matrix-only Gate objects other than UnitaryGate (user-defined Gate subclasses
    with one fixed name and no / equal numeric params), several of them decomposed one after the other in the same process: every one of
    them has the documented kappa of its family, whatever was decomposed before."""
    def e(name, params, base):
        return {"gate": name, "params": params, "seeds": [base + t for t in range(4)]}
    fam = [("array", [e("rzz", [0.3], 7000), e("swap", [], 7010)], e("cx", [], 7020)),
           ("array", [e("rzz", [0.0], 7030)], e("cs", [], 7040)),
           ("to_matrix", [e("cp", [1.57], 7050)], e("iswap", [], 7060)),
           ("to_matrix", [e("dcx", [], 7070), e("cz", [], 7080)], e("crx", [-1.1], 7090)),
           ("array-params", [e("rzz", [0.7], 7100)], e("crx", [0.7], 7110)),
           ("array-params", [e("rxx", [2.5], 7120)], e("cp", [2.5], 7130)),
           ("reused", [e("rzx", [1.1], 7140)], e("xx_plus_yy", [0.9, 0.4], 7150)),
           ("reused", [e("ecr", [], 7160), e("ryy", [-0.4], 7170)], e("rzz", [0.3], 7180)),
           ("unitary", [e("swap", [], 7190)], e("rzz", [7.0], 7200))]
    for i, (carrier, before, main) in enumerate(fam):
        # "name": the (fixed) name of the user-defined gate class of this case
        yield ("local", dict(main, carrier=carrier, name=f"dressed{i}", before=before, always_oracle=True))


def _scale_family():
    """Coefficient vectors of small (and mixed) overall magnitude: dyadic vectors times 2^-k.  kappa, probabilities and overhead are
    scale-free functions of the vector (float arithmetic stays exact on these)."""
    F = Fraction
    base = [([F(3), F(-4), F(0)], [[F(1), F(1), F(-5)]]),
            ([F(5, 2), F(-5, 2), F(5, 4), F(1, 8)], [[F(7), F(-1), F(2), F(3)], [F(1, 2), F(0), F(0), F(-9, 4)]]),
            ([F(1), F(-2)], [[F(33, 16), F(-13, 8)]])]
    conts = ("list", "ndarray", "tuple")
    i = 0
    for k in (10, 20, 27, 33, 40, 43, 60):
        sc = F(1, 2 ** k)
        init, hist = base[i % 3]
        yield ("setter", {"nmaps": len(init), "init": [frac(x * sc) for x in init], "hist": [[frac(x * sc) for x in h] for h in hist],
                          "gate": None, "container": conts[i % 3], "always_oracle": True})
        i += 1
    # order-one, then small, then order-one again (and the reverse) on one object; entries of mixed magnitude in one vector
    yield ("setter", {"nmaps": 3, "init": [frac(F(1, 2)), frac(F(-1, 4)), frac(F(1, 8))],
                      "hist": [[frac(F(3, 2 ** 41)), frac(F(-4, 2 ** 41)), frac(F(0))], [frac(F(1)), frac(F(1)), frac(F(-1))],
                               [frac(F(5, 2 ** 24)), frac(F(1, 2 ** 30)), frac(F(-3, 2 ** 36))]],
                      "gate": None, "container": "list", "always_oracle": True})
    yield ("setter", {"nmaps": 2, "init": [frac(F(7, 2 ** 35)), frac(F(-1, 2 ** 37))],
                      "hist": [[frac(F(1, 4)), frac(F(-3, 4))], [frac(F(9, 2 ** 45)), frac(F(1, 2 ** 45))]],
                      "gate": None, "container": "ndarray", "share": "behind", "always_oracle": True})
    # the coefficients of a gate basis replaced by small ones (an attenuated quasi-probability vector)
    for name, params, n, k in (("cx", [], 6, 30), ("rzz", [0.7], 6, 42), ("cs", [], 6, 18)):
        hist = [[F((-1) ** j * (j + 1), 2 ** k) for j in range(n)]]
        yield ("setter", {"nmaps": n, "init": None, "hist": [[frac(x) for x in h] for h in hist], "gate": name, "params": params,
                          "always_oracle": True})


# graded offsets (rad) around a landmark angle: from "visibly different" down to a hair, both sides
NEAR = (1e-3, 1e-4, 1e-5, 3e-6, 1e-6, 1e-7, 1e-8)


def _landmark_family():
    """Graded neighbourhoods of the landmark angles k*pi/2 (|angle| <= 8pi) of every parametrised family.  At a landmark a member of a
    family coincides with (or is locally equivalent to) a gate that has a row of its own in the table -- cp(pi/2) = CS, cp(pi) = CZ,
    crx(pi) ~ CX, rzz(pi/2) ~ CZ, rxx(k pi) ~ identity ... -- but an angle a little beside the landmark is still a member of the family
    and its kappa is the family's closed form at THAT angle (the closed forms have slope 1..2 there: 1e-5 rad off is 1e-5 off in kappa).
    The model driver needs ~30 ms (KAK path: ~140 ms) per basis, so only a sub-grid is compared with the model as well; the rest of the
    grid ("oracle_only") is judged by the documented closed form / basis invariants in `oracle` alone."""
    pi = math.pi
    for name in c02.FAMS:
        for k in range(-16, 17):
            for d in NEAR:
                for sg in (1, -1):
                    th = k * pi / 2 + sg * d
                    if abs(th) <= 8 * pi:
                        with_model = k in (1, -1, 2, -3) and (d, sg) in ((1e-5, 1), (3e-6, -1), (1e-7, 1))
                        yield ("kappa", dict({"gate": name, "params": [th], "always_oracle": True}, **({} if with_model else {"oracle_only": True})))
    # the same for gates that go through the KAK path (a thinner grid: these are slower)
    for i, name in enumerate(("rzx", "xx_plus_yy", "xx_minus_yy", "open:cp", "open:crx")):
        for j, k in enumerate((1, -1, 2, -3)):
            for d in (1e-4, -1e-5, 3e-6):
                th = k * pi / 2 + d
                with_model = j == i % 4 and d == -1e-5
                yield ("kappa", dict({"gate": name, "params": [th, 0.4] if name.startswith("xx_") else [th], "always_oracle": True},
                                     **({} if with_model else {"oracle_only": True})))


def _inplace_family():
    """Bases whose coefficient CONTAINER is edited in place without a reassignment -- an element of the list `basis.coeffs` returns
    ("edit"), an element of the caller's own list / array that was assigned ("cedit"), an assigned float array scaled in place ("scale")
    -- before / after / between reads of kappa, overhead and probabilities ("touch": read and discard; "check": read all three and judge),
    mixed with proper reassignments.  Whatever the object does about such an edit, in every state it can reach the overhead is kappa
    squared and kappa and the probabilities are the 1-norm and the normalised absolute values of ONE coefficient vector (see `oracle`).
    Oracle only: the model has no notion of a container edited behind the setter."""
    gates = (("rxx", [0.7]), ("crz", [-2.2]), ("cx", []), ("rzz", [5.0]), ("cz", []), ("cs", []), ("move", []))
    new6 = [0.5, -1.5, 0.25, 0.75, -1.0, 2.0]
    progs = (
        [["edit", 1, 2.5], ["check"]],                                            # fresh, edited before anything was read
        [["check"], ["edit", 0, -3.0], ["check"], ["edit", -1, 0.0], ["check"]],   # read, edited, read again
        [["assign", new6], ["edit", 0, -4.0], ["check"]],                          # reassigned, edited before the next read
        [["touch", ["kappa"]], ["edit", 2, 7.0], ["touch", ["probs"]], ["check"]],
        [["touch", ["probs"]], ["assign", new6], ["cedit", 3, -6.0], ["check"], ["assign", [3.0, 0.0, -1.0, 0.0, 0.0, 1.0]], ["check"]],
        [["assign", new6], ["touch", ["overhead", "kappa"]], ["scale", 3.0], ["check"], ["edit", 5, 0.125], ["check"]],
        [["edit", 0, 0.0], ["touch", ["overhead"]], ["edit", 1, -9.0], ["check"]],
    )
    for i, (name, params) in enumerate(gates):
        for j in (i, i + 3):
            ops = [list(o) for o in progs[j % len(progs)]]
            if name == "move":   # 8 maps
                ops = [[o[0], o[1] + [0.5, -0.25]] if o[0] == "assign" else o for o in ops]
            yield ("inplace", {"gate": name, "params": params, "init": None, "container": "ndarray" if any(o[0] == "scale" for o in ops) else "list",
                               "ops": ops, "order": ["kappa", "overhead", "probs"] if (i + j) % 2 else ["probs", "overhead", "kappa"],
                               "always_oracle": True, "oracle_only": True})
    # hand-made bases: the constructor's own container edited by the caller afterwards, lists and float arrays
    for init, cont, ops in (([0.5, -0.25, 0.125], "list", [["cedit", 0, 4.0], ["check"]]),
                            ([0.5, -0.25, 0.125], "ndarray", [["scale", 0.25], ["check"], ["cedit", 2, -1.0], ["check"]]),
                            ([3.0, -1.0, 0.5, 0.5], "ndarray", [["check"], ["edit", 3, 2.0], ["check"]]),
                            ([0.25, 0.75], "list", [["touch", ["kappa"]], ["cedit", 1, -0.0625], ["check"], ["assign", [1.0, 1.0]], ["edit", 0, 8.0],
                                                    ["check"]]),
                            ([1.0, 2.0, -3.0, 4.0, 0.5], "list", [["assign", [0.5, 0.5, 0.5, 0.5, 0.5]], ["cedit", 4, 16.0], ["touch", ["overhead"]],
                                                                  ["edit", 0, -2.0], ["check"]])):
        yield ("inplace", {"gate": None, "params": [], "init": init, "container": cont, "ops": ops, "order": ["overhead", "probs", "kappa"],
                           "always_oracle": True, "oracle_only": True})


def _rand_inplace(rng):
    name = rng.choice([None, None, "cx", "rzz", "crx", "cs", "ecr"])
    n = rng.randint(2, 6) if name is None else 6
    vec = lambda: [float(x) for x in _dyadic_vec(rng, n)]
    cont = rng.choice(["list", "ndarray"])
    ops = []
    for _ in range(rng.randint(2, 6)):
        r = rng.random()
        if r < 0.4:
            ops.append([rng.choice(["edit", "cedit"]), rng.randrange(n), float(Fraction(rng.randint(-64, 64), rng.choice([1, 2, 4, 8])))])
        elif r < 0.55:
            ops.append(["assign", vec()])
        elif r < 0.65 and cont == "ndarray":
            ops.append(["scale", rng.choice([0.5, 3.0, -2.0])])
        elif r < 0.85:
            ops.append(["touch", rng.sample(["kappa", "overhead", "probs"], rng.randint(1, 2))])
        else:
            ops.append(["check"])
    order = ["kappa", "overhead", "probs"]
    rng.shuffle(order)
    return ("inplace", {"gate": name, "params": [gen.rand_angle(rng)] if name in c02.FAMS else [], "init": None if name else vec(),
                        "container": cont, "ops": ops + [["check"]], "order": order, "oracle_only": True, "always_oracle": True})


def cases(rng, tier):
    reps = 4 if tier == "quick" else 40
    yield from _inplace_family()
    yield from _share_family()
    yield from _hair_family()
    yield from _carrier_family()
    yield from _scale_family()
    yield from _landmark_family()
    # sub-normalised coefficient vectors (1-norm below one): kappa is the 1-norm all the same, never clamped
    for init, hist in (([Fraction(1, 4), Fraction(-1, 8)], [[Fraction(1, 8), Fraction(1, 16)]]),
                       ([Fraction(1, 4)] * 3, [[Fraction(1, 2), Fraction(-1, 4), Fraction(1, 8)], [Fraction(1, 16)] * 3]),
                       ([Fraction(3, 2), Fraction(1, 2)], [[Fraction(1, 4), Fraction(1, 4)]])):
        for cont in ("list", "ndarray"):
            yield ("setter", {"nmaps": len(init), "init": [frac(x) for x in init], "hist": [[frac(x) for x in h] for h in hist], "gate": None,
                              "container": cont, "always_oracle": True})
    # whole-number coefficient vectors typed as Python ints / integer arrays
    for init, hist in (([Fraction(1), Fraction(1), Fraction(-1)], [[Fraction(2), Fraction(-1), Fraction(3)]]),
                       ([Fraction(1), Fraction(1), Fraction(1), Fraction(-1), Fraction(1), Fraction(-1)], [[Fraction(1)] * 6]),
                       ([Fraction(2), Fraction(-1)], [[Fraction(1), Fraction(1)], [Fraction(3), Fraction(-5)]])):
        for cont in ("ints", "intarray"):
            yield ("setter", {"nmaps": len(init), "init": [frac(x) for x in init], "hist": [[frac(x) for x in h] for h in hist], "gate": None,
                              "container": cont, "always_oracle": True})
    for name in c02.FAMS:
        for th in gen.SPECIAL_ANGLES + [rng.uniform(-8 * math.pi, 8 * math.pi) for _ in range(reps)]:
            yield ("kappa", {"gate": name, "params": [th]})
    for name in c02.FIXED:
        yield ("kappa", {"gate": name, "params": []})
    for name in ("rzx", "xx_plus_yy", "xx_minus_yy"):
        for th in [5e-5, math.pi - 3e-5, 1e-4] + gen.SPECIAL_ANGLES[:8] + [rng.uniform(-8 * math.pi, 8 * math.pi) for _ in range(reps)]:
            yield ("kappa", {"gate": name, "params": [th] if name == "rzx" else [th, rng.uniform(-3, 3)]})
    for _ in range(reps * 10):
        n = rng.randint(1, 6)
        hist = []
        for _ in range(rng.randint(1, 5)):
            k = n if rng.random() < 0.8 else max(0, n + rng.choice([-1, 1, 2]))
            hist.append([frac(x) for x in _dyadic_vec(rng, k)] if k else [])
        yield ("setter", {"nmaps": n, "init": [frac(x) for x in _dyadic_vec(rng, n)], "hist": hist, "gate": None,
                          # the container the coefficients arrive in (a float64 array is not copied by numpy conversions)
                          "container": rng.choice(["list", "list", "tuple", "ndarray", "ndarray"])})
    for _ in range(reps * 2):
        name = rng.choice(["cx", "cz", "cy", "ch", "ecr", "rzz", "crx", "move", "swap", "cs"])
        params = [gen.rand_angle(rng)] if name in c02.FAMS else []
        n = {"move": 8, "swap": 58}.get(name, 6)
        hist = [[frac(x) for x in _dyadic_vec(rng, n)] for _ in range(rng.randint(1, 3))]
        yield ("setter", {"nmaps": n, "init": None, "hist": hist, "gate": name, "params": params})
    for _ in range(reps * 2):
        g1 = rng.choice(["cx", "cz", "cy", "ch", "ecr", "rzz", "crx", "cp", "move", "swap", "iswap", "cs", "csx"])
        g2 = rng.choice(["cx", "cz", "cy", "ch", "ecr"] if g1 in ("cx", "cz", "cy", "ch", "ecr") else [g1])
        p1 = [gen.rand_angle(rng)] if g1 in c02.FAMS else []
        yield ("alias", {"g1": g1, "p1": p1, "gate": g2, "params": p1 if g2 == g1 else [], "idx": rng.randrange(6),
                         "val": rng.choice([-0.125, 2.0, 0.0, -3.5])})
    for _ in range(reps):
        yield ("local", {"gate": "unitary", "params": [rng.randrange(10 ** 6), 2], "seeds": [rng.randrange(10 ** 6) for _ in range(4)]})
    try:
        rows = _doc_rows()
    except Exception:
        rows = []
    for names, formula in rows:
        for cls in names:
            for _ in range(2 if tier == "quick" else 10):
                yield ("doc", {"cls": cls, "formula": formula, "theta": gen.rand_angle(rng), "beta": rng.uniform(-3, 3)})
    # random histories spread over copies of the basis (drawn last: the streams of the families above are unchanged)
    for _ in range(reps * 2):
        n = rng.randint(1, 6)
        hist = []
        for _ in range(rng.randint(1, 4)):
            k = n if rng.random() < 0.85 else max(0, n + rng.choice([-1, 1]))
            hist.append([frac(x) for x in _dyadic_vec(rng, k)] if k else [])
        yield ("setter", {"nmaps": n, "init": [frac(x) for x in _dyadic_vec(rng, n)], "hist": hist, "gate": None,
                          "container": rng.choice(["list", "tuple", "ndarray"]), "share": rng.choice(SHARE_MODES)})
    for _ in range(reps):
        name = rng.choice(["rzx", "xx_plus_yy", "xx_minus_yy", "open:crz", "open:crx", "open:cry", "open:cp"])
        th = rng.randint(-4, 4) * (math.pi if name == "rzx" else 2 * math.pi) + rng.choice([-1, 1]) * 10 ** rng.uniform(-8.5, -7.3)
        yield ("kappa", {"gate": name, "params": [th, rng.uniform(-3, 3)] if name.startswith("xx_") else [th]})
    # random programs of in-place container edits / reads / reassignments (drawn last: the streams above are unchanged)
    for _ in range(reps * 4):
        yield _rand_inplace(rng)


def _payload_gate(kind, payload):
    if kind == "doc":
        nm = CLASS_TO_NAME.get(payload["cls"])
        if nm is None:
            return None
        k = NPARAM.get(nm, 0)
        return {"gate": nm, "params": [payload["theta"], payload["beta"]][:k]}
    return {"gate": payload["gate"], "params": payload.get("params", [])}


def _c02_kind(g):
    return "kak" if g["gate"] in ("rzx", "xx_plus_yy", "xx_minus_yy", "unitary", "weyl") or g["gate"].startswith("open:") else "gate"


def model_line(kind, payload):
    if payload.get("oracle_only"):
        # dense deterministic grids: nothing to compare with the model (a line the driver answers at once), `oracle` decides
        return {"op": "c02.basis", "gate": "unsupported:oracle-only", "env": [1.0, 0.0, math.sqrt(0.5)]}
    if kind == "setter":
        if payload["gate"] is None:
            return {"op": "c15.setter", "nmaps": payload["nmaps"], "init": payload["init"], "hist": payload["hist"]}
        # initial coefficients come from the gate's basis (captured from the real object, exact floats)
        b = _basis(payload)
        return {"op": "c15.setter", "nmaps": len(b.maps), "init": [frac(c) for c in b.coeffs], "hist": payload["hist"]}
    g = _payload_gate(kind, payload)
    if g is None:
        return {"op": "c02.basis", "gate": "unsupported:doc-class", "env": [1.0, 0.0, math.sqrt(0.5)]}
    return c02.model_line(_c02_kind(g), g)


def _basis(payload):
    from qiskit_addon_cutting.qpd import QPDBasis
    return QPDBasis.from_instruction(c02._gate({"gate": payload["gate"], "params": payload.get("params", [])}))


def _dressed(e):
    """(V1 x V2) G (V3 x V4) for the gate named by e and Haar-random single-qubit unitaries from e["seeds"]"""
    from qiskit.quantum_info import random_unitary
    g = c02._gate(e)
    s = e["seeds"]
    L = np.kron(random_unitary(2, seed=s[0]).data, random_unitary(2, seed=s[1]).data)
    R = np.kron(random_unitary(2, seed=s[2]).data, random_unitary(2, seed=s[3]).data)
    return L @ g.to_matrix() @ R


def _carrier(how, name="dressed"):
    """wrap(matrix, entry) -> a two-qubit Gate object that is known through its matrix only (all of them take the KAK path):
    unitary: UnitaryGate;  array: a user-defined Gate subclass (fixed name, no params) exposing the matrix through __array__;
    to_matrix: such a subclass overriding to_matrix instead;  array-params: fixed name, params = the numeric params of the dressed gate;
    reused: ONE object of the array kind whose stored matrix is replaced before every call."""
    from qiskit.circuit import Gate
    from qiskit.circuit.library import UnitaryGate
    if how == "unitary":
        return lambda mat, e: UnitaryGate(mat)

    class ArrayGate(Gate):
        def __init__(self, mat, params=()):
            super().__init__(name, 2, list(params))
            self._mat = np.array(mat, dtype=complex)

        def __array__(self, dtype=None, copy=None):
            return np.array(self._mat, dtype=dtype)

    class MatrixGate(Gate):
        def __init__(self, mat):
            super().__init__(name, 2, [])
            self._mat = np.array(mat, dtype=complex)

        def to_matrix(self):
            return np.array(self._mat, dtype=complex)

    if how == "array":
        return lambda mat, e: ArrayGate(mat)
    if how == "to_matrix":
        return lambda mat, e: MatrixGate(mat)
    if how == "array-params":
        return lambda mat, e: ArrayGate(mat, [float(x) for x in e.get("params", ())])
    if how == "reused":
        box = []

        def wrap(mat, e):
            if not box:
                box.append(ArrayGate(mat))
            box[0]._mat = np.array(mat, dtype=complex)
            return box[0]
        return wrap
    raise ValueError(f"unknown carrier {how}")


def _own_invariants(b):
    """the property's invariants of one basis object with respect to the coefficients it holds itself (None = they hold)"""
    c = [float(x) for x in b.coeffs]
    k = sum(abs(x) for x in c)
    if abs(float(b.kappa) - k) > 1e-12 * max(1, k) or not abs(float(b.kappa) - k) <= 1e-12 * k:
        return f"coeffs {c} but kappa {float(b.kappa)} (1-norm {k})"
    if abs(float(b.overhead) - k * k) > 1e-9 * max(1, k * k) or not abs(float(b.overhead) - k * k) <= 1e-9 * k * k:
        return f"coeffs {c} but overhead {float(b.overhead)} (kappa^2 = {k * k})"
    pr = [float(x) for x in b.probabilities]
    if k > 0 and not abs(sum(pr) - 1) <= 1e-9:
        return f"coeffs {c} but probabilities {pr} add up to {sum(pr)}"
    if len(pr) != len(c) or (k > 0 and any(abs(p_ - abs(x) / k) > 1e-12 for p_, x in zip(pr, c))):
        return f"coeffs {c} but probabilities {pr}, |c|/kappa = {[abs(x) / k for x in c] if k > 0 else None}"
    return None


def _state(b):
    return {"kappa": float(b.kappa), "overhead": float(b.overhead), "probs": [float(p) for p in b.probabilities],
            "coeffs": [float(c) for c in b.coeffs]}


def run_real(kind, payload):
    from qiskit_addon_cutting.qpd import QPDBasis
    from qiskit.circuit.library import XGate
    if kind == "setter":
        def box(vals):
            cont = payload.get("container", "list")
            if cont in ("ints", "intarray") and all(float(v).is_integer() for v in vals):
                iv = [int(v) for v in vals]   # whole-number coefficients typed as integers
                return np.array(iv) if cont == "intarray" else iv
            return tuple(vals) if cont == "tuple" else (np.array(vals, dtype=float) if cont == "ndarray" else list(vals))
        if payload["gate"] is None:
            maps = [([XGate()],) for _ in range(payload["nmaps"])]
            given = box([float(Fraction(c)) for c in payload["init"]])
            b = QPDBasis(maps, given)
            if [float(x) for x in given] != [float(Fraction(c)) for c in payload["init"]]:
                return {"ok": [{"ok": dict(_state(b), kappa=float("nan"))}], "note": "the caller's coefficient container was modified"}
        else:
            b = _basis(payload)
        out = [{"ok": _state(b)}]
        # "share": the history is spread over several basis objects related by copies (the way to derive a variant of a basis that keeps
        # the maps).  chain: every assignment goes to a fresh copy.copy of the object assigned last; behind: a copy.copy is taken before
        # every assignment and kept; deepchain: as chain with copy.deepcopy.  The assigned object's states are the plain history's states;
        # in addition EVERY object alive must describe the coefficient vector it holds itself, after every step.
        share = payload.get("share")
        alive = []
        for step, cs in enumerate(payload["hist"], 1):
            _ = (b.kappa, b.overhead, list(b.probabilities))  # read before the assignment (a stale cache must not survive it)
            if share in ("chain", "deepchain"):
                alive.append((f"the basis assigned in step {step - 1}" if step > 1 else "the original basis", b))
                b = copy.copy(b) if share == "chain" else copy.deepcopy(b)
            elif share == "behind":
                alive.append((f"the copy.copy taken before step {step}", copy.copy(b)))
            try:
                given = box([float(Fraction(c)) for c in cs])
                b.coeffs = given
                if [float(x) for x in given] != [float(Fraction(c)) for c in cs]:
                    return {"ok": out + [{"ok": dict(_state(b), kappa=float("nan"))}], "note": "the caller's coefficient container was modified"}
                out.append({"ok": _state(b)})
            except ValueError:
                out.append({"error": "ValueError", "state": _state(b)})
            for who, o in alive:
                bad = _own_invariants(o)
                if bad:
                    how = {"chain": "its copy.copy", "deepchain": "its copy.deepcopy", "behind": "the basis it was copied from"}[share]
                    return {"ok": out[:-1] + [{"ok": dict(_state(b), kappa=float("nan"))}],
                            "note": f"step {step}: after coefficients were assigned to {how}, {who} has {bad}"}
        return {"ok": out}
    if kind == "inplace":
        def cbox(vals):
            return np.array(vals, dtype=float) if payload.get("container") == "ndarray" else [float(v) for v in vals]
        get = {"kappa": lambda o: float(o.kappa), "overhead": lambda o: float(o.overhead), "probs": lambda o: [float(p) for p in o.probabilities]}
        if payload["gate"] is None:
            given = cbox(payload["init"])
            b = QPDBasis([([XGate()],) for _ in payload["init"]], given)
        else:
            b = _basis(payload)
            given = b.coeffs
        assigned = [float(x) for x in given]   # the vector the basis was normalised with last (constructor / setter)
        out, log = [], []
        for op in payload["ops"]:
            if op[0] == "touch":
                for a in op[1]:
                    get[a](b)
                log.append("read " + "/".join(op[1]))
            elif op[0] == "edit":
                try:
                    b.coeffs[op[1]] = op[2]
                    log.append(f"basis.coeffs[{op[1]}] = {op[2]}")
                except TypeError:   # an immutable container (some gate bases hold a tuple): no such edit
                    pass
            elif op[0] == "cedit":
                try:
                    given[op[1]] = op[2]
                    log.append(f"v[{op[1]}] = {op[2]} on the container v handed over last")
                except TypeError:
                    pass
            elif op[0] == "scale":
                if isinstance(given, np.ndarray):
                    given *= op[1]
                elif isinstance(given, list):
                    for i in range(len(given)):
                        given[i] *= op[1]
                else:
                    continue
                log.append(f"v *= {op[1]} in place on the container v handed over last")
            elif op[0] == "assign":
                given = cbox(op[1])
                b.coeffs = given
                assigned = [float(x) for x in given]
                log.append(f"basis.coeffs = {payload.get('container', 'list')}({[float(x) for x in op[1]]})")
            elif op[0] == "check":
                st = {a: get[a](b) for a in payload.get("order", ("kappa", "overhead", "probs"))}
                st.update(coeffs=[float(c) for c in b.coeffs], assigned=list(assigned), log=list(log))
                out.append(st)
                log.append("read " + "/".join(payload.get("order", ("kappa", "overhead", "probs"))))
        return {"ok": out}
    if kind == "alias":
        b1 = QPDBasis.from_instruction(c02._gate({"gate": payload["g1"], "params": payload["p1"]}))
        _ = b1.overhead
        c = b1.coeffs
        try:
            c[payload["idx"] % len(c)] = payload["val"]  # in-place edit of the returned container
        except TypeError:
            c = list(c)
            c[payload["idx"] % len(c)] = payload["val"]
        b1.coeffs = c
        st1 = _state(b1)
        k1 = sum(abs(x) for x in st1["coeffs"])
        if (abs(st1["kappa"] - k1) > 1e-12 * max(1, k1) or abs(st1["overhead"] - k1 * k1) > 1e-9 * max(1, k1 * k1)
                or (k1 > 0 and any(abs(p_ - abs(x) / k1) > 1e-12 for p_, x in zip(st1["probs"], st1["coeffs"])))):
            # the edited-and-reassigned basis must describe the vector it now holds
            return {"ok": dict(_state(_basis(payload)), kappa=float("nan")),
                    "note": f"after an in-place edit and reassignment: coeffs {st1['coeffs']} but kappa {st1['kappa']}, probabilities {st1['probs']}"}
        b2 = _basis(payload)
        return {"ok": _state(b2)}
    if kind == "local":
        wrap = _carrier(payload.get("carrier", "unitary"), payload.get("name", "dressed"))
        # gates decomposed earlier in the same process through the same kind of object (their kappa is recorded as well)
        before = []
        for e in payload.get("before", ()):
            be = QPDBasis.from_instruction(wrap(_dressed(e), e))
            before.append({"kappa": float(be.kappa), "inv": _own_invariants(be)})
        g = c02._gate(payload)
        b = QPDBasis.from_instruction(g)
        b2 = QPDBasis.from_instruction(wrap(_dressed(payload), payload))
        st = _state(b)
        st["kappa_conj"] = float(b2.kappa)
        if "carrier" in payload or "before" in payload:
            st["conj_inv"] = _own_invariants(b2)
            st["before"] = before
        return {"ok": st}
    g = _payload_gate(kind, payload)
    if g is None:
        return {"error": "ValueError"}
    return {"ok": _state(QPDBasis.from_instruction(c02._gate(g)))}


def model_canon(kind, payload, out):
    if "driver_error" in out:
        raise RuntimeError(out["driver_error"])
    if payload.get("oracle_only"):
        return None
    if kind == "setter":
        if "error" in out:
            return out
        res = []
        for st in out["ok"]:
            s = st.get("ok") or st.get("state")
            d = {"kappa": Fraction(s["kappa"]), "overhead": Fraction(s["overhead"]), "probs": [Fraction(p) for p in s["probs"]],
                 "coeffs": [Fraction(c) for c in s["coeffs"]]}
            res.append({"ok": d} if "ok" in st else {"error": "ValueError", "state": d})
        return {"ok": res}
    if "error" in out:
        return out
    o = out["ok"]
    cs = [c / c02.SC for c in o["coeffs"]]
    k = sum(abs(c) for c in cs)
    return {"ok": {"kappa": k, "overhead": k * k, "probs": [abs(c) / k for c in cs], "coeffs": cs}}


def _cmp_state(r, m, tol, exact=False):
    if len(r["probs"]) != len(m["probs"]):
        return "number of maps differs"
    if abs(r["kappa"] - float(m["kappa"])) > tol:
        return f"kappa {r['kappa']} vs model {float(m['kappa'])}"
    if abs(r["overhead"] - float(m["overhead"])) > tol * max(1, abs(r["overhead"])):
        return f"overhead {r['overhead']} vs model kappa^2 {float(m['overhead'])}"
    for i, (a, b) in enumerate(zip(r["probs"], m["probs"])):
        if not (abs(a - float(b)) <= tol):
            return f"probability {i}: {a} vs model {float(b)}"
    if exact:
        if Fraction(r["kappa"]) != m["kappa"] or [Fraction(c) for c in r["coeffs"]] != m["coeffs"]:
            return "kappa/coefficients are not exactly the assigned values"
    return None


def compare(kind, payload, real, model):
    if isinstance(real, dict) and real.get("note"):
        return real["note"]
    if payload.get("oracle_only"):
        return None
    if "error" in real or "error" in model:
        return None if real == model else f"real={str(real)[:200]} model={str(model)[:200]}"
    if kind == "setter":
        if len(real["ok"]) != len(model["ok"]):
            return "history length differs"
        for i, (r, m) in enumerate(zip(real["ok"], model["ok"])):
            if ("error" in r) != ("error" in m):
                return f"step {i}: real {'refused' if 'error' in r else 'accepted'}, model {'refused' if 'error' in m else 'accepted'}"
            why = _cmp_state(r.get("ok") or r["state"], m.get("ok") or m["state"], 1e-12, exact=payload["gate"] is None or i > 0)
            if why:
                return f"step {i}: {why}"
        return None
    why = _cmp_state(real["ok"], model["ok"], TOL)
    if why:
        return why
    if kind == "local" and abs(real["ok"]["kappa"] - real["ok"]["kappa_conj"]) > 1e-7:
        return f"kappa changes under local conjugation: {real['ok']['kappa']} vs {real['ok']['kappa_conj']}"
    if kind == "doc":
        f = DOC_FORMS.get(payload["formula"])
        if f is None:
            return f"documented formula not recognised: {payload['formula']}"
        if abs(f(payload["theta"]) - real["ok"]["overhead"]) > 1e-7:
            return f"documented overhead {f(payload['theta'])} vs code {real['ok']['overhead']} for {payload['cls']}({payload['theta']})"
    return None


def describe(kind, payload):
    return {"gate": str(payload.get("gate") or payload.get("cls"))}


def nontrivial_key(kind, payload):
    return hash(json.dumps([kind, payload], sort_keys=True))


def oracle(kind, payload):
    real = call_real(lambda p: run_real(kind, p), payload)
    if real.get("note"):
        return real["note"]
    if "error" in real:
        if kind == "doc" and CLASS_TO_NAME.get(payload["cls"]) is None:
            return f"documentation lists an unknown instruction {payload['cls']}"
        return f"{kind} case raised {real['error']}"
    if kind == "setter":
        n = payload["nmaps"] if payload["gate"] is None else len(real["ok"][0]["ok"]["probs"])
        cur = None
        for i, st in enumerate(real["ok"]):
            s = st.get("ok") or st["state"]
            if i > 0:
                cs = [Fraction(c) for c in payload["hist"][i - 1]]
                if len(cs) != n:
                    if "error" not in st:
                        return f"assignment of {len(cs)} coefficients to {n} maps was accepted"
                    cs = cur
                elif "error" in st:
                    return "valid assignment refused"
            else:
                cs = [Fraction(c) for c in s["coeffs"]]
            cur = cs
            k = sum(abs(c) for c in cs)
            if abs(s["kappa"] - float(k)) > 1e-12 * max(1, float(k)):
                return f"step {i}: kappa {s['kappa']} is not the 1-norm {float(k)}"
            if abs(s["overhead"] - float(k * k)) > 1e-9 * max(1, float(k * k)):
                return f"step {i}: overhead {s['overhead']} is not kappa^2 = {float(k * k)}"
            if any(abs(p - float(abs(c) / k)) > 1e-12 for p, c in zip(s["probs"], cs)) or len(s["probs"]) != len(cs):
                return (f"step {i}: probabilities {s['probs']} are not |c|/kappa = {[float(abs(c) / k) for c in cs]} for the coefficients "
                        f"{[float(c) for c in cs]} (kappa {s['kappa']!r}, 1-norm {float(k)!r})")
            # the invariants are scale free: the same to relative accuracy for coefficient vectors of any magnitude
            if not abs(s["kappa"] - float(k)) <= 1e-12 * float(k):
                return f"step {i}: kappa {s['kappa']!r} is not the 1-norm {float(k)!r} of the coefficients {[float(c) for c in cs]}"
            if not abs(s["overhead"] - float(k * k)) <= 1e-9 * float(k * k):
                return f"step {i}: overhead {s['overhead']!r} is not kappa^2 = {float(k * k)!r} for the coefficients {[float(c) for c in cs]}"
            if not abs(sum(s["probs"]) - 1) <= 1e-9:
                return f"step {i}: probabilities {s['probs']} add up to {sum(s['probs'])!r} for the coefficients {[float(c) for c in cs]}"
        return None
    if kind == "inplace":
        start = (f"QPDBasis.from_instruction({payload['gate']}{payload['params']})" if payload["gate"] else
                 f"QPDBasis(maps, v) with v = {payload.get('container', 'list')}({payload['init']})")
        for s in real["ok"]:
            where = f"{start}; " + "; ".join(s["log"]) + f"; then read {'/'.join(payload.get('order', ()))}: "
            k, ov, pr = s["kappa"], s["overhead"], s["probs"]
            # for EVERY basis the overhead is kappa squared
            if not abs(ov - k * k) <= 1e-9 * k * k:
                return where + f"overhead {ov!r} is not kappa^2 = {k * k!r} (kappa {k!r})"
            if len(pr) != len(s["coeffs"]):
                return where + f"{len(pr)} probabilities for {len(s['coeffs'])} coefficients"
            # the probabilities are NORMALISED absolute coefficients
            if any(not p >= 0 for p in pr) or not abs(sum(pr) - 1) <= 1e-9:
                return where + f"probabilities {pr} add up to {sum(pr)!r}"
            # kappa and the probabilities are the 1-norm and the normalised absolute values of one and the same coefficient vector: the one
            # the basis was normalised with last, or the one it holds now (either reading of an edit behind the setter is accepted)
            for v in (s["assigned"], s["coeffs"]):
                n1 = sum(abs(x) for x in v)
                if n1 > 0 and abs(k - n1) <= 1e-12 * n1 and all(abs(p - abs(x) / n1) <= 1e-12 for p, x in zip(pr, v)):
                    break
            else:
                return where + (f"kappa {k!r} and probabilities {pr} are not the 1-norm and the normalised absolute values of one coefficient "
                                f"vector, neither of the vector assigned last {s['assigned']} nor of the coefficients held now {s['coeffs']}")
        return None
    s = real["ok"]
    g = _payload_gate(kind, payload)
    cf = closed_form(g["gate"], g["params"]) if g else None
    if cf is not None and abs(s["kappa"] - cf) > 1e-9:
        return f"kappa of {g['gate']}{g['params']} is {s['kappa']}, documented closed form {cf}"
    if s["kappa"] < 1 - 1e-9:
        return f"kappa {s['kappa']} < 1"
    if abs(s["overhead"] - s["kappa"] ** 2) > 1e-9 * max(1, s["overhead"]):
        return "overhead is not kappa squared"
    k = sum(abs(c) for c in s["coeffs"])
    if any(abs(p - abs(c) / k) > 1e-12 for p, c in zip(s["probs"], s["coeffs"])):
        return "probabilities are not the normalised absolute coefficients"
    if kind == "local" and ("carrier" in payload or "before" in payload):
        nm = payload.get("name", "dressed")
        how = {"unitary": "a UnitaryGate", "array": f"a user-defined Gate subclass (name '{nm}', no params, matrix through __array__)",
               "to_matrix": f"a user-defined Gate subclass (name '{nm}', no params, to_matrix overridden)",
               "array-params": f"a user-defined Gate subclass (name '{nm}', params = the angle(s), matrix through __array__)",
               "reused": f"one user-defined Gate object (name '{nm}', matrix through __array__) whose stored matrix is replaced before each call"
               }[payload.get("carrier", "unitary")]
        hist = []
        for e, r in zip(payload.get("before", ()), s.get("before", ())):
            cfe = closed_form(e["gate"], e["params"])
            what = f"(V1 x V2) {e['gate']}{e['params']} (V3 x V4) [Haar seeds {e['seeds']}]"
            if cfe is not None and abs(r["kappa"] - cfe) > 1e-9:
                return (f"{what} handed over as {how}" + (f", after {', '.join(hist)} in the same process" if hist else "")
                        + f": kappa {r['kappa']}, documented closed form of the locally equivalent {e['gate']} is {cfe}")
            if r["kappa"] < 1 - 1e-9:
                return f"{what} handed over as {how}: kappa {r['kappa']} < 1"
            if r.get("inv"):
                return f"{what} handed over as {how}: {r['inv']}"
            hist.append(what)
        if abs(s["kappa"] - s["kappa_conj"]) > 1e-9:
            return (f"(V1 x V2) {g['gate']}{g['params']} (V3 x V4) [Haar seeds {payload['seeds']}] handed over as {how}"
                    + (f", after {', '.join(hist)} were decomposed in the same process" if hist else "")
                    + f": kappa {s['kappa_conj']}, but the locally equivalent {g['gate']}{g['params']} has kappa {s['kappa']}"
                    + (f" (documented closed form {cf})" if cf is not None else ""))
        if s["kappa_conj"] < 1 - 1e-9:
            return f"kappa {s['kappa_conj']} < 1 for a local conjugation of {g['gate']}{g['params']} handed over as {how}"
        if s.get("conj_inv"):
            return f"local conjugation of {g['gate']}{g['params']} handed over as {how}: {s['conj_inv']}"
    if kind == "local" and abs(s["kappa"] - s["kappa_conj"]) > 1e-9:
        return (f"kappa changes under local conjugation: {s['kappa']} for {g['gate']}{g['params']} vs {s['kappa_conj']} for "
                f"(V1 x V2) G (V3 x V4) with Haar seeds {payload['seeds']}")
    if kind == "doc":
        f = DOC_FORMS.get(payload["formula"])
        if f is not None and abs(f(payload["theta"]) - s["overhead"]) > 1e-7:
            return f"documented overhead {f(payload['theta'])} vs code {s['overhead']} for {payload['cls']}({payload['theta']})"
    return None
