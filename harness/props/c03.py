"""C03 — replacing wire-cut markers by Move operations preserves circuit semantics."""
from __future__ import annotations

import json
import itertools
import numpy as np

from .. import canon, gen
from ..core import call_real

ID = "C03"
LEAN_MODULE = "CKT.Props.C03Gen"
THEOREMS = [
    # one step of the model's instruction loop is the translated source (harness/translate/wirecut.py -> Generated/WireCutLoop.lean)
    "CKT.C03Gen.transformGo_translated",
    "CKT.C03.sum_markerFreq", "CKT.C03.layout_length", "CKT.C03.width_eq", "CKT.C03.layout_at_finalPos",
    "CKT.C03.layout_only_finalPos", "CKT.C03.basePos_succ", "CKT.C03.basePos_mono", "CKT.C03.transformGo_closed",
    "CKT.C03.posAfter_in_range", "CKT.C03.posAfter_injective", "CKT.C03.move_target_in_range",
    # Props/C03Fresh: a Move's target is touched by no earlier output instruction, its source by no later one (the no-re-use shape C19 speaks about)
    "CKT.C03.out_qubit_in_range", "CKT.C03.move_target_fresh", "CKT.C03.move_source_retired",
    # semantic half, for every pair of semantics obeying the four representation laws (C03Sem)
    "CKT.C03Sem.transformGo_rep", "CKT.C03Sem.transform_preserves_expectations", "CKT.C03Sem.classical",
    # the four laws proved for the Pauli-expectation semantics of dynamic circuits (any gate matrices; Move = reset; swap): T03.3 without assumed laws
    "CKT.Sem.applyL_comm", "CKT.Sem.prim_comm", "CKT.C03PTM.applyL_rep", "CKT.C03PTM.ap_rep", "CKT.C03PTM.move_rep", "CKT.C03PTM.init_rep",
    "CKT.C03PTM.ptm", "CKT.C03PTM.transform_preserves_expectations_ptm", "CKT.Sem.resetM_is_channel_ptm", "CKT.Sem.swapM_is_channel_ptm",
]
LEVEL_TEXT = ("structure/layout theorems of the marker-to-Move transformation + T03.3 (expectation values preserved) proved for the Pauli-expectation semantics of dynamic circuits with any gate matrices, Move = reset;swap (laws of C03Sem proved there, reset/swap matrices tied to the channel model); that this semantics is quantum mechanics in the Pauli basis is not formalised; model tied to the code by exact comparison")
RULE = ("circuits on 1-4 qubits (one or several named registers, optional classical registers) with 0-4 wire-cut markers in random "
        "interleavings, CutWire instances or name-only 'cut_wire' gates (thorough: every interleaving of the marker pattern across qubits for small shapes), both factories (Move / wrapped Move); "
        "non-trivial = at least one marker; distinct by payload")
ASSUMPTIONS = ["QuantumCircuit.compose/add_bits/add_register are Qiskit's (modelled as index arithmetic over qubit identities)",
               "reference semantics for the failing-input search: density-matrix simulation with Move = reset(dst); swap",
               "T03.3 (`transform_preserves_expectations`) is proved for every semantics obeying the four laws of `C03Sem.EmbSem` (initial state, "
               "covariance of gates under qubit placement, Move = reset-and-swap relocates a logical qubit, expanded observables read the placed "
               "qubits); that Qiskit's density-matrix semantics obeys them is standard and not proved in Lean (simulated on every case)"]


def _mk(rng, nq, nmark, depth):
    instrs = gen.rand_instrs(rng, nq, depth, barriers=rng.random() < 0.3, p2=0.4)
    for _ in range(nmark):
        instrs.insert(rng.randint(0, len(instrs)), {"name": "cut_wire", "qubits": [rng.randrange(nq)]})
    if nq >= 2 and rng.random() < 0.25:
        # an ordinary Move written by the user (qubit re-use): it is an instruction like any other, not a marker
        for _ in range(rng.randint(1, 2)):
            instrs.insert(rng.randint(0, len(instrs)), {"name": "move", "qubits": rng.sample(range(nq), 2)})
    return instrs


def _legal_contents_cases():
    """legal circuit contents next to the markers: instructions that carry classical bits (mid-circuit and final measurements into named
    registers), operations without qubit operands (global phase), resets, barriers, user Moves — deterministic, oracle on every case"""
    M = lambda q, c: {"name": "measure", "qubits": [q], "clbits": [c]}
    W = lambda q: {"name": "cut_wire", "qubits": [q]}
    G = lambda n, *qs, **kw: dict({"name": n, "qubits": list(qs)}, **kw)
    GP = lambda t: {"name": "global_phase", "qubits": [], "params": [t]}
    progs = [
        (2, [["c", 2]], [G("h", 0), G("cx", 0, 1), M(0, 0), W(1), G("ry", 1, params=[0.7]), M(1, 1)]),
        (2, [["c", 1]], [G("h", 0), W(0), G("cx", 0, 1), M(1, 0), W(0), G("h", 0)]),
        (3, [["a", 1], ["b", 2]], [G("ry", 0, params=[0.4]), G("cx", 0, 1), M(1, 2), W(1), G("cx", 1, 2), W(2), M(2, 0), G("h", 0)]),
        (2, [], [GP(0.3), G("h", 0), W(0), G("cx", 0, 1), GP(-1.1)]),
        (3, [], [G("h", 1), GP(0.25), W(1), G("cx", 1, 2), W(1), GP(0.5), G("cx", 0, 1), W(0)]),
        (2, [["m", 2]], [GP(0.7), G("h", 0), M(0, 1), W(0), G("cx", 0, 1), G("reset", 1), W(1), G("ry", 1, params=[1.2]), M(1, 0)]),
        (3, [["m", 1]], [G("h", 0), G("barrier", 0, 1, 2), W(2), G("cx", 0, 2), M(2, 0), W(2), G("move", 2, 1), G("h", 1)]),
    ]
    for nq, cregs, instrs in progs:
        for wrap in (False, True):
            for qregs in ([nq], [1] * nq):
                obs = [{"l": "ZXY"[:nq] if nq <= 3 else "Z" * nq, "p": 0}, {"l": "XZZ"[:nq], "p": 0}, {"l": "ZZZ"[:nq], "p": 0}]
                yield ("transform", {"nq": nq, "qregs": qregs, "instrs": instrs, "wrap": wrap, "cregs": cregs, "obs": obs, "generic": False,
                                     "always_oracle": True})


def _round_trip_cases():
    """the last sentence of the property — cutting the inserted Moves and reconstructing with exact weights returns the original expectation
    values — on circuits where SEVERAL cut wires continue in the same part of the circuit (so that one subexperiment holds several
    'prepare' halves on fresh qubits), next to one-cut and different-part placements; markers first/last on a wire, two markers on one
    wire, markers directly after one another; deterministic, oracle on every case"""
    W = lambda q: {"name": "cut_wire", "qubits": [q]}
    G = lambda n, *qs, **kw: dict({"name": n, "qubits": list(qs)}, **kw)
    R = lambda n, t, q: {"name": n, "qubits": [q], "params": [t]}
    progs = [
        # both cut wires continue into gates with q2: two fresh qubits in one subcircuit
        (3, [R("ry", 0.7, 0), R("rx", 1.1, 1), R("ry", 0.4, 2), G("cx", 0, 1), R("rz", 0.3, 0), W(0), W(1), G("cx", 0, 2), R("ry", 0.5, 2),
             G("cx", 1, 2), R("rx", 0.2, 0), R("ry", 0.6, 1)], ["ZZZ", "XIY", "IYX"]),
        # the same with the markers separated by a gate, and the fresh wires interacting with one another only
        (2, [R("ry", 0.9, 0), R("rx", 0.5, 1), G("cx", 0, 1), W(0), R("ry", 0.3, 1), W(1), G("cx", 1, 0), R("rx", 0.8, 0)], ["ZZ", "XY", "YI", "IZ"]),
        # fresh wires whose first gate is the joint gate itself (nothing between the prepare half and the two-qubit gate)
        (2, [G("h", 0), G("cx", 0, 1), R("ry", 0.4, 1), W(1), W(0), G("cz", 0, 1), G("h", 1)], ["ZZ", "XX", "ZI", "IX"]),
        # two markers on ONE wire separated by a marker on another wire; first and last fresh qubits share a subcircuit
        (2, [R("ry", 1.0, 0), W(0), G("cx", 0, 1), W(1), R("rx", 0.6, 1), W(0), G("cx", 1, 0), R("ry", 0.2, 1)], ["XZ"]),
        # controls: one cut; two cuts whose fresh qubits lie in different subcircuits; marker first / last on a wire
        (2, [R("ry", 0.7, 0), G("cx", 0, 1), W(1), R("rx", 0.4, 1), G("h", 0)], ["ZZ", "XY"]),
        (3, [R("ry", 0.7, 1), G("cx", 1, 0), W(1), G("cx", 1, 2), W(2), R("rx", 0.9, 2), G("h", 0)], ["ZZZ", "XIY", "IZX"]),
        (2, [W(0), R("ry", 0.6, 0), G("cx", 0, 1), R("rx", 0.3, 1), W(1)], ["ZZ", "YX"]),
    ]
    for nq, instrs, obs in progs:
        nm = sum(1 for i in instrs if i["name"] == "cut_wire")
        for qregs in ([nq], [1] * nq)[:2 if nm <= 2 else 1]:   # (8^markers subexperiments per part: the three-marker programs once)
            yield ("transform", {"nq": nq, "qregs": qregs, "instrs": instrs, "wrap": True, "cregs": [], "obs": [{"l": l, "p": 0} for l in obs],
                                 "generic": False, "round_trip": True, "always_oracle": True})


def _multi_operand_cases():
    """instructions with THREE OR MORE qubit operands next to the markers, in every operand order relative to the cut wire(s): the
    operands of one instruction below / on / above a cut wire in any order (first and last operand below it and a middle one above, the
    cut wire itself as first / middle / last operand after its marker, ...), controlled gates whose operand order matters (ccx, cswap,
    rccx, c3x) and a three-qubit unitary; a second marker on another wire in half of the cases — deterministic, oracle on every case"""
    W = lambda q: {"name": "cut_wire", "qubits": [q]}
    G = lambda n, *qs, **kw: dict({"name": n, "qubits": list(qs)}, **kw)
    R = lambda n, t, q: {"name": n, "qubits": [q], "params": [t]}
    ang = [0.3, 0.9, 1.4, 2.1]
    names3 = ["ccx", "cswap", "rccx"]
    k = 0
    for nq in (3, 4):
        pre = [R("ry", ang[q], q) for q in range(nq)] + [G("cx", q, q + 1) for q in range(nq - 1)]
        for w in range(nq):
            for tri in itertools.permutations(range(nq), 3):
                if nq == 4 and (k + w) % 2:   # (half of the 4-qubit placements: the other half is covered by the other cut wires' turn)
                    k += 1
                    continue
                name = names3[k % 3]
                g = G(name, *tri) if (k % 7) else {"name": "unitary", "qubits": list(tri), "params": [1000 + k, 3]}
                w2 = (w + 1 + k % (nq - 1)) % nq
                instrs = pre + [W(w), R("rz", 0.4, w)] + ([W(w2)] if k % 2 else []) + [g, R("rx", 0.7, tri[1])] \
                    + ([W(w), G("h", w)] if k % 5 == 0 else [])
                obs = [{"l": "ZXYZ"[:nq], "p": 0}, {"l": "YZZX"[:nq], "p": 0}, {"l": "ZZZZ"[:nq], "p": 0}, {"l": "XYIZ"[:nq], "p": 0}]
                yield ("transform", {"nq": nq, "qregs": [nq] if k % 3 else [1] * nq, "instrs": instrs, "wrap": bool(k % 2), "cregs": [],
                                     "obs": obs, "generic": False, "always_oracle": True})
                k += 1
    # four operands: every order of the operands of a triply-controlled X around one cut wire
    pre = [R("ry", ang[q], q) for q in range(4)] + [G("cx", q, q + 1) for q in range(3)]
    for j, perm in enumerate(itertools.permutations(range(4))):
        w = j % 4
        instrs = pre + [W(w), R("rz", 0.4, w), G("c3x", *perm), R("rx", 0.7, perm[2])]
        yield ("transform", {"nq": 4, "qregs": [4], "instrs": instrs, "wrap": bool(j % 2), "cregs": [],
                             "obs": [{"l": "ZXYZ", "p": 0}, {"l": "YZZX", "p": 0}, {"l": "ZZZZ", "p": 0}], "generic": False, "always_oracle": True})


def regenerate():
    """the instruction loop of _transform_cut_wires, translated on every run"""
    from ..translate import wirecut
    from ..core import REPO, LEAN
    wirecut.regenerate(REPO, LEAN)


def cases(rng, tier):
    yield from _legal_contents_cases()
    yield from _round_trip_cases()
    yield from _multi_operand_cases()
    N = 160 if tier == "quick" else 2500
    for _ in range(N):
        nq = rng.randint(1, 4)
        nmark = rng.randint(0, 4)
        instrs = _mk(rng, nq, nmark, rng.randint(0, 8))
        yield ("transform", {"nq": nq, "qregs": gen.rand_regs(rng, nq), "instrs": instrs, "wrap": rng.random() < 0.5,
                             "cregs": rng.choice([[], [], [["c", 2]]]), "obs": gen.rand_paulis(rng, nq, 2, "IXYZ"),
                             "generic": rng.random() < 0.2})
    if tier == "thorough":
        # every interleaving of marker/gate patterns: sequences over {mark q0, mark q1, cx01, h0, h1} of length <= 5 on 2 qubits
        alpha = [{"name": "cut_wire", "qubits": [0]}, {"name": "cut_wire", "qubits": [1]}, {"name": "cx", "qubits": [0, 1]},
                 {"name": "h", "qubits": [0]}, {"name": "sx", "qubits": [1]}]
        for L in range(1, 6):
            for tup in itertools.product(range(5), repeat=L):
                if not any(t < 2 for t in tup):
                    continue
                yield ("transform", {"nq": 2, "qregs": [2], "instrs": [alpha[t] for t in tup], "wrap": False, "cregs": [],
                                     "obs": [{"l": "ZX", "p": 0}, {"l": "YZ", "p": 0}]})


def _circ(payload):
    qc = canon.build_circuit({"nq": payload["nq"], "qregs": payload["qregs"], "cregs": payload["cregs"], "instrs": payload["instrs"]})
    if payload.get("generic"):
        # markers that are recognised by their name only (what a QPY save/load round trip of a marked circuit produces)
        from qiskit.circuit import Gate
        for k, inst in enumerate(qc.data):
            if inst.operation.name == "cut_wire":
                qc.data[k] = inst.replace(operation=Gate("cut_wire", 1, []))
    return qc


def model_line(kind, payload):
    qc = _circ(payload)
    qregs = [[r.name, [qc.find_bit(b).index for b in r]] for r in qc.qregs]
    return {"op": "c03.transform", "circuit": canon.canon_circuit(qc), "wrap": payload["wrap"], "nbases": 0, "qregs": qregs}


def _canon_out(orig, out):
    t = canon.BasisTable()
    c = canon.canon_circuit(out, t)
    layout = []
    for q in out.qubits:
        idx = [i for i, oq in enumerate(orig.qubits) if oq is q]
        layout.append(idx[0] if idx else None)
    instrs = [{k: i[k] for k in ("name", "qubits", "clbits", "params", "label", "basis", "half", "basis_id")} for i in c["instrs"]]
    return {"nq": out.num_qubits, "layout": layout, "instrs": instrs,
            "qregs": [[r.name, [out.find_bit(b).index for b in r]] for r in out.qregs],
            "cregs": [[r.name, r.size] for r in out.cregs]}


def run_real(kind, payload):
    from qiskit_addon_cutting import cut_wires
    from qiskit_addon_cutting.wire_cutting_transforms import _transform_cuts_to_moves
    qc = _circ(payload)
    out = cut_wires(qc) if payload["wrap"] else _transform_cuts_to_moves(qc)
    return {"ok": _canon_out(qc, out)}


def model_canon(kind, payload, out):
    if "driver_error" in out:
        raise RuntimeError(out["driver_error"])
    return out


def compare(kind, payload, real, model):
    if real != model:
        return f"real={json.dumps(real)[:500]} model={json.dumps(model)[:500]}"
    return None


def describe(kind, payload):
    marks = [i["qubits"][0] for i in payload["instrs"] if i["name"] == "cut_wire"]
    inter = any(marks[a] == marks[c] != marks[b] for a in range(len(marks)) for b in range(a + 1, len(marks)) for c in range(b + 1, len(marks)))
    return {"nq": payload["nq"], "markers": len(marks), "interleaved_same_qubit": inter, "wrap": payload["wrap"], "regs": len(payload["qregs"])}


def nontrivial_key(kind, payload):
    if not any(i["name"] == "cut_wire" for i in payload["instrs"]):
        return None
    return hash(json.dumps(payload, sort_keys=True))


def _round_trip(pp, want, payload):
    from qiskit.primitives import SamplerResult
    from qiskit.result import QuasiDistribution
    from qiskit_addon_cutting import generate_cutting_experiments, reconstruct_expectation_values
    from .. import workflow
    try:
        exps, coeffs = generate_cutting_experiments(pp.subcircuits, pp.subobservables, np.inf)
        results = {}
        for l, circs in exps.items():
            d = workflow.exact_quasi_dists(circs)
            results[l] = SamplerResult([QuasiDistribution(x) for x in d], [{}] * len(d))
        got = [float(np.real(v)) for v in reconstruct_expectation_values(results, coeffs, pp.subobservables)]
    except Exception as ex:
        return f"cutting the inserted Moves and reconstructing raised {type(ex).__name__}: {ex}"
    if not np.allclose(got, want, atol=1e-8):
        return (f"cutting the {len(pp.bases)} inserted Move(s) and reconstructing with exact weights gives {[round(v, 6) for v in got]}, the circuit "
                f"with the markers ignored has {[round(v, 6) for v in want]} (observables {[o['l'] for o in payload['obs']]}, "
                f"subcircuit widths {[c.num_qubits for c in pp.subcircuits.values()]})")
    return None


def oracle(kind, payload):
    from qiskit_addon_cutting import cut_wires, expand_observables
    from qiskit_addon_cutting.wire_cutting_transforms import _transform_cuts_to_moves
    from qiskit.quantum_info import PauliList
    from ..oracles import sem
    qc = _circ(payload)
    nmark = sum(1 for i in payload["instrs"] if i["name"] == "cut_wire")
    try:
        out = cut_wires(qc) if payload["wrap"] else _transform_cuts_to_moves(qc)
    except Exception as ex:
        return f"transformation raised {type(ex).__name__}: {ex}"
    if out.num_qubits != qc.num_qubits + nmark:
        return f"{out.num_qubits} qubits for {qc.num_qubits} qubits and {nmark} markers"
    if any(q not in out.qubits for q in qc.qubits):
        return "an original qubit is missing from the transformed circuit"
    if [r.name for r in out.qregs] != [r.name for r in qc.qregs] or [r.name for r in out.cregs] != [r.name for r in qc.cregs]:
        return "registers were not carried over"
    # walk both programs side by side: a marker corresponds to one inserted Move (plain, or wrapped as a cut placeholder by cut_wires);
    # every other instruction — a Move written by the user included — must come out under its own name, in order
    k = 0
    for i in qc.data:
        if k >= len(out.data):
            return "instructions are missing from the transformed circuit"
        nm_out = out.data[k].operation.name
        if i.operation.name == "cut_wire":
            if nm_out != ("qpd_2q" if payload["wrap"] else "move"):
                return f"marker {i.operation.name} became {nm_out}"
        elif nm_out != i.operation.name:
            return f"non-marker instructions changed: {i.operation.name} became {nm_out}"
        k += 1
    if k != len(out.data):
        return "extra instructions in the transformed circuit"
    obs = PauliList([o["l"][::-1] for o in payload["obs"]])
    exp_obs = expand_observables(obs, qc, out)
    letters = [p.to_label()[-out.num_qubits:][::-1] for p in exp_obs]
    a = sem.expectations(qc, [o["l"] for o in payload["obs"]])
    b = sem.expectations(out, letters)
    if not np.allclose(a, b, atol=1e-9):
        return f"expectation values changed: {a} -> {b}"
    if payload["wrap"]:
        # every marker gets a placeholder of its own: selecting a map for one cut must not select it for another
        ph = [i.operation for i in out.data if i.operation.name == "qpd_2q"]
        if len({id(o) for o in ph}) != len(ph):
            ph[0].basis_id = 3
            other = next(o for o in ph[1:] if o is ph[0])
            return (f"{len(ph)} markers share {len({id(o) for o in ph})} placeholder object(s): selecting map 3 for the first cut selected "
                    f"map {other.basis_id} for another one")
        # the transformed problem can be handed on as it is: automatic partitioning of the cut circuit with the expanded observables
        # (only when every qubit of the input is used and there is nothing classical, so that no refusal is legitimate)
        used = {qc.find_bit(q).index for i in qc.data for q in i.qubits}
        # (an operation without qubit operands belongs to no partition: what partitioning does with it is not C03's business)
        if (nmark and len(used) == qc.num_qubits and qc.num_clbits == 0 and all(o.get("p", 0) == 0 for o in payload["obs"])
                and all(len(i.qubits) > 0 for i in qc.data)):
            from qiskit_addon_cutting import partition_problem
            try:
                pp = partition_problem(out, observables=exp_obs)
            except Exception as ex:
                return f"the circuit returned by cut_wires cannot be partitioned automatically: {type(ex).__name__}: {ex}"
            if sum(c.num_qubits for c in pp.subcircuits.values()) != out.num_qubits:
                return "automatic partitioning of the cut circuit dropped a qubit"
            if payload.get("round_trip") or nmark <= 1:
                # last sentence of the property: cutting those Moves and reconstructing with exact weights returns the original values
                # (subexperiment distributions by the reference simulator; reference = the input circuit with the markers ignored)
                r = _round_trip(pp, a, payload)
                if r:
                    return r
    return None
