"""C13 — the exact sampler returns the true outcome distribution of dynamic circuits."""
from __future__ import annotations

import json
import numpy as np
from fractions import Fraction

from .. import canon, gen
from ..core import call_real, frac

ID = "C13"
LEAN_MODULE = "CKT.Props.C13Gen"
THEOREMS = ["CKT.C13." + t for t in ["split_total", "mapM_total", "step_total", "run_total", "key0_bit", "key1_bit", "key0_other", "key1_other",
                                      "reset_keys", "conditioned_refused", "classical_arg_refused",
                                      # the returned dictionary (Props/C13Collect)
                                      "dedupKeys_spec", "sortKeys_spec", "collect_keys", "sum_by_key", "collect_sum", "simulate_total"]] + \
           ["CKT.C13Sem." + t for t in [  # T13.1: the branch table refines the Pauli-expectation semantics step by step; T13.2: reported values = semantic probabilities
               "cl_key0", "cl_key1", "measure_branch", "reset_branch", "gate_branch", "split_measure", "split_reset", "mapM_gate",
               "step_refines", "run_refines", "collect_value", "sampler_correct", "simulate_correct",
               "reset_eq_std"]]   # the `reset = Π₀ + X·Π₁` law of ExSem is a fact about the standard matrices
RULE = ("random Clifford circuits (plus exact rational rotations, incl. near-deterministic small angles) with measurements and resets in any order on 1-5 qubits and 0-5 classical bits, up to 20 instructions, bits unused, "
        "written once or overwritten (incl. re-measuring a bit that already holds 1), barriers, conditioned operations and gates carrying classical "
        "bits (refused); non-Clifford rotations (incl. near-deterministic small angles) only in the failing-input search against the independent "
        "density-matrix simulator; model probabilities are exact rationals, compared to 1e-9; distinct by payload; fixed families: every gate name of "
        "Qiskit's standard library on 1-4 qubits and user-defined gates under arbitrary names (independent simulator only for the names outside "
        "the model's table), a classical bit overwritten by a second qubit followed by a reset and re-use of either qubit, several (circuit, parameter values) "
        "pairs in one ExactSampler.run -- the same parametrised circuit object with different values, copies, other circuits in between (independent simulator only); "
        "every parametrised standard gate (plain and through expressions p/2, -p, 2p+c; dynamic circuits) bound by the sampler with values inside and "
        "outside [0, 2pi): negative, beyond one / two / many turns, exact multiples of 2pi (independent simulator only); classical bits laid out other than in one register (several registers, bits outside any register, aliasing registers) with a bit set to 1 before later 0-outcomes / resets / overwrites; one circuit holding different unitary gates of equal name, width and parameters (user-defined blocks and gate classes, open vs closed controls, PauliEvolutionGate of different operators; reference written out in standard gates); qubit re-use: reset - multi-qubit gate with the qubit as first / middle / last argument (every multi-qubit standard gate, every position) - reset again - read-out, and an ancilla re-used over several rounds; measurement / reset of a middle qubit (3-5 qubits, every position) while qubits below and above it are entangled (Bell pairs across it, GHZ), outer qubits not all measured afterwards")
ASSUMPTIONS = ["Qiskit Statevector.evolve / probabilities and IEEE rounding are outside the model; the implementation's 1e-16 pruning tolerance is modelled as 0",
               "the concrete Clifford backend of the model (exact Gaussian-rational amplitudes) is validated against the implementation, not proved Lawful / ExSem (the refinement theorem holds for every backend whose states have expectation vectors transformed by transfer matrices)",
               "through ExactSampler: QuasiDistribution keeps integer keys"]
LEVEL_TEXT = ("branch-table model generic in the quantum backend: probabilities add up to one, key bookkeeping, refusals, the returned dictionary; "
              "T13.1/T13.2: for every backend whose states have expectation vectors (ExSem) each step of the sampler's bookkeeping is the step of the "
              "Pauli-expectation semantics and every reported value is the semantic probability of its outcome (step_refines, sampler_correct, "
              "simulate_correct; reset = P0 + X.P1 proved for the standard matrices); the driver's Clifford backend is validated, not proved ExSem; "
              "floats and the 1e-16 tolerance abstracted (partial)")
CLIFF1 = ["h", "x", "y", "z", "s", "sdg", "sx", "sxdg", "id"]
CLIFF2 = ["cx", "cz", "cy", "swap"]


def _gen(rng, tier, clifford=True):
    nq = rng.randint(1, 4 if tier == "quick" else 5)
    ncl = rng.randint(0, 5)
    instrs = []
    for _ in range(rng.randint(1, 14 if tier == "quick" else 20)):
        r = rng.random()
        if r < 0.08:
            # exact rational rotation: half-angle (cos, sin) = ((1-t^2)/(1+t^2), 2t/(1+t^2)); small t = near-deterministic outcomes
            t = rng.choice(["1/1000", "1/3000", "1/100000", "1/3", "2/5", "-1/2", "1/40000"])
            instrs.append({"name": rng.choice(["ry_t", "rx_t"]), "qubits": [rng.randrange(nq)], "t": t})
        elif r < 0.35:
            q = rng.randrange(nq)
            if clifford:
                instrs.append({"name": rng.choice(CLIFF1), "qubits": [q]})
            else:
                instrs.append({"name": rng.choice(["rx", "ry", "rz"]), "qubits": [q],
                               "params": [rng.choice([rng.uniform(-7, 7), 2 * np.arcsin(np.sqrt(rng.choice([4e-6, 1e-9, 1e-12]))), 1e-3])]})
        elif r < 0.55 and nq >= 2:
            instrs.append({"name": rng.choice(CLIFF2), "qubits": rng.sample(range(nq), 2)})
        elif r < 0.8 and ncl > 0:
            instrs.append({"name": "measure", "qubits": [rng.randrange(nq)], "clbits": [rng.randrange(ncl)]})
        elif r < 0.92:
            instrs.append({"name": "reset", "qubits": [rng.randrange(nq)]})
        else:
            k = rng.randint(1, nq)
            instrs.append({"name": "barrier", "qubits": rng.sample(range(nq), k)})
    # BaseSamplerV1 (Qiskit) itself refuses circuits without classical bits / measurements: the sampler route is only used with a measurement
    via = rng.choice(["func", "func", "sampler"]) if any(i["name"] == "measure" for i in instrs) else "func"
    return {"nq": nq, "ncl": ncl, "instrs": instrs, "via": via}


STD_ANGLES = [0.7, 0.3, -1.1, 0.45]


def _std_gate_names():
    """every gate of Qiskit's standard library (by operation name) acting on 1-4 qubits"""
    from qiskit.circuit import Gate
    from qiskit.circuit.library.standard_gates import get_standard_gate_name_mapping
    return sorted((k, g.num_qubits, len(g.params)) for k, g in get_standard_gate_name_mapping().items()
                  if isinstance(g, Gate) and 1 <= g.num_qubits <= 4)


def _mk_std(name, params):
    from qiskit.circuit.library.standard_gates import get_standard_gate_name_mapping
    g = get_standard_gate_name_mapping()[name]
    return g.base_class(*[float(x) for x in params])


# names a user may give to a gate of their own: single letters, pieces of the names of the special instructions
USER_GATE_NAMES = ["a", "r", "m", "bar", "arr", "er", "meas", "res", "set", "barrier_", "measure2", "my reset"]


def _deterministic_cases():
    """seed-independent families (oracle on every case)"""
    # (a) every standard-library gate name, once applied to |0..0> directly and once between layers of rotations; every qubit measured.
    #     The model's gate table is a fixed Clifford(+rational rotation) list, so these go to the independent simulator only.
    for idx, (name, k, npar) in enumerate(_std_gate_names()):
        g = {"name": "std", "gate": name, "params": STD_ANGLES[:npar], "qubits": list(range(k))}
        meas = [{"name": "measure", "qubits": [q], "clbits": [q]} for q in range(k)]
        yield ("simulate", {"nq": k, "ncl": k, "instrs": [g] + meas, "via": "func" if idx % 2 else "sampler", "oracle_only": True, "always_oracle": True})
        pre = [{"name": "ry", "qubits": [q], "params": [0.9 + 0.4 * q]} for q in range(k)]
        post = [{"name": "rx", "qubits": [q], "params": [-0.6 + 0.5 * q]} for q in range(k)]
        yield ("simulate", {"nq": k, "ncl": k, "instrs": pre + [g] + post + meas, "via": "sampler" if idx % 2 else "func",
                            "oracle_only": True, "always_oracle": True})
    # (b) user-defined gates under arbitrary names (the existing family always names them "prep")
    for idx, nm in enumerate(USER_GATE_NAMES):
        inner = [[{"name": "x", "qubits": [0]}], [{"name": "h", "qubits": [0]}, {"name": "s", "qubits": [0]}], [{"name": "sx", "qubits": [0]}]][idx % 3]
        instrs = [{"name": "h", "qubits": [1]}, {"name": "custom", "qubits": [0], "inner": inner, "gname": nm},
                  {"name": "barrier", "qubits": [0, 1]}, {"name": "cx", "qubits": [0, 1]},
                  {"name": "measure", "qubits": [0], "clbits": [0]}, {"name": "measure", "qubits": [1], "clbits": [1]}]
        yield ("simulate", {"nq": 2, "ncl": 2, "instrs": instrs, "via": "func" if idx % 2 else "sampler", "always_oracle": True})
    # (c) a classical bit written by one qubit and then overwritten by another one, with a reset of either qubit afterwards and the
    #     reset qubit used again (measured, or controlling the other qubit): every interleaving measure / overwrite / reset / measure again
    preps = [[{"name": "x", "qubits": ["A"]}], [{"name": "x", "qubits": ["B"]}],
             [{"name": "h", "qubits": ["A"]}, {"name": "h", "qubits": ["B"]}],
             [{"name": "h", "qubits": ["A"]}, {"name": "cx", "qubits": ["A", "B"]}, {"name": "x", "qubits": ["B"]}]]
    mids = [[], [{"name": "barrier", "qubits": ["A", "B"]}], [{"name": "x", "qubits": ["B"]}], [{"name": "measure", "qubits": ["A"], "clbits": [2]}]]
    tails = [[{"name": "measure", "qubits": ["R"], "clbits": [1]}],
             [{"name": "cx", "qubits": ["R", "O"]}, {"name": "measure", "qubits": ["O"], "clbits": [1]}]]
    n = 0
    for a, b in ((0, 1), (1, 0)):
        for prep in preps:
            for mid in mids:
                for rst in ("A", "B"):
                    for tail in tails:
                        names = {"A": a, "B": b, "R": a if rst == "A" else b, "O": b if rst == "A" else a}
                        seq = (prep + [{"name": "measure", "qubits": ["A"], "clbits": [0]}, {"name": "measure", "qubits": ["B"], "clbits": [0]}]
                               + mid + [{"name": "reset", "qubits": ["R"]}] + tail)
                        instrs = [dict(i, qubits=[names[q] for q in i["qubits"]]) for i in seq]
                        n += 1
                        yield ("simulate", {"nq": 2, "ncl": 3, "instrs": instrs, "via": "sampler" if n % 3 == 0 else "func", "always_oracle": True})


# classical bits laid out otherwise than in ONE register: an int = a register of that size, "L" = a bit that belongs to no register
# (QuantumCircuit(qubits, clbits) / add_bits), ["A", [i, ...]] = a further register made of bits that already exist (an alias)
CL_LAYOUTS = [[2, "L"], ["L", 2], ["L", "L", "L"], [1, "L", 1, "L"], [1, 1, 1], [2, "L", ["A", [0, 2]]], ["L", "L", 2, "L"], [3, ["A", [2, 1]], "L"]]


def _layout_ncl(layout):
    return sum(1 if e == "L" else (e if isinstance(e, int) else 0) for e in layout)


def _clbit_layout_cases():
    """seed-independent: the circuit's classical bits do not form one register -- several registers, bits outside any register (alone, before /
    after / between registers), a register aliasing existing bits.  Outcomes are indexed by the position of the bit in the circuit.  In every
    program a bit is set to 1 first and LATER another measurement yields 0 / a reset happens / the bit is overwritten with 0: every other
    bit must keep its value.  (The model sees bit positions only, so it covers these too.)"""
    g = lambda nm, *qs: {"name": nm, "qubits": list(qs)}                                # noqa: E731
    m = lambda q, c: {"name": "measure", "qubits": [q], "clbits": [c]}                  # noqa: E731
    n = 0
    for layout in CL_LAYOUTS:
        ncl = _layout_ncl(layout)
        progs = []
        for c in range(ncl):
            # bit c holds 1, then a certain 0 goes to the next bit
            progs.append([g("x", 0), m(0, c), m(1, (c + 1) % ncl)])
        hi, lo = ncl - 1, 0
        progs.append([g("x", 0), m(0, hi), g("reset", 1), g("h", 1), m(1, lo)])                       # reset after the bit was set
        progs.append([g("x", 0), m(0, hi), g("x", 0), m(0, hi), g("h", 0), m(0, lo)])                 # 1 overwritten with 0
        progs.append([g("x", 0), g("x", 1), m(0, lo), m(1, hi), g("reset", 0), m(0, ncl // 2), g("h", 1), m(1, lo)])
        progs.append([g("h", 0), g("cx", 0, 1), m(0, hi), m(1, (hi + 1) % ncl), g("reset", 0), g("sx", 0), m(0, ncl // 2), g("barrier", 0, 1), m(1, hi)])
        for instrs in progs:
            n += 1
            yield ("simulate", {"nq": 2, "ncl": ncl, "clayout": layout, "instrs": instrs, "via": "sampler" if n % 3 == 0 else "func",
                                "always_oracle": True})


MODEL_GATES = set(CLIFF1) | set(CLIFF2)


def _same_name_cases():
    """seed-independent: ONE circuit holding several DIFFERENT unitary gates that share their name, width and parameter list -- user-defined
    blocks (QuantumCircuit.to_gate) a user called the same, instances of a user-defined Gate class given by a matrix, standard controlled
    gates with closed and open controls (ctrl_state), PauliEvolutionGate of different operators for equal times -- on different and on the
    same qubits, with measurements / resets in between.  Each gate must act as ITS unitary.  The reference circuit is written out with
    standard gates (the block's content, x - gate - x for open controls, the rotation equal to the evolution)."""
    g = lambda nm, *qs: {"name": nm, "qubits": list(qs)}                                # noqa: E731
    m = lambda q, c: {"name": "measure", "qubits": [q], "clbits": [c]}                  # noqa: E731
    cu = lambda nm, qs, *inner: {"name": "custom", "gname": nm, "qubits": list(qs), "inner": [g(a, *b) for a, b in inner]}   # noqa: E731
    blk = lambda v, *qs: {"name": "blk", "variant": v, "qubits": list(qs)}              # noqa: E731
    oc = lambda gate, cs, qs, *ps: {"name": "octrl", "gate": gate, "ctrl_state": cs, "qubits": list(qs), "params": list(ps)}   # noqa: E731
    pe = lambda pauli, t, *qs: {"name": "pevo", "pauli": pauli, "time": t, "qubits": list(qs)}   # noqa: E731
    mall = lambda k: [m(q, q) for q in range(k)]                                        # noqa: E731
    progs = [
        # user-defined blocks under one name
        (2, [cu("prep", [0], ("h", [0])), cu("prep", [1], ("x", [0]))] + mall(2)),
        (2, [cu("prep", [1], ("x", [0])), cu("prep", [0], ("h", [0]))] + mall(2)),
        (1, [cu("u", [0], ("x", [0])), m(0, 0), cu("u", [0], ("h", [0])), m(0, 1), g("reset", 0), cu("u", [0], ("sx", [0]), ("sx", [0])), m(0, 2)]),
        (3, [cu("layer", [0, 1], ("h", [0]), ("cx", [0, 1])), m(0, 0), g("reset", 0), g("barrier", 0, 1, 2),
             cu("layer", [2, 0], ("sx", [1]), ("cz", [0, 1]), ("h", [0])), m(1, 1), m(0, 2), m(2, 3)]),
        (3, [cu("layer", [0, 1], ("x", [0]), ("cx", [0, 1])), cu("layer", [1, 2], ("cx", [1, 0]), ("h", [1])), cu("layer", [0, 1], ("x", [0]), ("cx", [0, 1]))] + mall(3)),
        (2, [cu("a", [0], ("h", [0])), cu("a", [0], ("s", [0])), cu("a", [0], ("h", [0])), cu("a", [1], ("y", [0])), cu("a", [0], ("s", [0]))] + mall(2)),
        # a standard NAME on a user-defined block of another content, next to the standard gate
        (2, [g("h", 0), cu("h", [1], ("x", [0])), cu("cx", [0, 1], ("cx", [1, 0]))] + mall(2)),
        (2, [cu("cx", [0, 1], ("h", [0]), ("h", [1]), ("cz", [0, 1])), g("cx", 0, 1), g("h", 1)] + mall(2)),
        # instances of a user-defined gate class (matrix given by __array__, no parameters)
        (2, [g("x", 0), blk("cx", 0, 1), blk("swap", 0, 1), g("h", 0), blk("cz", 0, 1), g("h", 0)] + mall(2)),
        (3, [g("h", 0), blk("cx", 0, 1), m(1, 3), blk("iswap", 1, 2), blk("dcx", 2, 0), g("reset", 1), blk("cx", 0, 1)] + mall(3)),
        (2, [g("sx", 0), blk("0.8", 0, 1), blk("-0.3", 1, 0), blk("cz", 0, 1), g("sx", 1)] + mall(2)),
        # standard controlled gates, closed and open controls
        (2, [oc("cx", 0, [0, 1]), g("cx", 0, 1), m(0, 0), m(1, 1)]),
        (2, [g("h", 0), g("cx", 0, 1), oc("cx", 0, [0, 1]), m(0, 0), m(1, 1)]),
        (3, [g("x", 1), oc("ccx", 2, [0, 1, 2]), oc("ccx", 3, [0, 1, 2]), oc("ccx", 0, [1, 2, 0]), oc("ccx", 1, [0, 2, 1])] + mall(3)),
        (2, [g("h", 0), oc("crx", 0, [0, 1], 1.1), oc("crx", 1, [0, 1], 1.1), oc("cry", 0, [1, 0], 0.7), m(0, 0), g("reset", 0), oc("cry", 1, [1, 0], 0.7), m(0, 1), m(1, 2)]),
        (2, [g("sx", 0), oc("ch", 1, [0, 1]), oc("ch", 0, [0, 1]), oc("cz", 0, [1, 0]), g("cz", 0, 1), g("sx", 0)] + mall(2)),
        (3, [g("h", 0), g("h", 1), oc("cswap", 0, [0, 1, 2]), g("x", 1), oc("cswap", 1, [0, 1, 2])] + mall(3)),
        # PauliEvolutionGate: the operator is not among the parameters (only the time is)
        (2, [pe("Z", 0.7853981633974483, 0), pe("X", 0.7853981633974483, 1)] + mall(2)),
        (2, [pe("X", 0.6, 0), pe("Z", 0.6, 0), pe("Y", 0.6, 1), pe("X", 0.6, 1), m(0, 0), m(1, 1), pe("Y", 0.6, 0), m(0, 2)]),
        (2, [g("h", 0), pe("ZZ", 0.4, 0, 1), pe("XX", 0.4, 0, 1), pe("YY", 0.4, 1, 0), g("h", 1)] + mall(2)),
    ]
    for idx, (nq, instrs) in enumerate(progs):
        flat = _flat(instrs)
        in_model = all(i["name"] in MODEL_GATES or i["name"] in ("measure", "reset", "barrier") for i in flat)
        ncl = 1 + max(i["clbits"][0] for i in instrs if i["name"] == "measure")
        p = {"nq": nq, "ncl": ncl, "instrs": instrs, "via": "sampler" if idx % 2 else "func", "always_oracle": True}
        if not in_model:
            p["oracle_only"] = True
        yield ("simulate", p)


def _reuse_cases():
    """seed-independent: qubit re-use around multi-qubit gates.  A qubit q is reset, then a gate on two or more qubits acts on q -- q being
    the FIRST, a MIDDLE or the LAST argument of the gate, the other arguments in superposition / in |1> -- then q is reset AGAIN and read
    out (directly, or through a cx onto a partner whose measurement shows whether q really was |0>).  Every reset of the program has to
    return its qubit to |0>, whichever argument of the preceding gate the qubit was.  Every multi-qubit gate of Qiskit's standard library
    in every argument position (independent simulator only for names outside the model's table), plus ancillas re-used over several rounds."""
    g = lambda nm, *qs: {"name": nm, "qubits": list(qs)}                                # noqa: E731
    m = lambda q, c: {"name": "measure", "qubits": [q], "clbits": [c]}                  # noqa: E731
    n = 0
    for name, k, npar in _std_gate_names():
        if k < 2:
            continue
        in_model = name in MODEL_GATES
        gate = g(name, *range(k)) if in_model else {"name": "std", "gate": name, "params": STD_ANGLES[:npar], "qubits": list(range(k))}
        for q in range(k):
            others = [o for o in range(k) if o != q]
            for variant in range(2):
                n += 1
                # variant 0: q reset from |0>, partners in superposition; variant 1: q reset from |1>, partners in |1> / superposition
                prep = ([g("reset", q)] + [g("h", o) for o in others] if variant == 0 else
                        [g("x", q), g("reset", q), g("x", others[0])] + [g("h", o) for o in others[1:]])
                if variant == 0:
                    tail = [m(o, o) for o in range(k)]
                else:
                    tail = [g("cx", q, others[-1]), g("barrier", *range(k))] + [m(o, o) for o in range(k)]
                p = {"nq": k, "ncl": k, "instrs": prep + [gate, g("reset", q)] + tail, "via": "sampler" if n % 3 == 0 else "func",
                     "always_oracle": True}
                if not in_model:
                    p["oracle_only"] = True
                yield ("simulate", p)
    # one ancilla used over several rounds (parity extraction), reset between the rounds, as target / second argument every time
    progs = [
        (3, 2, [g("h", 0), g("h", 1), g("cx", 0, 2), g("cx", 1, 2), m(2, 0), g("reset", 2), g("cx", 0, 2), m(2, 1), g("reset", 2), g("cx", 1, 2),
                g("reset", 2), g("cx", 2, 0), g("h", 0), m(0, 0)]),
        (2, 2, [g("reset", 1), g("h", 0), g("cx", 0, 1), g("reset", 1), m(1, 0), m(0, 1)]),
        (2, 2, [g("reset", 1), g("reset", 0), g("x", 0), g("swap", 0, 1), g("reset", 1), g("reset", 0), m(1, 0), m(0, 1)]),
        (3, 3, [g("reset", 2), g("h", 0), g("cy", 0, 2), g("barrier", 0, 1, 2), g("reset", 2), g("cx", 2, 1), m(1, 1), g("h", 1), g("cz", 0, 1),
                g("cx", 1, 2), g("reset", 2), m(2, 2), m(0, 0)]),
        (3, 3, [g("x", 0), g("cx", 0, 1), g("reset", 1), g("cx", 0, 1), g("reset", 1), g("cx", 0, 2), g("reset", 2), g("reset", 2), m(1, 0), m(2, 1), m(0, 2)]),
    ]
    for idx, (nq, ncl, instrs) in enumerate(progs):
        yield ("simulate", {"nq": nq, "ncl": ncl, "instrs": instrs, "via": "sampler" if idx % 2 else "func", "always_oracle": True})


def _middle_qubit_cases():
    """seed-independent: a measurement / reset of a MIDDLE qubit (neither the lowest nor the highest position of the circuit, 3-5 qubits)
    at a moment when qubits BELOW it are entangled with qubits ABOVE it -- a Bell pair (lo, hi) around every middle position, two Bell
    pairs crossing it, a GHZ state over all outer qubits, the middle qubit itself rotated (exact rational angle: in the model) or entangled
    with the pair -- and the outer qubits are NOT all measured afterwards (none, or one of them), so that a wrong marginal probability of
    the middle qubit is not compensated by the branch state.  The marginal of a qubit is a sum over ALL other qubits, lower and higher."""
    g = lambda nm, *qs: {"name": nm, "qubits": list(qs)}                                # noqa: E731
    m = lambda q, c: {"name": "measure", "qubits": [q], "clbits": [c]}                  # noqa: E731
    rot = lambda q, t: {"name": "ry_t", "qubits": [q], "t": t}                          # noqa: E731
    n = 0
    for nq in (3, 4, 5):
        for lo in range(nq):
            for mid in range(lo + 1, nq):
                for hi in range(mid + 1, nq):
                    for kind in ("measure", "reset"):
                        n += 1
                        prep = [g("h", lo), g("cx", lo, hi), rot(mid, ["1/3", "2/5", "-1/2"][n % 3]), g("s", lo)]
                        if n % 4 == 0:
                            prep.append(g("cx", lo, mid))      # the middle qubit entangled with the pair
                        if kind == "measure":
                            tail = [m(mid, 0)]
                        else:
                            tail = [g("reset", mid), g("h", mid), m(mid, 0)]
                        if n % 5 == 0:
                            tail += [g("h", hi), m(hi, 1)]       # one of the outer qubits read out afterwards, the other never
                        elif n % 5 == 1:
                            tail += [g("barrier", *range(nq))]
                        yield ("simulate", {"nq": nq, "ncl": 2, "instrs": prep + tail, "via": "sampler" if n % 3 == 0 else "func",
                                            "always_oracle": True})
    progs = [
        # two Bell pairs crossing the middle qubit
        (5, 1, [g("h", 0), g("cx", 0, 3), g("h", 1), g("cx", 1, 4), rot(2, "1/3"), m(2, 0)]),
        (5, 2, [g("h", 0), g("cx", 0, 4), g("h", 1), g("cx", 1, 3), g("sx", 2), g("reset", 2), g("h", 2), m(2, 0), m(0, 1)]),
        # GHZ over the outer qubits, two middle qubits measured one after the other
        (5, 2, [g("h", 0), g("cx", 0, 3), g("cx", 0, 4), g("h", 1), rot(2, "2/5"), m(1, 0), m(2, 1)]),
        (4, 2, [g("h", 3), g("cx", 3, 0), g("h", 1), g("h", 2), g("cz", 1, 2), m(2, 0), g("reset", 1), m(1, 1)]),
        # no classical bit at all: the single outcome must have probability one
        (3, 0, [g("h", 0), g("cx", 0, 2), g("h", 1), g("reset", 1)]),
        (4, 0, [g("h", 1), g("cx", 1, 3), g("h", 2), g("cy", 2, 0), g("reset", 2), g("barrier", 0, 1, 2, 3)]),
        # the same bit written twice by a middle qubit
        (3, 1, [g("h", 0), g("cx", 0, 2), g("h", 1), m(1, 0), g("h", 1), m(1, 0)]),
        # arbitrary angles / T gate (outside the model's gate table: independent simulator only)
        (3, 1, [g("h", 0), g("cx", 0, 2), {"name": "ry", "qubits": [1], "params": [0.7]}, g("t", 0), m(1, 0)]),
        (4, 2, [g("h", 0), g("cx", 0, 3), {"name": "rx", "qubits": [2], "params": [1.9]}, {"name": "rz", "qubits": [3], "params": [0.4]},
                g("reset", 2), g("h", 2), m(2, 1), m(1, 0)]),
    ]
    for idx, (nq, ncl, instrs) in enumerate(progs):
        in_model = all(i["name"] in MODEL_GATES or i["name"] in ("measure", "reset", "barrier", "ry_t", "rx_t") for i in instrs)
        p = {"nq": nq, "ncl": ncl, "instrs": instrs, "via": "sampler" if (idx % 2 and ncl and any(i["name"] == "measure" for i in instrs)) else "func",
             "always_oracle": True}
        if not in_model:
            p["oracle_only"] = True
        yield ("simulate", p)


def _sweep_cases():
    """seed-independent: ONE ExactSampler.run() call that holds several (circuit, parameter values) pairs -- the V1 parameter-sweep
    idiom: the same parametrised circuit object several times with different values, mixed with an unparametrised circuit, with a
    second template, with copies, with repeated values.  Every returned distribution must be the true one of *its* pair.  The model
    handles one circuit per line, so these go to the independent simulator only (oracle_only)."""
    rot = lambda nm, q, k: {"name": nm, "qubits": [q], "t": "0/1", "pidx": k}          # noqa: E731
    g = lambda nm, *qs: {"name": nm, "qubits": list(qs)}                                # noqa: E731
    m = lambda q, c: {"name": "measure", "qubits": [q], "clbits": [c]}                  # noqa: E731
    A = {"pvec": 2, "instrs": [rot("ry_t", 0, 0), g("cx", 0, 1), m(0, 0), g("reset", 0), rot("rx_t", 0, 1), g("barrier", 0, 1), m(0, 0), m(1, 1)]}
    B = {"pvec": 2, "instrs": [g("h", 0), rot("rx_t", 1, 1), g("cx", 1, 0), m(1, 1), rot("ry_t", 0, 0), m(0, 0)]}
    G = {"pvec": 1, "instrs": [rot("ry_t", 0, 0), m(0, 0), g("x", 0), g("cx", 0, 1), m(1, 1)]}
    F = {"pvec": None, "instrs": [g("h", 0), m(0, 0)]}
    e = lambda c, *t, **kw: dict({"c": c, "t": list(t)}, **kw)                          # noqa: E731
    sweeps = [
        ([A], [e(0, "0/1", "0/1"), e(0, "1/3", "1/1")]),
        ([A], [e(0, "1/3", "1/1"), e(0, "0/1", "0/1")]),
        ([A, F], [e(0, "0/1", "0/1"), e(1), e(0, "1/1", "1/7"), e(0, "3/1", "2/3"), e(1), e(0, "3/2", "1000/1")]),
        ([A, B], [e(0, "1/5", "-1/2"), e(1, "1/5", "-1/2"), e(0, "2/5", "1/3"), e(1, "-2/3", "1/1")]),
        ([A], [e(0, "1/3", "2/5"), e(0, "-1/2", "1/1", copy=True), e(0, "1/3", "2/5"), e(0, "1/1000", "1/1")]),
        ([G], [e(0, "1/3"), e(0, "0/1"), e(0, "1/1"), e(0, "-1/2"), e(0, "1/3")]),
        ([F], [e(0), e(0), e(0, copy=True)]),
        ([B, G, F], [e(1, "1/1"), e(0, "1/2", "1/4"), e(2), e(1, "1/40000"), e(0, "0/1", "1/1"), e(1, "1/1")]),
    ]
    for circs, sweep in sweeps:
        yield ("sweep", {"nq": 2, "ncl": 2, "instrs": circs[0]["instrs"], "circs": circs, "sweep": sweep, "via": "sampler",
                         "oracle_only": True, "always_oracle": True})


# values handed to the sampler for a parametrised circuit: inside [0, 2pi) and outside (negative, beyond one / two / many turns, exact turns)
TWO_PI = 2 * np.pi
PVALS = [[0.4, 1.3, 2.9, 0.8], [-0.9, -3.3, -0.2, -5.1], [TWO_PI + 0.4, 7.5, 9.0, TWO_PI + 2.2], [-TWO_PI - 1.1, 2 * TWO_PI + 0.7, -11.0, 14.2],
         [100.0, -40.5, 33.3, -77.7], [TWO_PI, -TWO_PI, 3 * TWO_PI, TWO_PI]]


def _pstd_text(instrs):
    out = []
    for i in instrs:
        if i["name"] == "pstd":
            args = ", ".join("p%d" % j if (a == 1 and b == 0) else ("%g*p%d" % (a, j) + ("%+g" % b if b else "")) for a, j, b in i["pexpr"])
            out.append(f"{i['gate']}({args}) on {i['qubits']}")
    return "; ".join(out)


def _param_range_cases():
    """seed-independent: parametrised circuits bound by the sampler (ExactSampler.run(circuits, parameter_values)) with values inside AND
    outside [0, 2pi) -- negative, beyond one, two, many turns, exact multiples of 2pi -- feeding every parametrised gate of Qiskit's standard
    library (controlled rotations and cu/cu3 are 4pi-periodic, not 2pi-periodic), plain and through expressions (p/2, -p, 2p+c, two
    parameters in one gate, one parameter in two gates), in dynamic circuits (mid-circuit measurement, reset, overwritten bit).  The
    distribution returned for a pair must be the true one of the circuit with exactly those numbers written in.  The model has neither
    parameters nor these gate names: independent simulator only (oracle_only)."""
    g = lambda nm, *qs: {"name": nm, "qubits": list(qs)}                                              # noqa: E731
    m = lambda q, c: {"name": "measure", "qubits": [q], "clbits": [c]}                                # noqa: E731
    P = lambda gate, qs, *ex: {"name": "pstd", "gate": gate, "qubits": list(qs), "pexpr": [list(x) for x in ex]}   # noqa: E731
    e = lambda c, vals, **kw: dict({"c": c, "vals": [float(v) for v in vals]}, **kw)                  # noqa: E731
    # (i) every parametrised standard gate between layers of fixed rotations, all qubits measured; one run = the value sets one after the other
    for name, k, npar in _std_gate_names():
        if npar == 0:
            continue
        pre = [{"name": "ry", "qubits": [q], "params": [0.9 + 0.4 * q]} for q in range(k)]
        post = [{"name": "rx", "qubits": [q], "params": [-0.6 + 0.5 * q]} for q in range(k)]
        circ = {"pvec": npar, "instrs": pre + [P(name, range(k), *[(1, j, 0) for j in range(npar)])] + post + [m(q, q) for q in range(k)]}
        yield ("sweep", {"nq": k, "ncl": k, "instrs": circ["instrs"], "circs": [circ], "sweep": [e(0, v[:npar]) for v in PVALS], "via": "sampler",
                         "oracle_only": True, "always_oracle": True})
    # (ii) hand-made circuits: control in superposition that interferes afterwards, expressions, mid-circuit measurement / reset
    A = {"pvec": 1, "instrs": [g("h", 0), g("x", 1), P("crz", (0, 1), (1, 0, 0)), g("h", 0), m(0, 0), m(1, 1)]}
    B = {"pvec": 2, "instrs": [g("h", 0), g("h", 1), P("crx", (0, 1), (1, 0, 0)), g("h", 0), m(0, 0), g("reset", 0), P("cry", (1, 0), (1, 1, 0)),
                               m(1, 1), m(0, 2)]}
    C = {"pvec": 1, "instrs": [P("rx", (0,), (0.5, 0, 0)), g("h", 1), P("cp", (1, 0), (-1, 0, 0)), g("h", 1), m(0, 0), m(1, 1)]}
    D = {"pvec": 2, "instrs": [g("h", 0), P("ry", (1,), (2, 0, 0.3)), P("crz", (0, 1), (0.5, 1, -0.2)), P("rz", (0,), (1, 0, 0)), g("h", 0), m(0, 0),
                               g("x", 0), m(0, 0), P("rzz", (0, 1), (0.5, 1, 0)), g("h", 1), m(1, 1)]}
    E = {"pvec": 4, "instrs": [g("h", 0), g("sx", 1), P("cu", (0, 1), (1, 0, 0), (1, 1, 0), (1, 2, 0), (1, 3, 0)), g("h", 0), g("barrier", 0, 1),
                               m(0, 0), m(1, 1)]}
    F = {"pvec": 1, "instrs": [g("h", 0), g("h", 1), P("cu3", (0, 1), (1, 0, 0), (0.5, 0, 0), (-1, 0, 1.0)), g("h", 0), m(0, 2), g("reset", 1), m(1, 1)]}
    for circs, sweep in (([A], [e(0, [v[0]]) for v in PVALS]),
                         ([B, A], [e(0, PVALS[1][:2]), e(1, [PVALS[2][0]]), e(0, PVALS[2][:2]), e(0, PVALS[0][:2]), e(1, [PVALS[3][0]], copy=True),
                                   e(0, PVALS[4][:2])]),
                         ([C], [e(0, [v[0]]) for v in PVALS] + [e(0, [-1.2])]),
                         ([D], [e(0, v[:2]) for v in PVALS]),
                         ([E], [e(0, v) for v in PVALS]),
                         ([F, C], [e(0, [PVALS[1][0]]), e(1, [PVALS[2][1]]), e(0, [PVALS[3][1]]), e(0, [PVALS[0][0]]), e(0, [PVALS[5][0]])])):
        yield ("sweep", {"nq": 2, "ncl": 3, "instrs": circs[0]["instrs"], "circs": circs, "sweep": sweep, "via": "sampler",
                         "oracle_only": True, "always_oracle": True})


def _angle(t):
    import math
    t = Fraction(t)
    return 2 * math.atan2(float(2 * t / (1 + t * t)), float((1 - t * t) / (1 + t * t)))


def _run_sweep(payload):
    from qiskit_addon_cutting.utils.simulation import ExactSampler
    objs = [_circ(dict(payload, pvec=c.get("pvec"), instrs=c["instrs"])) for c in payload["circs"]]
    circuits = [objs[en["c"]].copy() if en.get("copy") else objs[en["c"]] for en in payload["sweep"]]
    values = [[float(v) for v in en["vals"]] if "vals" in en else [_angle(t) for t in en["t"]] for en in payload["sweep"]]
    dists = ExactSampler().run(circuits, values).result().quasi_dists
    return {"ok": [sorted((int(k), float(v)) for k, v in d.items()) for d in dists]}


def _oracle_sweep(payload):
    from ..oracles import sem
    real = call_real(_run_sweep, payload)
    if "error" in real:
        return f"sampler raised {real['error']} on a run of {len(payload['sweep'])} (circuit, parameter values) pairs"
    if len(real["ok"]) != len(payload["sweep"]):
        return f"{len(payload['sweep'])} (circuit, parameter values) pairs submitted, {len(real['ok'])} distributions returned"
    for pos, (en, dist) in enumerate(zip(payload["sweep"], real["ok"])):
        c = payload["circs"][en["c"]]
        # reference: the circuit written out with the numeric angles of this entry
        bound = [dict(i, t=en["t"][i["pidx"]]) if i.get("pidx") is not None else i for i in c["instrs"]]
        br = sem.simulate(_circ(dict(payload, pvec=None, pvals=en.get("vals"), instrs=bound)))
        exp = {int(k): float(np.real(np.trace(r))) for k, r in br.items() if abs(np.trace(r)) > 1e-13}
        got = {k: v for k, v in dist if abs(v) > 1e-13}
        where = (f"entry {pos} of one ExactSampler.run (circuit #{en['c']}{' (copy)' if en.get('copy') else ''}, "
                 + (f"parameter values {en['vals']}; gates {_pstd_text(c['instrs'])})" if "vals" in en else f"parameter t-values {en['t']})"))
        if abs(sum(v for _, v in dist) - 1) > 1e-9:
            return f"{where}: probabilities sum to {sum(v for _, v in dist)}"
        for k in sorted(set(exp) | set(got)):
            if abs(exp.get(k, 0) - got.get(k, 0)) > 1e-9:
                return f"{where}: outcome {k}: true probability {exp.get(k, 0)}, sampler {got.get(k, 0)}"
    return None


# the outcome-key arithmetic of the model is the translated source (harness/translate/keys.py -> Generated/Keys.lean)
THEOREMS = THEOREMS + ["CKT.C13Gen.keys_translated", "CKT.C13Gen.step_flippers"]


def regenerate():
    """the outcome-key arithmetic of simulate_statevector_outcomes, translated on every run"""
    from ..translate import keys
    from ..core import REPO, LEAN
    keys.regenerate(REPO, LEAN)


def cases(rng, tier):
    yield from _middle_qubit_cases()
    yield from _reuse_cases()
    yield from _deterministic_cases()
    yield from _clbit_layout_cases()
    yield from _same_name_cases()
    yield from _sweep_cases()
    yield from _param_range_cases()
    N = 250 if tier == "quick" else 4000
    # two branches that reach the same classical outcome with states of equal magnitudes but different relative phase (reset of an
    # entangled qubit, or an overwritten classical bit), followed by a phase-sensitive gate and measurement
    for k in range(8 if tier == "quick" else 80):
        nq = rng.randint(2, 3)
        a, b = rng.sample(range(nq), 2)
        instrs = [{"name": "h", "qubits": [a]}, {"name": "cx", "qubits": [a, b]}]
        if rng.random() < 0.5:
            instrs.append({"name": rng.choice(["s", "z", "sdg", "id"]), "qubits": [rng.choice([a, b])]})
        if k % 2 == 0:
            instrs += [{"name": "h", "qubits": [a]}, {"name": "reset", "qubits": [b]}]
        else:
            instrs += [{"name": "h", "qubits": [a]}, {"name": "measure", "qubits": [b], "clbits": [0]}, {"name": "x", "qubits": [b]},
                       {"name": "measure", "qubits": [b], "clbits": [0]}]
        instrs += [{"name": "h", "qubits": [a]}, {"name": "measure", "qubits": [a], "clbits": [1]}]
        yield ("simulate", {"nq": nq, "ncl": 2, "instrs": instrs, "via": rng.choice(["func", "sampler"]), "qregs": gen.rand_regs(rng, nq),
                            "always_oracle": True})
    # circuits whose rotation angles arrive through a ParameterVector with more than ten elements (bound by position, not by name)
    for _ in range(3 if tier == "quick" else 30):
        nq = rng.randint(2, 3)
        m = rng.randint(11, 14)
        order = list(range(m))
        rng.shuffle(order)
        instrs = []
        for k in order:
            instrs.append({"name": rng.choice(["ry_t", "rx_t"]), "qubits": [rng.randrange(nq)], "t": frac(Fraction(rng.randint(-9, 9), rng.choice([5, 7, 11]))),
                           "pidx": k})
            if rng.random() < 0.3:
                instrs.append({"name": "cx", "qubits": rng.sample(range(nq), 2)})
        instrs += [{"name": "measure", "qubits": [q], "clbits": [q]} for q in range(nq)]
        yield ("simulate", {"nq": nq, "ncl": nq, "instrs": instrs, "via": "sampler", "pvec": m, "always_oracle": True})
    # a reset of a qubit that is never measured again but acts on a measured qubit afterwards
    for _ in range(4 if tier == "quick" else 40):
        nq = rng.randint(2, 3)
        a, b = rng.sample(range(nq), 2)
        instrs = [{"name": rng.choice(["x", "h", "sx"]), "qubits": [a]}]
        if rng.random() < 0.5:
            instrs += [{"name": "h", "qubits": [b]}, {"name": "cx", "qubits": [b, a]}]
        instrs += [{"name": "reset", "qubits": [a]}, {"name": rng.choice(["cx", "cz", "cy"]), "qubits": [a, b]}]
        if rng.random() < 0.5:
            instrs.append({"name": "h", "qubits": [b]})
        instrs.append({"name": "measure", "qubits": [b], "clbits": [0]})
        yield ("simulate", {"nq": nq, "ncl": 1, "instrs": instrs, "via": rng.choice(["func", "sampler"]), "always_oracle": True})
    for _ in range(N):
        p = _gen(rng, tier)
        if p["nq"] > 1 and rng.random() < 0.4:
            p["qregs"] = gen.rand_regs(rng, p["nq"])   # several quantum registers (positions are circuit-wide, not per register)
        r = rng.random()
        if r < 0.04:
            p["instrs"].insert(rng.randint(0, len(p["instrs"])), {"name": "x", "qubits": [0], "cond": True})
            p["ncl"] = max(1, p["ncl"])
        elif r < 0.1:
            # a classically conditioned measurement or reset (must be refused like any conditioned operation)
            p["ncl"] = max(2, p["ncl"])
            ins = rng.choice([{"name": "measure", "qubits": [rng.randrange(p["nq"])], "clbits": [1], "cond": True},
                              {"name": "reset", "qubits": [rng.randrange(p["nq"])], "cond": True}])
            p["instrs"].insert(rng.randint(0, len(p["instrs"])), ins)
            p["instrs"].insert(0, {"name": "h", "qubits": [0]})
            p["instrs"].insert(1, {"name": "measure", "qubits": [0], "clbits": [0]})
        elif r < 0.14 and p["ncl"] > 0:
            p["instrs"].insert(rng.randint(0, len(p["instrs"])), {"name": "opaque_cl", "qubits": [0], "clbits": [0]})
        yield ("simulate", p)
    # two circuits of identical layout sampled one after the other through ExactSampler; they differ only in the definition of a
    # user-defined gate of the same name (a result cache keyed without the definition would answer the second from the first)
    for _ in range(max(6, N // 25)):
        nq = rng.randint(1, 3)
        inner_a = [{"name": rng.choice(["h", "x", "sx", "id", "s"]), "qubits": [0]} for _ in range(rng.randint(1, 2))]
        inner_b = [{"name": rng.choice(["h", "x", "sx", "id", "y"]), "qubits": [0]} for _ in range(rng.randint(1, 2))]
        q = rng.randrange(nq)
        tail = [{"name": "h", "qubits": [rng.randrange(nq)]}] + [{"name": "measure", "qubits": [k], "clbits": [k]} for k in range(nq)]
        yield ("simulate", {"nq": nq, "ncl": nq, "via": "sampler", "instrs": [{"name": "custom", "qubits": [q], "inner": inner_b}] + tail,
                            "before": [{"name": "custom", "qubits": [q], "inner": inner_a}] + tail})
    # overwrite-heavy family: bits that already hold 1 are written again
    for _ in range(N // 5):
        nq = rng.randint(1, 3)
        instrs = [{"name": "x", "qubits": [0]}, {"name": "measure", "qubits": [0], "clbits": [0]}]
        for _ in range(rng.randint(1, 6)):
            instrs.append(rng.choice([{"name": "measure", "qubits": [rng.randrange(nq)], "clbits": [rng.randrange(2)]},
                                      {"name": "h", "qubits": [rng.randrange(nq)]}, {"name": "x", "qubits": [rng.randrange(nq)]}]))
        yield ("simulate", {"nq": nq, "ncl": 2, "instrs": instrs, "via": "func"})


def search_cases(rng, tier):
    for _ in range(3000):
        yield ("simulate", _gen(rng, "thorough", clifford=rng.random() < 0.4))


def _circ(payload, key="instrs"):
    from qiskit.circuit import QuantumCircuit, QuantumRegister, ClassicalRegister, Instruction, CircuitInstruction
    if payload.get("qregs"):
        regs = [QuantumRegister(sz, f"q{i}") for i, sz in enumerate(payload["qregs"])]
    else:
        regs = [QuantumRegister(payload["nq"], "q")]
    if payload["ncl"] and not payload.get("clayout"):
        regs.append(ClassicalRegister(payload["ncl"], "c"))
    qc = QuantumCircuit(*regs)
    for k, e in enumerate(payload.get("clayout") or ()):
        from qiskit.circuit import Clbit
        if e == "L":
            qc.add_bits([Clbit()])
        elif isinstance(e, int):
            qc.add_register(ClassicalRegister(e, f"c{k}"))
        else:
            qc.add_register(ClassicalRegister(name=f"c{k}", bits=[qc.clbits[i] for i in e[1]]))
    pv = None
    if payload.get("pvec"):
        from qiskit.circuit import ParameterVector
        pv = ParameterVector("t", payload["pvec"])
    for ins in payload[key]:
        qs = [qc.qubits[q] for q in ins["qubits"]]
        cs = [qc.clbits[c] for c in ins.get("clbits", [])]
        if ins["name"] == "custom":
            sub = QuantumCircuit(len(ins["qubits"]), name="prep")
            for i2 in ins["inner"]:
                sub.append(canon.mk_op(i2["name"]), list(i2["qubits"]))
            op = sub.to_gate()
            if ins.get("gname"):
                op.name = ins["gname"]
        elif ins["name"] == "std":
            op = _mk_std(ins["gate"], ins.get("params", ()))
        elif ins["name"] == "blk":
            op = canon.mk_op("blk", [ins["variant"]])
        elif ins["name"] == "octrl":
            from qiskit.circuit.library.standard_gates import get_standard_gate_name_mapping
            op = get_standard_gate_name_mapping()[ins["gate"]].base_class(*[float(x) for x in ins.get("params", ())], ctrl_state=ins["ctrl_state"])
        elif ins["name"] == "pevo":
            from qiskit.circuit.library import PauliEvolutionGate
            from qiskit.quantum_info import SparsePauliOp
            op = PauliEvolutionGate(SparsePauliOp(ins["pauli"]), time=float(ins["time"]))
        elif ins["name"] == "pstd":
            # a standard gate whose k-th argument is a * (parameter #j) + b for ins["pexpr"][k] = [a, j, b]: built on the elements of the
            # ParameterVector (bound by the sampler), or -- payload["pvals"] given -- written out with the numbers (the reference circuit)
            from qiskit.circuit.library.standard_gates import get_standard_gate_name_mapping
            if payload.get("pvals") is not None:
                args = [float(a) * float(payload["pvals"][j]) + float(b) for a, j, b in ins["pexpr"]]
            else:
                args = [pv[j] if (a == 1 and b == 0) else (a * pv[j] if b == 0 else a * pv[j] + b) for a, j, b in ins["pexpr"]]
            op = get_standard_gate_name_mapping()[ins["gate"]].base_class(*args)
        elif ins["name"] == "opaque_cl":
            op = Instruction("opaque_cl", 1, 1, [])
        elif ins["name"] == "barrier":
            op = canon.mk_op("barrier", [len(qs)])
        elif ins["name"] in ("ry_t", "rx_t"):
            import math
            t = Fraction(ins["t"])
            c, sn = (1 - t * t) / (1 + t * t), 2 * t / (1 + t * t)
            if pv is not None and ins.get("pidx") is not None:
                from qiskit.circuit.library import RYGate, RXGate
                op = (RYGate if ins["name"] == "ry_t" else RXGate)(pv[ins["pidx"]])   # value bound by the sampler
            else:
                op = canon.mk_op(ins["name"][:2], [2 * math.atan2(float(sn), float(c))])
        else:
            op = canon.mk_op(ins["name"], ins.get("params", ()))
        if ins.get("cond"):
            op = op.to_mutable()
            op = op.c_if(qc.clbits[0], 1)
        qc.append(CircuitInstruction(op, qs, cs))
    return qc


def _flat(instrs):
    out = []
    for i in instrs:
        if i["name"] == "custom":
            out += [{"name": j["name"], "qubits": [i["qubits"][q] for q in j["qubits"]]} for j in i["inner"]]
        elif i["name"] == "blk":
            # the user-defined gate class of canon.mk_op("blk", ...): its matrix is that of the named standard gate / of rzx(angle)
            std = i["variant"] in ("cx", "cz", "swap", "iswap", "dcx")
            out.append({"name": i["variant"], "qubits": i["qubits"]} if i["variant"] in MODEL_GATES else
                       {"name": "std", "gate": i["variant"] if std else "rzx", "params": [] if std else [float(i["variant"])], "qubits": i["qubits"]})
        elif i["name"] == "octrl":
            # open controls written out: x on every control whose required value is 0, the closed-control gate, x again
            nctrl = {"ccx": 2, "ccz": 2}.get(i["gate"], 1)
            flips = [{"name": "x", "qubits": [i["qubits"][k]]} for k in range(nctrl) if not (i["ctrl_state"] >> k) & 1]
            out += flips + [{"name": "std", "gate": i["gate"], "params": i.get("params", []), "qubits": i["qubits"]}] + flips
        elif i["name"] == "pevo":
            # exp(-i t P) for a Pauli letter / a doubled letter = the rotation of angle 2t about it
            out.append({"name": "std", "gate": "r" + i["pauli"].lower(), "params": [2 * float(i["time"])], "qubits": i["qubits"]})
        else:
            out.append(i)
    return out


def model_line(kind, payload):
    if payload.get("oracle_only"):
        # gate names outside the model's gate table: nothing to compare, the independent simulator (oracle) decides
        return {"op": "c13.simulate", "nq": 1, "instrs": []}
    return {"op": "c13.simulate", "nq": payload["nq"],
            "instrs": [{"name": i["name"], "qubits": i["qubits"], "clbits": i.get("clbits", []), "conditioned": bool(i.get("cond")), "t": i.get("t", "0/1")} for i in _flat(payload["instrs"])]}


def run_real(kind, payload):
    from qiskit_addon_cutting.utils.simulation import simulate_statevector_outcomes, ExactSampler
    if payload.get("sweep"):
        return _run_sweep(payload)
    qc = _circ(payload)
    if payload.get("before"):
        ExactSampler().run([_circ(payload, "before")]).result()
    if payload.get("via") == "sampler" and payload.get("pvec"):
        import math
        vals = [0.0] * payload["pvec"]
        for i in payload["instrs"]:
            if i.get("pidx") is not None:
                t = Fraction(i["t"])
                vals[i["pidx"]] = 2 * math.atan2(float(2 * t / (1 + t * t)), float((1 - t * t) / (1 + t * t)))
        quasi = ExactSampler().run([qc], [vals]).result().quasi_dists[0]
        d = {int(k): float(v) for k, v in quasi.items()}
    elif payload.get("via") == "sampler":
        quasi = ExactSampler().run([qc]).result().quasi_dists[0]
        d = {int(k): float(v) for k, v in quasi.items()}
    else:
        d = {int(k): float(v) for k, v in simulate_statevector_outcomes(qc).items()}
    return {"ok": sorted(d.items())}


def model_canon(kind, payload, out):
    if payload.get("oracle_only"):
        return None
    if "driver_error" in out:
        raise RuntimeError(out["driver_error"])
    if "error" in out:
        return out
    return {"ok": [(int(k), Fraction(v)) for k, v in out["ok"]]}


def compare(kind, payload, real, model):
    if payload.get("oracle_only"):
        return None
    if "error" in real or "error" in model:
        return None if real == model else f"real={str(real)[:200]} model={str(model)[:200]}"
    r = {k: v for k, v in real["ok"]}
    m = {k: float(v) for k, v in model["ok"] if v != 0}
    for k in sorted(set(r) | set(m)):
        a, b = r.get(k, 0.0), m.get(k, 0.0)
        if abs(a - b) > 1e-9:
            return f"outcome {k}: probability {a} vs model {b}"
        # an outcome the model rules out must not be reported (beyond rounding noise); one the model gives a noticeable
        # probability must be reported; outcomes of probability below 1e-12 may or may not be listed (pruning tolerance)
        if k not in m and abs(a) > 1e-12:
            return f"outcome {k} is impossible in the model but reported with probability {a}"
        if k not in r and b > 1e-12:
            return f"outcome {k} has probability {b} in the model but is not reported"
    return None


def describe(kind, payload):
    names = [i["name"] for i in payload["instrs"]]
    return {"nq": payload["nq"], "ncl": payload["ncl"], "measures": names.count("measure"), "resets": names.count("reset"), "via": payload.get("via"),
            "pairs_in_one_run": len(payload["sweep"]) if payload.get("sweep") else 1}


def nontrivial_key(kind, payload):
    if not any(i["name"] in ("measure", "reset") for i in payload["instrs"]):
        return None
    return hash(json.dumps(payload, sort_keys=True))


def oracle(kind, payload):
    from ..oracles import sem
    if payload.get("sweep"):
        return _oracle_sweep(payload)
    refused = any(i.get("cond") or (i["name"] not in ("measure",) and i.get("clbits")) for i in payload["instrs"])
    flat = dict(payload, instrs=_flat(payload["instrs"]), pvec=None)   # the reference circuit carries the bound angles
    real = call_real(lambda p: run_real(kind, p), payload)
    if refused:
        return None if real.get("error") == "ValueError" else f"classically conditioned / classical-argument operation not refused with ValueError: {str(real)[:120]}"
    if "error" in real:
        return f"sampler raised {real['error']}"
    qc = _circ(flat)
    br = sem.simulate(qc)
    exp = {int(k): float(np.real(np.trace(r))) for k, r in br.items() if abs(np.trace(r)) > 1e-13}
    got = {k: v for k, v in real["ok"] if abs(v) > 1e-13}
    if abs(sum(v for _, v in real["ok"]) - 1) > 1e-9:
        return f"probabilities sum to {sum(v for _, v in real['ok'])}"
    for k in set(exp) | set(got):
        if abs(exp.get(k, 0) - got.get(k, 0)) > 1e-9:
            return f"outcome {k}: true probability {exp.get(k, 0)}, sampler {got.get(k, 0)}"
    if payload["ncl"] and any(k >> payload["ncl"] for k in got):
        return "outcome outside the classical register"
    return None
