"""C14 — decomposing cut placeholders puts the selected operations in the right place."""
from __future__ import annotations

import copy
import numpy as np
import json
from fractions import Fraction

from .. import canon
from ..core import call_real

ID = "C14"
LEAN_MODULE = "CKT.Props.C14"
THEOREMS = [
    "CKT.C14.spliceLoop_eq_spec",
    "CKT.C14.spliceSpec_idxsWhere",
    "CKT.C14.spliceLoop_all",
    "CKT.C14.stage2_eq_flatMap",
    "CKT.C14.stage1_eq_flatMap",
    "CKT.C14.stages_eq_decomposeSpec",
    "CKT.C14.markers_length",
    "CKT.C14.markers_at",
    "CKT.C14.markers_none_left",
    "CKT.C14.opsFor_clean",
    "CKT.C14.decomposeSpec_no_placeholder",
    "CKT.C14.forM'_ok",
    "CKT.C14.validate_ok",
    "CKT.C14.setBasisId_ok",
    "CKT.C14.assignMapIds_refuses_length",
    "CKT.C14.decompose_refuses_invalid",
    "CKT.C14.decompose_ok_shape",
    "CKT.C14.validate_pairs_one_qubit",   # D13: a decomposition of two members consists of one-qubit placeholders
]
RULE = ("circuits on 1-4 qubits with 0-4 placeholders (two-qubit, paired one-qubit halves sharing a basis object or an equal copy, "
        "standalone one-qubit) interleaved with ordinary gates; real gate bases and synthetic bases (empty sequences, markers, resets); "
        "all map choices, omitted map choice (preset / unset), in place or not; malformed stream: bad group sizes, non-placeholder index, "
        "mismatching bases, count mismatch, out-of-range / wrong number of map ids. deterministic families (seed independent, oracle on every case): "
        "one placeholder gate OBJECT appended at several positions (two-qubit, pairs of halves, standalone) with pairwise different map ids, not in "
        "place; pairs of halves whose two bases are nearly the same decomposition (same coefficients, sequences differing only by trailing "
        "operations / in one operation / in one coefficient) next to equal, separately built bases; every set partition of four halves of one basis "
        "(and of three joint placeholders / a pair plus a lone half / a joint placeholder plus a pair) into groups, count and bases consistent: blocks "
        "of three or four elements are refused, blocks of one or two are decomposed; bases whose sequences hold operations that do nothing to the "
        "state (explicit identity gates alone / repeated / around other operations and markers, zero-angle rotations) next to empty sequences, "
        "every map, explicit and preset choice. "
        "non-trivial = at least one placeholder; distinct by payload")
ASSUMPTIONS = ["QuantumCircuit.copy/append/data assignment and Instruction.definition are Qiskit's (modelled as list operations)",
               "a single running-offset step (overwrite + inserts / delete) is modelled as one take/++/drop splice"]

GATE_BASES = [("cx", []), ("cz", []), ("rzz", [0.3]), ("crx", [1.1]), ("move", []), ("swap", []), ("cy", []), ("ryy", [-0.7]), ("ecr", [])]
OPS1 = ["x", "y", "z", "h", "s", "sdg", "sx", "t", "qpd_measure", "reset"]
PLAIN1 = ["h", "x", "s", "t", "sx", "z"]
PLAIN2 = ["cx", "cz", "swap"]


def _synthetic_basis(rng, nsides):
    nmaps = rng.randint(1, 5)
    maps = []
    for _ in range(nmaps):
        sides = []
        for _ in range(nsides):
            k = rng.choice([0, 0, 1, 2, 3])
            ops = []
            for _ in range(k):
                nm = rng.choice(OPS1 + ["rz", "ry"])
                ops.append({"name": nm, "params": [rng.choice([0.25, -1.5, 0.5])] if nm in ("rz", "ry") else []})
            sides.append(ops)
        maps.append(sides)
    return {"kind": "synthetic", "maps": maps, "coeffs": [str(Fraction(rng.randint(-8, 8), 4)) for _ in range(nmaps)]}


def _p2(q, b, obj=None, lab=None):
    d = {"name": "qpd_2q", "qubits": list(q), "basis": b, "label": lab}
    if obj is not None:
        d["obj"] = obj
    return d


def _p1(q, b, half, obj=None, lab=None):
    d = {"name": "qpd_1q", "qubits": [q], "basis": b, "half": half, "label": lab}
    if obj is not None:
        d["obj"] = obj
    return d


def _g(name, *qs, params=None):
    d = {"name": name, "qubits": list(qs)}
    if params:
        d["params"] = list(params)
    return d


def _o(name, *params):
    return {"name": name, "params": list(params)}


def _fixed(nq, instrs, bases, ids, map_ids, mode="valid", cregs=(), inplace=False):
    return ("decompose", {"nq": nq, "instrs": instrs, "bases": bases, "ids": [list(d) for d in ids], "nmaps": [None] * len(ids),
                          "inplace": inplace, "cregs": [list(r) for r in cregs], "pick": 12345, "mode": mode, "prewarm": False,
                          "map_ids": list(map_ids), "always_oracle": True})


_SYN2 = {"kind": "synthetic", "coeffs": ["1/2", "1/2", "-1", "3/4"],
         "maps": [[[], [_o("x")]], [[_o("h"), _o("qpd_measure")], [_o("z")]], [[_o("s")], []], [[_o("sx"), _o("rz", 0.25)], [_o("qpd_measure"), _o("reset")]]]}
_SYN1 = {"kind": "synthetic", "coeffs": ["1", "-1/2", "1/4"], "maps": [[[]], [[_o("h"), _o("qpd_measure"), _o("h")]], [[_o("y")]]]}


def _family_shared_object():
    """The same placeholder gate OBJECT sits at several positions of the input; every position has its own decomposition and map id.
    Each listed position gets the chosen map of ITS decomposition, in place or not."""
    import random
    rzz = {"kind": "gate", "gate": "rzz", "params": [0.3]}
    cx = {"kind": "gate", "gate": "cx", "params": []}
    # one two-qubit placeholder object used twice; decompositions listed in both orders
    two = [_g("h", 0), _p2([0, 1], 0, obj=0, lab="cut_rzz"), _g("cx", 1, 2), _p2([2, 1], 0, obj=0, lab="cut_rzz"), _g("s", 0)]
    yield _fixed(3, two, [rzz], [[1], [3]], [0, 3])
    yield _fixed(3, two, [rzz], [[3], [1]], [1, 4], cregs=[["c", 2]])
    yield _fixed(3, two, [rzz], [[1], [3]], [5, 2])
    # the same requests in place (D11: the map id used to be written into the shared object, so every position got the last-listed map)
    yield _fixed(3, two, [rzz], [[1], [3]], [0, 3], inplace=True)
    yield _fixed(3, two, [rzz], [[3], [1]], [1, 4], cregs=[["c", 2]], inplace=True)
    # one pair of one-qubit halves used for two cuts, an unrelated two-qubit placeholder in between
    pair = [_p1(0, 0, 0, obj=1, lab="cut_0"), _g("rz", 1, params=[0.25]), _p1(1, 0, 1, obj=2, lab="cut_0"), _p2([1, 2], 1),
            _p1(1, 0, 0, obj=1, lab="cut_0"), _p1(2, 0, 1, obj=2, lab="cut_0")]
    yield _fixed(3, pair, [cx, rzz], [[0, 2], [3], [4, 5]], [1, 2, 4])
    yield _fixed(3, pair, [cx, rzz], [[5, 4], [2, 0], [3]], [0, 5, 3])
    # only the first half is one object in both pairs, the second halves are distinct objects
    half = [_p1(0, 0, 0, obj=3), _p1(1, 0, 1), _g("h", 1), _p1(1, 0, 0, obj=3), _g("cz", 0, 1), _p1(0, 0, 1)]
    yield _fixed(2, half, [cx], [[0, 1], [3, 5]], [2, 3])
    # three uses of one object with a synthetic basis (empty sequences, markers, resets)
    three = [_p2([0, 1], 0, obj=4), _g("x", 1), _p2([1, 2], 0, obj=4), _g("barrier", 0, 1, 2), _p2([2, 0], 0, obj=4)]
    yield _fixed(3, three, [_SYN2], [[0], [2], [4]], [0, 1, 3])
    yield _fixed(3, three, [_SYN2], [[4], [0], [2]], [2, 3, 1], cregs=[["c", 1]])
    # a standalone one-qubit placeholder object at three positions
    alone = [_p1(0, 0, 0, obj=5, lab="foo_1"), _g("t", 0), _p1(1, 0, 0, obj=5, lab="foo_1"), _p1(0, 0, 0, obj=5, lab="foo_1")]
    yield _fixed(2, alone, [_SYN1], [[0], [2], [3]], [1, 0, 2])
    yield _fixed(2, alone, [_SYN1], [[3], [2], [0]], [1, 2, 0])
    yield _fixed(2, alone, [_SYN1], [[0], [2], [3]], [1, 0, 2], inplace=True)
    yield _fixed(3, pair, [cx, rzz], [[0, 2], [3], [4, 5]], [1, 2, 4], inplace=True)
    yield _fixed(3, three, [_SYN2], [[4], [0], [2]], [2, 3, 1], inplace=True)
    # a fixed pseudo-random continuation of the same family (own generator: independent of VERIF_SEED)
    rng = random.Random(140914)
    for _ in range(8):
        nq = rng.randint(2, 4)
        bases = [rng.choice([rzz, cx, _SYN2, {"kind": "gate", "gate": "crx", "params": [1.1]}, {"kind": "gate", "gate": "swap", "params": []}])]
        k = rng.randint(2, 3)
        as_pair = rng.random() < 0.4
        body = []
        for u in range(k):
            if as_pair:
                body.append([_p1(rng.randrange(nq), 0, 0, obj=10), _p1(rng.randrange(nq), 0, 1, obj=11)])
            else:
                body.append([_p2(rng.sample(range(nq), 2), 0, obj=10)])
        for _ in range(rng.randint(1, 4)):
            body.append([_g(rng.choice(PLAIN2), *rng.sample(range(nq), 2))] if rng.random() < 0.4 else [_g(rng.choice(PLAIN1), rng.randrange(nq))])
        rng.shuffle(body)
        instrs = [x for grp in body for x in grp]
        ids, cur = [], None
        for i, ins in enumerate(instrs):
            if ins["name"] == "qpd_2q":
                ids.append([i])
            elif ins["name"] == "qpd_1q" and ins["half"] == 0:
                cur = [i]
            elif ins["name"] == "qpd_1q":
                ids.append(cur + [i])
        rng.shuffle(ids)
        nm = 4 if bases[0] is _SYN2 else 6
        yield _fixed(nq, instrs, bases, ids, rng.sample(range(nm), len(ids)), cregs=rng.choice([[], [["c", 2]]]))


_SYNB = {"kind": "synthetic", "coeffs": ["1/2", "-1/4", "3/4"],
         "maps": [[[_o("barrier")], [_o("x")]], [[_o("barrier"), _o("barrier")], [_o("barrier")]],
                  [[_o("h"), _o("barrier")], []]]}
_SYNB1 = {"kind": "synthetic", "coeffs": ["1", "-1/2"], "maps": [[[_o("barrier")]], [[]]]}


def _family_map_forms():
    """The map choice given as list / tuple / numpy array / numpy integers, also while the placeholders carry other preset ids (the explicit
    choice wins); an EMPTY choice with placeholders present (refused).  Sequences made only of directives (barriers) are sequences, not nothing."""
    rzz = {"kind": "gate", "gate": "rzz", "params": [0.3]}
    cx = {"kind": "gate", "gate": "cx", "params": []}
    one = [_g("h", 0), _p2([0, 1], 0), _g("s", 1)]
    two = [_p2([0, 1], 0), _g("cx", 1, 2), _p1(2, 1, 0, lab="cut_7"), _g("x", 0), _p1(0, 1, 1, lab="cut_7")]
    for form in ("list", "tuple", "ndarray", "npints"):
        for mids, pre in (([0], [3]), ([4], [0]), ([2], None)):
            c = _fixed(3, one, [rzz], [[1]], mids)
            c[1].update(map_form=form, preset=pre)
            yield c
        for mids, pre in (([4, 3], [0, 0]), ([0, 5], [2, 1]), ([1, 0], None)):
            c = _fixed(3, two, [rzz, cx], [[0], [2, 4]], mids, inplace=(form == "tuple"))
            c[1].update(map_form=form, preset=pre)
            yield c
    for form in ("list", "tuple", "ndarray"):
        for body, bs, ids in ((one, [rzz], [[1]]), (two, [rzz, cx], [[0], [2, 4]])):
            c = _fixed(3, body, bs, ids, [0] * len(ids), mode="map_empty")
            c[1].update(map_form=form)
            yield c
    # barrier-only sequences
    bar2 = [_g("h", 0), _p2([0, 1], 0), _g("cx", 1, 2), _p2([2, 1], 0), _p1(2, 1, 0), _g("t", 2)]
    for mids in ([0, 1, 0], [1, 2, 1], [2, 0, 0], [1, 1, 1]):
        for inplace in (False, True):
            yield _fixed(3, bar2, [_SYNB, _SYNB1], [[1], [3], [4]], mids, inplace=inplace)
    pairb = [_p1(0, 0, 0, lab="cut_0"), _g("rz", 1, params=[0.25]), _p1(1, 0, 1, lab="cut_0")]
    for m in (0, 1, 2):
        yield _fixed(2, pairb, [_SYNB], [[2, 0]], [m])


def _family_empty_grouping():
    """An EMPTY `instruction_ids` for circuits that do contain placeholders (with preset map ids, so nothing else is missing): the grouping lists
    0 of n placeholders and must be refused, with `map_ids` omitted or empty, in place or not."""
    rzz = {"kind": "gate", "gate": "rzz", "params": [0.3]}
    cx = {"kind": "gate", "gate": "cx", "params": []}
    one = [_g("h", 0), _p2([0, 1], 0), _g("s", 1)]
    two = [_p2([0, 1], 0), _g("cx", 1, 2), _p1(2, 1, 0, lab="cut_7"), _g("x", 0), _p1(0, 1, 1, lab="cut_7")]
    for body, bs, ids in ((one, [rzz], [[1]]), (two, [rzz, cx], [[0], [2, 4]])):
        for mode in ("ids_empty_none", "ids_empty_list"):
            for inplace in (False, True):
                yield _fixed(3, body, bs, ids, [1] * len(ids), mode=mode, inplace=inplace)


def _family_near_bases():
    """A pair of halves [i, j] must share an equivalent basis: the two halves hold bases that are nearly, but not, the same decomposition
    (to be refused), or equal bases built separately (to be decomposed)."""
    crz = {"kind": "gate", "gate": "crz", "params": [0.8]}      # = the rzz(-0.4) basis with an rz appended to every sequence of the second qubit
    rzz = {"kind": "gate", "gate": "rzz", "params": [-0.4]}
    short = {"kind": "synthetic", "coeffs": ["1/2", "1/2", "-1"],
             "maps": [[[], [_o("x")]], [[_o("h"), _o("qpd_measure")], [_o("z")]], [[_o("s")], []]]}
    longer = {"kind": "synthetic", "coeffs": ["1/2", "1/2", "-1"],
              "maps": [[[], [_o("x")]], [[_o("h"), _o("qpd_measure"), _o("h")], [_o("z")]], [[_o("s")], [_o("qpd_measure")]]]}
    lead = {"kind": "synthetic", "coeffs": ["1/2", "1/2", "-1"],      # an extra LEADING operation
            "maps": [[[], [_o("x")]], [[_o("h"), _o("qpd_measure")], [_o("s"), _o("z")]], [[_o("s")], []]]}
    inner = {"kind": "synthetic", "coeffs": ["1/2", "1/2", "-1"],     # one operation replaced
             "maps": [[[], [_o("y")]], [[_o("h"), _o("qpd_measure")], [_o("z")]], [[_o("s")], []]]}
    coeff = {"kind": "synthetic", "coeffs": ["1/2", "1/4", "-1"], "maps": short["maps"]}
    angle = {"kind": "gate", "gate": "rzz", "params": [-0.4000001]}
    same = copy.deepcopy(short)

    def circ(b_first, b_second, order, m, nq=2):
        instrs = [_g("h", 0), _p1(0, 0, 0, lab="cut_0"), _g("rz", 1, params=[0.125]), _p1(1, 1, 1, lab="cut_0"), _g("cx", 0, 1)]
        return _fixed(nq, instrs, [b_first, b_second], [[1, 3] if order == 0 else [3, 1]], [m], mode="near_basis")
    for a, b in ((crz, rzz), (rzz, crz), (short, longer), (longer, short)):
        for order, m in ((0, 0), (1, 2)):
            yield circ(a, b, order, m)
    yield circ(short, lead, 0, 1)
    yield circ(short, inner, 1, 0)
    yield circ(short, coeff, 0, 2)
    yield circ(rzz, angle, 0, 3)
    # equal bases, built separately: a consistent grouping
    yield circ(short, same, 0, 1)
    yield circ(crz, dict(crz), 1, 4)
    # the near-equal pair next to a consistent two-qubit placeholder, and inside a circuit with two pairs
    instrs = [_p1(2, 0, 0), _p2([0, 1], 2), _g("h", 2), _p1(0, 1, 1), _p1(1, 0, 0), _p1(2, 0, 1)]
    yield _fixed(3, instrs, [short, longer, rzz], [[1], [0, 3], [4, 5]], [2, 2, 1], mode="near_basis")
    yield _fixed(3, instrs, [short, longer, rzz], [[4, 5], [3, 0], [1]], [0, 1, 5], mode="near_basis")


_SYNI = {"kind": "synthetic", "coeffs": ["1/2", "1/4", "1/4", "-1/2"],
         "maps": [[[_o("id")], [_o("x")]], [[_o("h"), _o("id"), _o("qpd_measure")], [_o("id"), _o("id")]], [[], [_o("s"), _o("id")]],
                  [[_o("rz", 0.0), _o("id"), _o("p", 0.0)], [_o("id"), _o("qpd_measure"), _o("id")]]]}
_SYNI1 = {"kind": "synthetic", "coeffs": ["1/2", "1/4", "1/4", "1"], "maps": [[[_o("id"), _o("z")]], [[]], [[_o("id")]], [[_o("rx", 0.0), _o("u", 0.0, 0.0, 0.0)]]]}


def _family_trivial_ops():
    """Bases whose operation sequences contain operations that do nothing to the state -- explicit identity gates (alone, repeated, before /
    after / between other operations and markers), zero-angle rotations -- next to empty sequences.  "Exactly the chosen map's operation
    sequence" includes them: an identity-only sequence is a sequence of identity gates, not an empty one.  Joint placeholders, pairs of
    halves, standalone halves; every map; explicit and preset map choice; in place or not."""
    body = [_g("h", 0), _p2([0, 1], 0), _g("cx", 1, 2), _p1(2, 0, 0, lab="cut_3"), _p1(1, 1, 0), _g("z", 0), _p1(0, 0, 1, lab="cut_3"), _g("x", 2)]
    ids = [[1], [3, 6], [4]]
    for k in range(4):
        yield _fixed(3, body, [_SYNI, _SYNI1], ids, [k, (k + 1) % 4, (k + 2) % 4], inplace=(k == 3))
        yield _fixed(3, body, [_SYNI, _SYNI1], [[4], [6, 3], [1]], [k, k, (k + 3) % 4], cregs=[["c", 1]] if k % 2 else [])
    # map choice omitted, the placeholders carry their map ids
    two = [_p2([1, 0], 0), _g("h", 1), _p1(0, 1, 0)]
    for a, b in ((1, 0), (0, 2), (3, 3), (2, 1)):
        c = _fixed(2, two, [_SYNI, _SYNI1], [[0], [2]], [a, b], mode="none_preset", inplace=(a == 3))
        yield c
    # a circuit on one qubit whose only instructions are identity-only placeholders
    lone = [_p1(0, 0, 0), _p1(0, 0, 0)]
    yield _fixed(1, lone, [_SYNI1], [[0], [1]], [2, 2])
    yield _fixed(1, lone, [_SYNI1], [[1], [0]], [2, 1])
    # a real gate basis next to them, an identity gate of the circuit itself next to the placeholder (kept like any other instruction)
    mix = [_g("id", 0), _p2([0, 1], 0), _g("id", 1), _p2([1, 0], 1), _g("id", 0)]
    for a, b in ((0, 0), (1, 3), (3, 5), (2, 1)):
        yield _fixed(2, mix, [_SYNI, {"kind": "gate", "gate": "cx", "params": []}], [[1], [3]], [a, b])


def _set_partitions(items):
    if not items:
        yield []
        return
    first, rest = items[0], items[1:]
    for part in _set_partitions(rest):
        for k in range(len(part)):
            yield part[:k] + [[first] + part[k]] + part[k + 1:]
        yield [[first]] + part


def _family_group_shapes():
    """EVERY way of grouping the placeholders of a circuit into decompositions, all placeholders holding one (shared or separately built,
    equal) basis, every placeholder listed exactly once and one map id per group: the total count and the bases are consistent, so the only
    thing that tells a grouping apart is the SIZE of its blocks.  Blocks of one or two elements are decompositions (one joint placeholder /
    a lone half, a pair of halves); a block of three or four elements is no decomposition and the request has to be refused."""
    cx = {"kind": "gate", "gate": "cx", "params": []}
    four = [_g("h", 0), _p1(0, 0, 0), _g("cx", 0, 1), _p1(1, 0, 1), _p1(2, 0, 0), _g("s", 2), _p1(0, 0, 1), _g("t", 1)]
    for n, part in enumerate(_set_partitions([1, 3, 4, 6])):
        ids = [list(b) for b in part] if n % 2 == 0 else [list(reversed(b)) for b in reversed(part)]
        yield _fixed(3, four, [_SYN2], ids, [(n + j) % 4 for j in range(len(ids))], mode="group_shape", inplace=(n % 3 == 0))
    # the same with separately built, equal bases on the four halves
    four_c = [_p1(0, 0, 0), _g("cx", 0, 1), _p1(1, 1, 1), _p1(2, 2, 0), _p1(0, 3, 1)]
    bs = [_SYN2, {"kind": "copy", "of": 0}, {"kind": "copy", "of": 0}, {"kind": "copy", "of": 0}]
    for ids, mids in (([[0], [2, 3, 4]], [1, 2]), ([[3, 0, 2], [4]], [0, 3]), ([[0, 2, 3, 4]], [1]), ([[0, 2], [3, 4]], [3, 1]), ([[4, 3, 2]], [0])):
        yield _fixed(3, four_c, bs, ids, mids, mode="group_shape")
    # three joint two-qubit placeholders of one basis (one gate cut three times) listed as ONE decomposition and one by one
    three = [_p2([0, 1], 0), _g("h", 1), _p2([1, 2], 0), _g("cz", 0, 2), _p2([2, 0], 0)]
    # a block of TWO that contains a joint two-qubit placeholder is no decomposition either (D13: the package used to let it through
    # validation and then stopped on a bare assert, after an in-place call had already rewritten part of the circuit)
    for ids, mids in (([[0, 2, 4]], [2]), ([[4, 0, 2]], [5]), ([[0], [2], [4]], [0, 4, 2]), ([[0, 2], [4]], [1, 3]), ([[4], [2, 0]], [0, 5])):
        for inplace in (False, True):
            yield _fixed(3, three, [cx], ids, mids, mode="group_shape", inplace=inplace)
    # a pair of halves and a standalone half of the same basis in one block of three; a joint placeholder grouped with the halves of another cut
    mixed = [_p1(0, 0, 0, lab="cut_0"), _g("x", 1), _p1(1, 0, 1, lab="cut_0"), _p1(1, 0, 0, lab="cut_1")]
    for ids, mids in (([[0, 2, 3]], [1]), ([[3, 2, 0]], [0]), ([[0, 2], [3]], [2, 1])):
        yield _fixed(2, mixed, [_SYN2], ids, mids, mode="group_shape", cregs=[["c", 1]])
    joint = [_p2([0, 1], 0), _p1(1, 0, 0), _g("h", 0), _p1(0, 0, 1)]
    for ids, mids in (([[0, 1, 3]], [4]), ([[1, 3, 0]], [0]), ([[0], [1, 3]], [5, 2]), ([[0, 1], [3]], [1, 2]), ([[1, 0], [3]], [1, 2]), ([[3, 0], [1]], [4, 0])):
        for inplace in (False, True):
            yield _fixed(2, joint, [cx], ids, mids, mode="group_shape", inplace=inplace)


def cases(rng, tier):
    yield from _family_group_shapes()
    yield from _family_shared_object()
    yield from _family_near_bases()
    yield from _family_map_forms()
    yield from _family_empty_grouping()
    yield from _family_trivial_ops()
    N = 250 if tier == "quick" else 5000
    for _ in range(N):
        nq = rng.randint(1, 4)
        nph = rng.randint(0, 4)
        bases, instrs, ids = [], [], []
        slots = []  # (kind, basis idx)
        for _ in range(nph):
            kind = rng.choice(["2q", "pair", "single"]) if nq >= 2 else rng.choice(["single", "pair"])
            if kind == "single" and rng.random() < 0.6:
                bases.append(_synthetic_basis(rng, 1)); nsides = 1
            elif rng.random() < 0.5:
                g, ps = rng.choice(GATE_BASES); bases.append({"kind": "gate", "gate": g, "params": ps}); nsides = 2
            else:
                bases.append(_synthetic_basis(rng, 2)); nsides = 2
            slots.append((kind, len(bases) - 1, nsides))
        # lay out instructions
        body = []
        copies = {}
        for si, (kind, b, nsides) in enumerate(slots):
            lab = rng.choice([None, f"cut_{si}", "foo_1"])
            if kind == "2q":
                q = rng.sample(range(nq), 2)
                body.append([{"name": "qpd_2q", "qubits": q, "basis": b, "label": lab, "slot": si}])
            elif kind == "pair":
                qa, qb = rng.randrange(nq), rng.randrange(nq)
                bb = b
                if rng.random() < 0.3:
                    copies[len(bases)] = b
                    bases.append({"kind": "copy", "of": b}); bb = len(bases) - 1
                body.append([{"name": "qpd_1q", "qubits": [qa], "basis": b, "half": 0, "label": lab, "slot": si}])
                body.append([{"name": "qpd_1q", "qubits": [qb], "basis": bb, "half": 1, "label": lab, "slot": si}])
            else:
                body.append([{"name": "qpd_1q", "qubits": [rng.randrange(nq)], "basis": b, "half": rng.randrange(nsides), "label": lab, "slot": si}])
        for _ in range(rng.randint(0, 6)):
            if nq >= 2 and rng.random() < 0.4:
                body.append([{"name": rng.choice(PLAIN2), "qubits": rng.sample(range(nq), 2)}])
            elif rng.random() < 0.15:
                k = rng.randint(1, nq)
                body.append([{"name": "barrier", "qubits": rng.sample(range(nq), k)}])
            else:
                body.append([{"name": rng.choice(PLAIN1), "qubits": [rng.randrange(nq)]}])
        rng.shuffle(body)
        instrs = [x for grp in body for x in grp]
        by_slot = {}
        for i, ins in enumerate(instrs):
            if "slot" in ins:
                by_slot.setdefault(ins["slot"], []).append(i)
        ids = [by_slot[s] for s in sorted(by_slot)]
        for d in ids:
            rng.shuffle(d)
        order = list(range(len(ids)))
        rng.shuffle(order)
        ids = [ids[o] for o in order]
        nmaps = []
        for d in ids:
            b = instrs[d[0]]["basis"]
            desc = bases[b]
            nmaps.append(None if desc["kind"] != "synthetic" else len(desc["maps"]))
        mode = rng.random()
        payload = {"nq": nq, "instrs": instrs, "bases": bases, "ids": ids, "nmaps": nmaps,
                   "inplace": rng.random() < 0.4, "cregs": rng.choice([[], [], [["c", 2]]]),
                   "pick": rng.randrange(1 << 30), "mode": "valid", "prewarm": rng.random() < 0.25}
        if mode < 0.62:
            pass
        elif mode < 0.70:
            payload["mode"] = "none_preset"
        elif mode < 0.78:
            payload["mode"] = "none_unset"
        elif mode < 0.82:
            payload["mode"] = "map_out_of_range"
        elif mode < 0.84:
            payload["mode"] = "map_len"
        elif mode < 0.86 and ids:
            payload["mode"] = "drop_decomp"
        elif mode < 0.88 and ids:
            payload["mode"] = "dup_decomp"
        elif mode < 0.92:
            payload["mode"] = "non_qpd_index"
        elif mode < 0.95:
            payload["mode"] = "group_size"
        elif mode < 1.0:
            payload["mode"] = "basis_mismatch"
        yield ("decompose", payload)


def _materialise(payload):
    """Build the real objects and the concrete ids / map ids for this payload."""
    import random
    rng = random.Random(payload["pick"])
    bases = []
    for d in payload["bases"]:
        if d["kind"] == "copy":
            bases.append(copy.deepcopy(bases[d["of"]]))
        else:
            bases.append(canon.build_basis(d))
    ids = [list(d) for d in payload["ids"]]
    instrs = [dict(i) for i in payload["instrs"]]
    mode = payload["mode"]
    map_ids = [rng.randrange(len(bases[instrs[d[0]]["basis"]].maps)) for d in ids]
    if payload.get("map_ids") is not None and mode in ("valid", "near_basis", "group_shape", "none_preset"):
        map_ids = list(payload["map_ids"])      # the deterministic families name their map ids
    if payload.get("preset") is not None:
        # the placeholders already carry (other) map ids; an explicit map choice overrides them
        for d, m in zip(ids, payload["preset"]):
            for g in d:
                instrs[g]["basis_id"] = m
    if mode == "map_empty":
        # an EMPTY map-id sequence is a choice of zero maps, not an omitted choice: refused unless there is nothing to decompose
        for d, m in zip(ids, map_ids):
            for g in d:
                instrs[g]["basis_id"] = m
        map_ids = []
    if mode in ("ids_empty_none", "ids_empty_list"):
        # an EMPTY grouping for a circuit that does contain placeholders (all of them carrying a map id already): zero of n listed -> refused
        for d, m in zip(ids, map_ids):
            for g in d:
                instrs[g]["basis_id"] = m
        ids = []
        map_ids = None if mode == "ids_empty_none" else []
    if mode in ("none_preset",):
        for d, m in zip(ids, map_ids):
            for g in d:
                instrs[g]["basis_id"] = m
        map_ids = None
    elif mode == "none_unset":
        for d, m in zip(ids, map_ids):
            for g in d:
                instrs[g]["basis_id"] = m
        if ids:
            # any member of a decomposition may be the unset one (first- or last-listed half of a pair)
            pairs = [d for d in ids if len(d) == 2]
            d = rng.choice(pairs) if pairs and rng.random() < 0.6 else rng.choice(ids)
            instrs[d[rng.randrange(len(d))]]["basis_id"] = None
        map_ids = None
    elif mode == "map_out_of_range" and ids:
        k = rng.randrange(len(ids))
        n = len(bases[instrs[ids[k][0]]["basis"]].maps)
        map_ids[k] = rng.choice([n, n + 3, -1])
    elif mode == "map_len":
        map_ids = map_ids + [0] if rng.random() < 0.5 or not map_ids else map_ids[:-1]
    elif mode == "drop_decomp" and ids:
        ids.pop(rng.randrange(len(ids)))
        map_ids = [rng.randrange(len(bases[instrs[d[0]]["basis"]].maps)) for d in ids]
    elif mode == "dup_decomp" and ids:
        # every placeholder is listed, one decomposition twice (possibly with another map id): more entries than placeholders
        k = rng.randrange(len(ids))
        ids.insert(rng.randint(0, len(ids)), list(ids[k]))
        map_ids = [rng.randrange(len(bases[instrs[d[0]]["basis"]].maps)) for d in ids]
    elif mode == "non_qpd_index":
        plain = [i for i, x in enumerate(instrs) if not x["name"].startswith("qpd")]
        if plain:
            if ids and rng.random() < 0.5:
                ids[rng.randrange(len(ids))].append(rng.choice(plain))
            else:
                ids.append([rng.choice(plain)])
                map_ids.append(0)
    elif mode == "group_size" and ids:
        k = rng.randrange(len(ids))
        if rng.random() < 0.5:
            ids[k] = []
        else:
            ids[k] = ids[k] + ids[k][:1] + ids[k][:1]
    elif mode == "basis_mismatch":
        pairs = [d for d in ids if len(d) == 2]
        if pairs:
            d = rng.choice(pairs)
            bases.append(canon.build_basis({"kind": "gate", "gate": "rxx", "params": [0.123]}))
            instrs[d[1]]["basis"] = len(bases) - 1
            instrs[d[1]]["half"] = min(instrs[d[1]]["half"], 1)
    desc = {"nq": payload["nq"], "cregs": payload["cregs"], "instrs": instrs}
    qc = canon.build_circuit(desc, bases)
    # "obj": k -- the very same placeholder gate object sits at every position carrying that k (a gate built once and appended repeatedly)
    first = {}
    for i, ins in enumerate(instrs):
        k = ins.get("obj")
        if k is None or not ins["name"].startswith("qpd"):
            continue
        if k in first:
            qc.data[i] = qc.data[i].replace(operation=qc.data[first[k]].operation)
        else:
            first[k] = i
    if payload.get("prewarm"):
        # history: the definition of every placeholder was read earlier, while it carried another map id (drawing, transpiling, ...)
        from qiskit_addon_cutting.qpd import BaseQPDGate
        for inst in qc.data:
            op = inst.operation
            if isinstance(op, BaseQPDGate):
                orig = op.basis_id
                if orig is None and op.num_qubits == 2 and (payload["pick"] >> 3) % 2:
                    # the definition of a two-qubit placeholder is read while no map is selected yet (its two halves exist all the same)
                    _ = op.definition
                    continue
                op.basis_id = (0 if orig != 0 else len(op.basis.maps) - 1)
                _ = op.definition
                op.basis_id = orig
    return qc, bases, ids, map_ids


def model_line(kind, payload):
    qc, bases, ids, map_ids = _materialise(payload)
    t = canon.BasisTable()
    for b in bases:
        t.index(b)
    c = canon.canon_circuit(qc, t)
    return {"op": "c14.decompose", "circuit": c, "bases": t.canon(), "ids": ids, "map_ids": map_ids}


def _strip(c):
    return {"nq": c["nq"], "cregs": [list(r) for r in c["cregs"]],
            "instrs": [{k: i.get(k) for k in ("name", "qubits", "clbits", "params", "label", "half", "basis_id")} for i in c["instrs"]]}


def run_real(kind, payload):
    from qiskit_addon_cutting.qpd import decompose_qpd_instructions
    qc, bases, ids, map_ids = _materialise(payload)
    before = canon.snapshot(qc)
    ids_before = copy.deepcopy(ids)
    form = payload.get("map_form")
    if map_ids is not None and form == "tuple":
        map_ids = tuple(map_ids)
    elif map_ids is not None and form == "ndarray":
        map_ids = np.array(map_ids, dtype=int)
    elif map_ids is not None and form == "npints":
        map_ids = [np.int64(m) for m in map_ids]
    out = decompose_qpd_instructions(qc, ids, map_ids, inplace=payload["inplace"])
    res = {"ok": _strip(canon.canon_circuit(out))}
    if payload["inplace"]:
        res["same_object"] = out is qc
    else:
        res["input_unchanged"] = canon.snapshot(qc) == before and ids == ids_before
    return res


def model_canon(kind, payload, out):
    if "driver_error" in out:
        raise RuntimeError(out["driver_error"])
    if "error" in out:
        return {"error": out["error"]}
    res = {"ok": _strip(out["ok"])}
    if out.get("spec") is not None:
        spec = [{k: i.get(k) for k in ("name", "qubits", "clbits", "params", "label", "half", "basis_id")} for i in out["spec"]]
        if spec != res["ok"]["instrs"]:
            res["spec_differs"] = True
    if payload["inplace"]:
        res["same_object"] = True
    else:
        res["input_unchanged"] = True
    return res


def compare(kind, payload, real, model):
    if real != model:
        return f"real={json.dumps(real)[:400]} model={json.dumps(model)[:400]}"
    return None


def describe(kind, payload):
    return {"mode": payload["mode"], "shared_gate_object": any(i.get("obj") is not None for i in payload["instrs"]), "prewarm": bool(payload.get("prewarm")), "nq": payload["nq"], "placeholders": sum(1 for i in payload["instrs"] if i["name"].startswith("qpd")),
            "inplace": payload["inplace"]}


def nontrivial_key(kind, payload):
    if not any(i["name"].startswith("qpd") for i in payload["instrs"]):
        return None
    return hash(json.dumps(payload, sort_keys=True))


def _basis_signature(b):
    """What a decomposition IS: every operation sequence of every map, and the coefficients."""
    return (tuple(tuple(tuple((op.name, tuple(canon.canon_param(p) for p in op.params)) for op in side) for side in m) for m in b.maps),
            tuple(canon.canon_param(c) for c in b.coeffs))


def oracle(kind, payload):
    """Direct splice computed from the request, compared with what the real function returns."""
    real = call_real(lambda p: run_real(kind, p), payload)
    qc, bases, ids, map_ids = _materialise(payload)
    mode = payload["mode"]
    t = canon.BasisTable()
    for b in bases:
        t.index(b)
    c = canon.canon_circuit(qc, t)
    instrs = c["instrs"]
    # is the request valid?
    valid = True
    listed = [g for d in ids for g in d]
    if any(len(d) not in (1, 2) for d in ids):
        valid = False
    elif any(not instrs[g]["name"].startswith("qpd") for g in listed):
        valid = False
    elif any(len(d) == 2 and any(instrs[g]["name"] == "qpd_2q" for g in d) for d in ids):
        # a joint two-qubit placeholder is a decomposition of its own: it cannot be paired with anything (D13)
        valid = False
        mode = mode + ": a decomposition of two members contains a joint two-qubit placeholder"
    elif any(bases[instrs[d[0]]["basis"]] != bases[instrs[g]["basis"]] for d in ids for g in d):
        valid = False
    elif any(_basis_signature(bases[instrs[d[0]]["basis"]]) != _basis_signature(bases[instrs[g]["basis"]]) for d in ids for g in d):
        # decided here structurally (operation names and parameters of every sequence, coefficients), not by the package's own comparison
        valid = False
        mode = mode + ": the members of one decomposition hold bases that differ in an operation sequence or a coefficient"
    elif len(listed) != sum(1 for i in instrs if i["name"].startswith("qpd")):
        valid = False
    elif map_ids is not None and len(map_ids) != len(ids):
        valid = False
    elif map_ids is not None and any(not (0 <= m < len(bases[instrs[d[0]]["basis"]].maps)) for d, m in zip(ids, map_ids)):
        valid = False
    elif map_ids is None and any(instrs[g]["basis_id"] is None for g in listed):
        valid = False
    if not valid:
        return None if real.get("error") == "ValueError" else f"inconsistent request ({mode}) not refused with ValueError: {json.dumps(real)[:200]}"
    if "error" in real:
        return f"valid request raised {real['error']}"
    choice = {}
    if map_ids is not None:
        for d, m in zip(ids, map_ids):
            for g in d:
                choice[g] = m
    else:
        for g in listed:
            choice[g] = instrs[g]["basis_id"]
    exp = []
    ncl = sum(s for _, s in payload["cregs"])
    nmark = 0
    for idx, ins in enumerate(instrs):
        if ins["name"] == "qpd_2q":
            seqs = [(0, ins["qubits"][0]), (1, ins["qubits"][1])]
        elif ins["name"] == "qpd_1q":
            seqs = [(ins["half"], ins["qubits"][0])]
        else:
            exp.append({k: ins.get(k) for k in ("name", "qubits", "clbits", "params", "label")})
            continue
        b = bases[ins["basis"]]
        for half, q in seqs:
            for op in b.maps[choice[idx]][half]:
                if op.name == "qpd_measure":
                    exp.append({"name": "measure", "qubits": [q], "clbits": [ncl + nmark], "params": [], "label": None})
                    nmark += 1
                else:
                    exp.append({"name": op.name, "qubits": [q], "clbits": [], "params": [canon.canon_param(p) for p in op.params], "label": op.label})
    got = [{k: i.get(k) for k in ("name", "qubits", "clbits", "params", "label")} for i in real["ok"]["instrs"]]
    if got != exp:
        return f"decomposed circuit differs from the direct splice: got {json.dumps(got)[:300]} expected {json.dumps(exp)[:300]}"
    cregs = [list(r) for r in payload["cregs"]] + [["qpd_measurements", max(1, nmark)]]
    if real["ok"]["cregs"] != cregs:
        return f"classical registers {real['ok']['cregs']} != {cregs}"
    if real.get("input_unchanged") is False:
        return "input circuit was modified although inplace=False"
    if real.get("same_object") is False:
        return "inplace=True did not return the input circuit"
    return None
