"""C08 — a reported minimum really is the minimum sampling overhead."""
from __future__ import annotations

import itertools
import json
from .. import cutfind
from ..core import call_real

ID = "C08"
LEAN_MODULE = "CKT.Props.C08Gen"
THEOREMS = [
    # the model actions are the translated source (harness/translate/actions.py -> Generated/CutActions.lean)
    "CKT.C07Gen.registered", "CKT.C07Gen.run_eq_model", "CKT.C07Gen.actionList_translated", "CKT.C08Gen.nextStates_translated",
    # T08.4 at specification level (gate cuts): useless cuts can be removed without changing the subcircuits or raising the overhead
    "CKT.C08Spec.conn_prune", "CKT.C08Spec.cost_prune_le", "CKT.C08Spec.prune_no_useless", "CKT.C08Spec.useless_cuts_removable",
    # T08.4 model link (gate cuts): a width-feasible plan without useless cuts is executed step by step by the model (no guard fires), so it is a
    # goal of the search tree with exactly its overhead; with the flag theorem: the reported minimum is at most the overhead of EVERY width-feasible gate-cut plan
    "CKT.C08Link.plan_step", "CKT.C08Link.plan_path", "CKT.C08Link.plan_reachable", "CKT.C08Link.conn_eq", "CKT.C08Link.optimize_min_over_gate_plans",
    # converse (gate cuts only, Props/C08Conv): every state of the tree is a plan prefix (classes = components of the applied gates, widths = component
    # sizes, cost = product of the cut gammas); the returned state is a width-feasible plan; flag => the reported overhead IS the minimum over all such plans
    "CKT.C08Link.child_link", "CKT.C08Link.desc_link", "CKT.C08Link.goal_feasible", "CKT.C08Link.greedy_desc", "CKT.C08Link.optimize_result_is_plan",
    "CKT.C08Link.optimize_is_minimum",
    # T08.4 with wire cuts (Props/C08Wire): a plan = apply / gate cut / cut the wire of the first, second or both operands, per gate; a width-feasible
    # plan without useless cuts is executed step by step by the model (all five actions, no guard fires) and is a goal of the tree with its overhead;
    # plans beyond the search's wire budget cost more than the greedy incumbent; flag => reported overhead <= overhead of every such plan
    "CKT.C08Wire.merge_same", "CKT.C08Wire.fresh_same", "CKT.C08Wire.step_app", "CKT.C08Wire.step_gcut", "CKT.C08Wire.step_left",
    "CKT.C08Wire.step_right", "CKT.C08Wire.step_both", "CKT.C08Wire.plan_stepW", "CKT.C08Wire.plan_reachableW", "CKT.C08Wire.optimize_min_over_plans",
    "CKT.C08Wire.cost_ge_pow", "CKT.C08Wire.ceilLog2_spec", "CKT.C08Wire.over_gamma_budget", "CKT.C08Wire.optimize_min_over_plans_any_budget",
    # T08.4 in full (Props/C08Prune): a useless cut — gate cut or wire cut — can be dropped: the plan without it replays to the phi-image of the
    # bookkeeping (wire d identified with wire o, later wires move down), no subcircuit grows, the cost falls; by induction on the number of cuts every
    # width-feasible plan is dominated by one without useless cuts; flag => reported overhead <= overhead of EVERY width-feasible plan
    "CKT.C08Wire.phi_fibre", "CKT.C08Wire.sim_step", "CKT.C08Wire.Drop.conn_fwd", "CKT.C08Wire.Drop.conn_bwd", "CKT.C08Wire.countP_le_of_inj",
    "CKT.C08Wire.Drop.feasible", "CKT.C08Wire.drop_left", "CKT.C08Wire.drop_right", "CKT.C08Wire.drop_both1", "CKT.C08Wire.drop_both2",
    "CKT.C08Wire.gcut_conn", "CKT.C08Wire.costUpTo_mono", "CKT.C08Wire.mu_lt", "CKT.C08Wire.improve", "CKT.C08Wire.prune_exists",
    "CKT.C08Wire.optimize_min_over_all_plans",
    # converse with wire cuts (Props/C08ConvW): every state of the tree is a plan prefix (wire map = the specification's bookkeeping, classes = wires joined
    # so far, widths = class sizes, cost = product of the factors); the returned state is a width-feasible plan; flag => the reported overhead IS the minimum
    "CKT.C08Wire.child_generic", "CKT.C08Wire.child_app", "CKT.C08Wire.child_gcut", "CKT.C08Wire.child_left", "CKT.C08Wire.child_right",
    "CKT.C08Wire.child_both", "CKT.C08Wire.child_linkW", "CKT.C08Wire.desc_linkW", "CKT.C08Wire.goal_feasibleW",
    "CKT.C08Wire.optimize_result_is_planW", "CKT.C08Wire.optimize_is_minimumW", "CKT.C08Wire.optimize_is_minimum_gate_lo"] + ["CKT.C08." + t for t in [
    "desc_cost", "insertKey_sorted", "put1_spec", "put_spec", "lb_of_head", "lb_of_empty", "updMin_fields", "updUb_fields",
    "good_flag_of_popped", "loop_good", "pass_good", "flag_sound", "actCost_ge_one", "child_cost", "cut_mono", "firstMin_spec",
    "passes_inv", "startSearch_good", "optimize_flag_sound",
    # second sentence of C08 (Props/C08Full): an unrestricted search always reports the minimum; flagged runs agree for every random stream
    "phi_insertKey", "phi_put", "children_wt", "expand_good", "loop_complete", "pass_complete", "cut_ranked", "passes_complete",
    "optimize_complete", "pass_ub", "passes_origin", "optimize_origin", "optimize_seed_independent", "unrestricted_seed_independent"]]
LEVEL_TEXT = ("flag soundness and completeness proved for the executable model of the search for every input, limit and random stream; against the specification (a plan chooses apply / gate cut / left, right or both-wires cut per gate; subcircuits = classes of wires joined by the gates that are not gate-cut; overhead = product of the cut factors) the model is proved to report, when the flag is set, an overhead that is attained by a width-feasible plan and that no width-feasible plan undercuts (Props/C08Link, C08Conv, C08Wire, C08Prune, C08ConvW: optimize_is_minimumW), under the hypotheses that the greedy pass found an incumbent (always when gate cuts are permitted) whose cost is below 2^4096; model tied to the code by exact comparison with the seeded random stream replayed and by the brute force over all 5^g plans")
RULE = ("as C07, with emphasis on search limits: gamma limits below, at and above the optimum, backjump limits 0..100 and none, several seeds "
        "per circuit; fixed families: greedy warm start with wire cuts vs cheaper gate-cut optimum, several quantum registers; thorough: every circuit on 3 qubits with up to 3 cx gates x width 1..2 x every permitted-cut combination against the "
        "brute force over all 5^g plans; two full subcircuits with a pair across them hit by several gates (both-wires cut optimal); ten-qubit gate-cut-only "
        "searches of about 13 000 backjumps without a backjump limit against the minimum over qubit partitions (oracle only); non-integer gamma limits just above "
        "the optimum with their integer part below it (greedy warm start not optimal); expensive gates (kappa 7) whose gate-cut child exceeds the incumbent "
        "while a single-wire-cut child does not; compared with the model: flag, overhead (exactly on integer-kappa circuits), cut circuit; distinct by payload")
ASSUMPTIONS = ["the theorem `optimize_flag_sound` quantifies over the goal states of the model's search tree (per-gate choices that pass the action "
               "guards within the wire budget); for gate-cut plans `C08Link.optimize_min_over_gate_plans` proves that these cover, cost-wise, every "
               "width-feasible plan of the specification (subcircuits = connected components of the applied gates); for plans with wire cuts "
               "`C08Wire.optimize_min_over_all_plans` (Props/C08Prune) proves it for every width-feasible plan (subcircuits = classes of wires joined by the gates "
               "that are not gate-cut, a wire cut giving the qubit a fresh wire), under the hypotheses that the greedy pass found an incumbent and that its cost "
               "is below 2^4096 (the fuel of the model's ceil-log2); the brute force over all 5^g plans of the independent segment model still validates the "
               "specification against the code",
               "numpy Generator stream, kappa values and heapq as in C07"]


def _wire_then_gate(rng):
    """optimum = wire cut of a qubit followed by a gate cut of a cheap gate on that same qubit (expensive gates around it)"""
    perm = [0, 1, 2]
    rng.shuffle(perm)
    big, small = rng.choice(["swap", "iswap"]), rng.choice(["cx", "cz", "cy"])
    base = [(big, 1, 0), (big, 2, 1), (small, 1, 0), (big, 2, 1)]
    instrs = [{"name": n, "qubits": [perm[a], perm[b]]} for n, a, b in base]
    return {"nq": 3, "instrs": instrs, "seed": rng.randrange(1 << 30), "max_gamma": 1e6, "max_backjumps": None,
            "gate_lo": True, "wire_lo": True, "width": 2, "exact": False}


def _family_every_gate():
    """every registered two-qubit gate name once as the only gate, one qubit per subcircuit, gate cuts only: the reported minimum must be that gate's own
    overhead; and as the dearer / cheaper alternative next to a cx + cs pair across the same boundary (the search has to compare the two)"""
    from .. import gen as _gen
    import math
    out = []
    for k, fam in enumerate(_gen.FIXED_2Q + _gen.PARAM_2Q):
        g = {"name": fam, "qubits": [0, 1]}
        if fam in _gen.PARAM_2Q:
            g["params"] = [0.7]
        base = {"seed": 5 + k, "max_gamma": 1e6, "max_backjumps": None, "gate_lo": True, "wire_lo": False, "exact": False, "always_oracle": True}
        out.append(dict(base, nq=2, instrs=[g], width=1))
        out.append(dict(base, nq=3, instrs=[g, {"name": "cx", "qubits": [1, 2]}, {"name": "cs", "qubits": [1, 2]}], width=2))
    return out


def regenerate():
    """the five search actions, translated from cut_finding/cutting_actions.py on every run"""
    from ..translate import actions
    from ..core import REPO, LEAN
    actions.regenerate(REPO, LEAN)


def cases(rng, tier):
    N = 120 if tier == "quick" else 1500
    for p in _family_every_gate():
        yield ("find_cuts", p)
    # backjump limits that actually run out (0, 1, 2, 3) on small circuits whose greedy warm start is not optimal: the state popped when the limit is
    # hit must stay in the frontier, so the flag may only be set when the reported overhead is the minimum
    small = [(3, [("cx", 2, 0), ("swap", 1, 0)]), (4, [("swap", 2, 1), ("cx", 3, 2), ("swap", 2, 0), ("swap", 3, 2)]),
             (3, [("swap", 0, 1), ("cx", 1, 2), ("cx", 0, 1)]), (4, [("cx", 0, 1), ("swap", 1, 2), ("cx", 2, 3), ("swap", 0, 3)])]
    for nq_, gl in small:
        for bj in (0, 1, 2, 3):
            for glo, wlo in ((True, False), (True, True)):
                for sd in (0, 1):
                    yield ("find_cuts", {"nq": nq_, "instrs": [{"name": n_, "qubits": [a_, b_]} for n_, a_, b_ in gl], "seed": sd, "max_gamma": 1e6,
                                         "max_backjumps": bj, "gate_lo": glo, "wire_lo": wlo, "width": 2, "exact": True, "always_oracle": True})
    # wire cuts only, a gamma limit far below the optimum, and an optimum that needs fewer wire cuts than the greedy answer: the flag may only be set
    # with the minimum (the wire budget must not be derived from the user's limit)
    for gl in ([("swap", 0, 3), ("cx", 0, 2), ("swap", 1, 3), ("swap", 0, 1), ("cx", 2, 1)],
               [("swap", 1, 2), ("cx", 1, 3), ("swap", 0, 2), ("swap", 1, 0), ("cx", 3, 0)]):
        for mg in (1.0, 2.0, 3.0, 15.0):
            for sd in (0, 1, 2):
                yield ("find_cuts", {"nq": 4, "instrs": [{"name": n_, "qubits": [a_, b_]} for n_, a_, b_ in gl], "seed": sd, "max_gamma": mg,
                                     "max_backjumps": None, "gate_lo": False, "wire_lo": True, "width": 3, "exact": True, "always_oracle": True})
    # gamma limits that admit fewer cuts than the circuit needs (the wire budget of the search must come from the greedy incumbent, not from the limit)
    for p in cutfind.family_tight_gamma():
        yield ("find_cuts", p)
    # deterministic families (independent of the seed, oracle always run): unrestricted searches whose greedy warm start contains wire cuts while
    # the optimum lies between that answer's entangled-pair (LOCC) cost and its LO cost; circuits on several quantum registers
    for p in cutfind.family_bound_gap() + cutfind.family_registers():
        yield ("find_cuts", p)
    # two full subcircuits and a qubit pair across them hit by several gates (optimum: both wires cut in front of the first of them);
    # unrestricted searches that need more backjumps than the default limit (oracle only)
    for p in cutfind.family_full_pair() + cutfind.family_long_search():
        yield ("find_cuts", p)
    # non-integer gamma limits just above the optimum (integer part below it) on circuits whose greedy warm start is not optimal;
    # expensive gates (kappa 7 > wire cut 4) whose gate-cut child exceeds the incumbent while a single-wire-cut child does not
    for p in cutfind.family_fractional_limit() + cutfind.family_child_order():
        yield ("find_cuts", p)
    for _ in range(4 if tier == "quick" else 30):
        yield ("find_cuts", _wire_then_gate(rng))
    for _ in range(5 if tier == "quick" else 40):
        yield ("find_cuts", dict(cutfind.gen_near_tie(rng, tier), always_oracle=True))
        yield ("find_cuts", dict(cutfind.gen_trivial_gate(rng, tier), always_oracle=True))
    for _ in range(N):
        r0 = rng.random()
        if r0 < 0.15:
            p = cutfind.gen_mixed_cost(rng, tier)
        elif r0 < 0.3:
            p = cutfind.gen_dense(rng, tier, exact=rng.random() < 0.5)
        elif r0 < 0.5:
            p = cutfind.gen_repeat(rng, tier)
        else:
            p = cutfind.gen_case(rng, tier, restricted=rng.random() < 0.6)
        p["width"] = max(1, p["width"])
        p["max_gamma"] = max(1.0, p["max_gamma"])
        if p["max_backjumps"] is not None and p["max_backjumps"] < 0:
            p["max_backjumps"] = 0
        yield ("find_cuts", p)
    # wide circuits: a subcircuit of more than 127 wires (counters must not wrap)
    for n, W, blocks in ((132, 130, None), (150, 140, None), (141, 128, 70)):
        if blocks is None:
            instrs = [{"name": "cx", "qubits": [i, i + 1]} for i in range(n - 1)]
        else:
            instrs = ([{"name": "cx", "qubits": [i, i + 1]} for i in range(blocks - 1)] + [{"name": "cx", "qubits": [i, i + 1]} for i in range(blocks, n - 1)]
                      + [{"name": "cx", "qubits": [blocks - 1, blocks]}])
        yield ("find_cuts", {"nq": n, "instrs": instrs, "seed": rng.randrange(1 << 30), "max_gamma": 1024.0, "max_backjumps": 10000,
                             "gate_lo": True, "wire_lo": rng.random() < 0.5, "width": W, "exact": True})
    if tier == "thorough":
        pairs = [(a, b) for a in range(3) for b in range(3) if a != b]
        for L in (1, 2, 3):
            for tup in itertools.product(pairs, repeat=L):
                for W in (1, 2):
                    for glo, wlo in ((True, True), (True, False), (False, True)):
                        yield ("find_cuts", {"nq": 3, "instrs": [{"name": "cx", "qubits": list(t)} for t in tup], "seed": 7, "max_gamma": 1024.0,
                                             "max_backjumps": None, "gate_lo": glo, "wire_lo": wlo, "width": W, "exact": True})


_STANDIN = {"nq": 2, "instrs": [{"name": "cx", "qubits": [0, 1]}], "seed": 0, "max_gamma": 1024.0, "max_backjumps": None, "gate_lo": True,
            "wire_lo": True, "width": 2, "exact": True}


def model_line(kind, payload):
    if payload.get("oracle_only"):
        # searches too long for the driver line's random stream / fuel: a trivial line keeps the protocol in step, nothing is compared,
        # the oracle (independent optimum) decides
        return cutfind.model_line(dict(_STANDIN), nrnd=10)
    return cutfind.model_line(payload)


def run_real(kind, payload):
    return cutfind.run_real(payload)


def model_canon(kind, payload, out):
    if payload.get("oracle_only"):
        return None
    return cutfind.model_canon(out)


def compare(kind, payload, real, model):
    if payload.get("oracle_only"):
        return None
    return cutfind.compare(payload, real, model)


def describe(kind, payload):
    return cutfind.describe(payload)


def nontrivial_key(kind, payload):
    return hash(json.dumps({k: v for k, v in payload.items() if not k.startswith("_")}, sort_keys=True, default=str))


def oracle(kind, payload):
    real = call_real(lambda p: cutfind.run_real(p), payload, timeout=300)
    if "error" in real or "mismatch" in real["ok"]:
        return None  # refusals and malformed outputs are C07's business
    gs = cutfind.gammas(payload)
    r = real["ok"]
    # whatever the size: a result without any cut is only right if the uncut circuit already meets the width limit
    gates2 = cutfind.two_qubit_gates(payload)
    if all(len(g["qubits"]) == 2 for _, g in gates2):
        uncut = max(cutfind.widths_of_plan(payload["nq"], gates2, ["leave"] * len(gates2)))
        if uncut > payload["width"] and not r["cuts"]:
            # (an overhead of exactly one is possible with cuts: a gate of kappa 1 is cut for free)
            return f"no cut was made (overhead {r['overhead']}) although the uncut circuit needs {uncut} qubits, limit {payload['width']}"
        why = cutfind.analyse_output(payload, r, gs)
        if why:
            return why
    best, plan = cutfind.brute_force(payload, gs)
    if best == "skip":
        # too many gates for the 5^g enumeration; with gate cuts only the optimum is a minimum over partitions of the qubits, whatever g
        best, plan = cutfind.min_gate_cut_partition(payload, gs), "(the best partition of the qubits into blocks within the width limit)"
    if best == "skip" or best is None:
        return None
    opt = best * best
    if r["overhead"] < opt * (1 - 1e-9):
        return (f"reported overhead {r['overhead']} is below {opt}, the minimum over all plans that meet the width limit {payload['width']}: "
                f"the returned cuts cannot be feasible")
    if r["minimum_reached"] and r["overhead"] > opt * (1 + 1e-9):
        return (f"minimum_reached=True but overhead {r['overhead']} > {opt} of the feasible plan {plan} "
                f"(width {payload['width']}, max_gamma {payload['max_gamma']}, max_backjumps {payload['max_backjumps']}, seed {payload['seed']})")
    if payload["max_backjumps"] is None and payload["max_gamma"] >= best:
        if not r["minimum_reached"]:
            return f"unrestricted search (max_gamma {payload['max_gamma']} >= optimum {best}) did not report the minimum as reached"
        for sd in payload.get("oracle_seeds", (1, 2, 12345)):
            q = dict(payload, seed=sd)
            rr = call_real(lambda p: cutfind.run_real(p), q, timeout=300)
            if "error" in rr or abs(rr["ok"]["overhead"] - r["overhead"]) > 1e-9 * max(1.0, r["overhead"]):
                return f"unrestricted search: overhead depends on the seed ({payload['seed']}: {r['overhead']}, {sd}: {rr})"
    return None
