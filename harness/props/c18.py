"""C18 — malformed requests are refused with the documented error, never mis-computed."""
from __future__ import annotations

import json
import math
import numpy as np
from fractions import Fraction

from .. import canon, gen, cutfind
from ..core import call_real, frac
from . import c02, c06, c10, c13, c17

ID = "C18"
LEAN_MODULE = "CKT.Props.C18"
THEOREMS = ["CKT.C18." + t for t in [
    "partition_refuses_label_count", "partition_refuses_observable_size", "partition_refuses_phase", "partition_refuses_classical_bits", "cut_gates_refuses_classical", "cut_gates_accepts_quantum_only",
    "cut_refuses_big_gate", "cut_refuses_unsupported", "generate_refuses_budget", "budget_nan_refused", "budget_below_one_refused",
    "generate_refuses_mismatched_forms", "reconstruct_refuses_forms", "reconstruct_refuses_keys", "reconstruct_refuses_phase",
    "find_cuts_refuses_gamma", "find_cuts_refuses_width", "search_refuses_big_gate", "basis_id_out_of_range", "basis_id_in_range",
    "half_index_too_large", "two_qubit_gate_needs_two_qubit_basis", "basis_refuses", "map_id_out_of_range"]]
RULE = ("the malformed stream: every documented class of invalid input instantiated on random otherwise-valid requests with the offending element "
        "at a random position (label / observable size mismatches, a phased observable anywhere in the list, classical registers, three-qubit gates "
        "that span partitions or reach the search, unbound / unsupported instructions, budgets 0, 0.5, 0.999999, -3, NaN, mismatched argument forms, "
        "result counts and partition keys, width <= 0, gamma < 1, negative backjumps, map and half indices out of range, basis shape errors), mixed "
        "with valid requests of the same shape; deterministic family (seed independent, oracle on every case): rxx/ryy/rzz/crx/cry/crz/cp whose angle still has a "
        "free parameter in any form (bare Parameter, vector element, 2*t, t/2, -t, t+c, a+b, partially bound a+b, sin(t), t*t) handed to the basis / placeholder "
        "constructors and, inside random circuits at a random position across two partitions, to partition_circuit_qubits, partition_problem, cut_gates, find_cuts, "
        "next to the same requests with the expression fully bound; deterministic family (oracle only): dictionary-form reconstruction over 2-3 partitions "
        "with different numbers of commuting groups, results dictionary in every key order, counts correct / off in one partition / interchanged between two; "
        "deterministic family (oracle on every case): ccx/cswap/ccz/rccx/c3x/rcccx at any position of a circuit with every distribution of its arguments over partitions (one partition = valid; first / middle / last argument alone elsewhere; first and last together against the middle; three partitions) through partition_circuit_qubits, partition_problem and (always refused) cut_gates; deterministic family (oracle on every case): expand_observables with observables of every width 1..n+2 for original circuits of n = 2..6 qubits (only width n accepted); deterministic family (oracle only): observables of width -2/-1/0/+1/+2/+5 relative to the circuit (or to ONE partition) -- identities only, a single identity, identity next to Z strings, random letters -- through generate_cutting_experiments in both calling forms and partition_problem with derived (omitted / None) and explicit partition labels, on block circuits joined by TwoQubitQPDGates (only the matching width accepted); compared: error enum (ValueError / accepted) and, on refusal, deep snapshots of the arguments")
ASSUMPTIONS = ["'without modifying the arguments' is a runtime statement: checked by deep snapshots before/after every refused call",
               "partition / search / decomposition refusals reuse the models of C10, C07, C02, C13, C17 (delegated cases)"]


def _valid_problem(rng):
    """small valid partition_problem payload in c10's format"""
    nq = rng.randint(2, 5)
    npart = rng.randint(2, min(3, nq))
    labels = [rng.randrange(npart) for _ in range(nq)]
    for k in range(npart):
        labels[k % nq] = k if k not in labels else labels[k % nq]
    groups = {k: [q for q in range(nq) if labels[q] == k] for k in set(labels)}
    instrs = []
    for _ in range(rng.randint(2, 6)):
        g = rng.choice(list(groups.values()))
        if len(g) >= 2 and rng.random() < 0.5:
            instrs.append(gen.rand_2q(rng, rng.sample(g, 2), "integer"))
        else:
            instrs.append(gen.rand_1q(rng, rng.choice(g)))
    ks = sorted(groups)
    if len(ks) >= 2:
        a, b = rng.sample(ks, 2)
        instrs.insert(rng.randint(0, len(instrs)), {"name": rng.choice(["cx", "cz", "rzz"]), "qubits": [rng.choice(groups[a]), rng.choice(groups[b])],
                                                    **({"params": [0.7]} if False else {})})
        if instrs[-1].get("name") == "rzz" or any(i["name"] == "rzz" and "params" not in i for i in instrs):
            for i in instrs:
                if i["name"] == "rzz" and "params" not in i:
                    i["params"] = [0.7]
    for q in range(nq):
        if not any(q in i["qubits"] for i in instrs):
            instrs.append(gen.rand_1q(rng, q))
    obs = gen.rand_paulis(rng, nq, rng.randint(1, 4))
    return {"nq": nq, "qregs": [nq], "instrs": instrs, "labels": labels, "pool_idx": rng.sample(range(len(gen.LABEL_POOL)), npart + 1)[: max(labels) + 1],
            "obs": obs, "bases": [], "cregs": []}


PARAM_GATES = ["rxx", "ryy", "rzz", "crx", "cry", "crz", "cp"]
UNBOUND_EXPRS = ["t", "v[1]", "2*t", "t/2", "-t", "t+0.25", "a+b", "a+b|a", "sin(t)", "t*t"]
BOUND_EXPRS = ["a+2*b|a,b", "2*t|t", "sin(t)|t"]
ANGLE_ENTRIES = ["partition_circuit_qubits", "partition_problem", "cut_gates", "find_cuts"]


def _angle(desc):
    """An angle given as an expression; "|a,b" binds the named parameters (a=0.3, b=-0.55, t=0.4).  Returns (angle, value or None)."""
    from qiskit.circuit import Parameter, ParameterVector
    t, a, b = Parameter("t"), Parameter("a"), Parameter("b")
    v = ParameterVector("v", 3)
    vals = {"t": (t, 0.4), "a": (a, 0.3), "b": (b, -0.55)}
    body, _, bind = desc.partition("|")
    e = {"t": t, "v[1]": v[1], "2*t": 2 * t, "t/2": t / 2, "-t": -t, "t+0.25": t + 0.25, "a+b": a + b, "a+2*b": a + 2 * b,
         "sin(t)": t.sin(), "t*t": t * t}[body]
    if bind:
        e = e.bind({vals[n][0]: vals[n][1] for n in bind.split(",")})
    value = None
    if not e.parameters:
        value = {"a+2*b": 0.3 + 2 * -0.55, "2*t": 0.8, "sin(t)": math.sin(0.4)}[body]
    return e, value


def _family_unbound_angles():
    """Every parametrised two-qubit gate with an angle that still contains a free parameter, in every form an angle can take, through
    every public entry point that has to decompose it -- and the same requests once the expression is fully bound."""
    import random
    rng = random.Random(180918)

    def circuit_case(gate, expr, entry, bound):
        nq = rng.choice([4, 5])
        half = nq // 2
        q = [rng.randrange(0, half), rng.randrange(half, nq)]
        if rng.random() < 0.5:
            q.reverse()
        ctx = []
        for _ in range(5):
            k = rng.randrange(4)
            if k == 0:
                ctx.append({"name": "h", "qubits": [rng.randrange(nq)]})
            elif k == 1:
                ctx.append({"name": "rx", "qubits": [rng.randrange(nq)], "params": [rng.choice([0.5, -1.25, 2.0])]})
            elif k == 2:
                ctx.append({"name": "cx", "qubits": rng.sample(range(nq), 2)})
            else:
                ctx.append({"name": "rzz", "qubits": rng.sample(range(nq), 2), "params": [rng.choice([0.75, -0.5])]})
        return ("validate", {"what": "unbound_angle", "gate": gate, "expr": expr, "bound": bound, "entry": entry, "nq": nq, "q": q,
                             "pos": rng.randint(0, len(ctx)), "ctx": ctx, "labels": [0] * half + [1] * (nq - half),
                             "obs": ["Z" * nq, "X" * nq, "I" * (nq - 1) + "Y"], "always_oracle": True})
    for gate in PARAM_GATES:
        for expr in UNBOUND_EXPRS:
            yield ("validate", {"what": "unbound_angle", "gate": gate, "expr": expr, "bound": False, "entry": "basis", "always_oracle": True})
    k = 0
    for gate in PARAM_GATES:
        for _ in range(3):
            yield ("validate", {"what": "unbound_angle", "gate": gate, "expr": UNBOUND_EXPRS[k % len(UNBOUND_EXPRS)], "bound": False, "entry": "qpdgate",
                                "always_oracle": True})
            k += 1
    for entry in ANGLE_ENTRIES:
        for gate in PARAM_GATES:
            for _ in range(2):
                yield circuit_case(gate, UNBOUND_EXPRS[k % len(UNBOUND_EXPRS)], entry, False)
                k += 1
    for i, gate in enumerate(PARAM_GATES):
        yield ("validate", {"what": "unbound_angle", "gate": gate, "expr": BOUND_EXPRS[i % 3], "bound": True, "entry": ("basis", "qpdgate")[i % 2],
                            "always_oracle": True})
    for i, entry in enumerate(ANGLE_ENTRIES):
        for j in range(2):
            yield circuit_case(PARAM_GATES[(2 * i + j) % 7], BOUND_EXPRS[(i + j) % 3], entry, True)


def _family_result_counts():
    """Deterministic family (seed independent): the dictionary form of reconstruct_expectation_values over two or three partitions whose
    observables have DIFFERENT numbers of qubit-wise commuting groups (g distinct letters on one and the same qubit, identity elsewhere:
    exactly g groups), so every partition needs its own number of results, len(coefficients) * g.  The results dictionary is inserted in
    every key order relative to the observables dictionary (dictionaries are matched by key), and the counts are correct, off by one /
    doubled in one partition, or interchanged between two partitions."""
    import itertools
    import random
    r = random.Random(180914)
    keysets = [["A", "B"], [3, 1], ["A", "B", "C"], [(0, 1), "x", 7]]
    t = 0
    for ks in keysets:
        for groups in itertools.islice(itertools.permutations([1, 2, 3], len(ks)), 0, None, 2):
            t += 1
            ncoeff = 1 + t % 3
            parts = []
            for key, g in zip(ks, groups):
                width = r.randint(1, 3)
                parts.append({"key": key, "width": width, "pos": r.randrange(width), "letters": r.sample("XYZ", g), "nobs": 3})
            need = {i: ncoeff * g for i, g in enumerate(groups)}
            orders = list(itertools.permutations(range(len(ks))))
            if len(ks) == 3:
                orders = [orders[0], orders[-1], orders[3 if t % 2 else 4], orders[1 if t % 2 else 2]]   # same, reversed, a rotation, a swap
            variants = [("correct", dict(need))]
            for i in need:
                for delta in (-1, 1, need[i]):
                    if (i + delta + t) % 2 == 0:      # half of the single miscounts per request shape
                        variants.append(("miscount", {**need, i: need[i] + delta}))
            for i, j in itertools.combinations(range(len(ks)), 2):
                if need[i] != need[j]:
                    variants.append(("interchanged", {**need, i: need[j], j: need[i]}))
            for how, counts in variants:
                for order in (orders if how != "miscount" else orders[t % len(orders)::max(1, len(orders) - 1)][:2]):
                    yield ("validate", {"what": "reconstruct_counts", "parts": parts, "ncoeff": ncoeff, "how": how,
                                        "res_order": list(order), "counts": [counts[i] for i in order],
                                        "oracle_only": True, "always_oracle": True})


def _family_expand_widths():
    """Deterministic family (seed independent): expand_observables with observables of EVERY width from one qubit up to two more than the
    original circuit has (n = 2..6 original qubits, in one register or several, onto final circuits that interleave fresh qubits as
    cut_wires does), one to three observables per request, any letters.  Only width n is a valid request; every other width -- narrower as
    well as wider, a single qubit included -- is the documented observable size mismatch and has to be refused."""
    import random
    r = random.Random(180915)
    for n in range(2, 7):
        for w in range(1, n + 3):
            fresh = (n + w) % 4
            layout = [["o", i] for i in range(n)] + [["f", i] for i in range(fresh)]
            r.shuffle(layout)
            regs = [n] if (n + w) % 2 else [1, n - 1]
            k = 1 + (n + w) % 3
            obs = [{"l": "".join(r.choice("XYZ") if j == 0 else r.choice("IXYZ") for _ in range(w)), "p": 0} for j in range(k)]
            yield ("expand", {"n": n, "obs": obs, "layout": layout, "regs": regs, "final_regs": bool(w % 2), "clbits": 0, "creg": 0,
                              "cls": "expand_width", "always_oracle": True})


OBSW_ENTRIES = ["generate_single", "generate_dict", "pp_auto", "pp_explicit"]
OBSW_CONTENTS = ["identity", "one_identity", "mixed", "random"]


def _family_obs_widths():
    """Deterministic family (seed independent, oracle only): the observable size mismatch at every entry point that takes observables next
    to a circuit, in every calling form -- generate_cutting_experiments(QuantumCircuit, PauliList), generate_cutting_experiments(dict, dict)
    with the observables of ONE partition (any of them) of the wrong width, partition_problem with the labels derived from the circuit
    (partition_labels omitted / None; blocks joined by TwoQubitQPDGates) and with explicit labels -- for widths one or two less, one, two
    or five more than the circuit / partition has, and whatever the observables consist of (identities only, a single identity, an identity
    next to Z strings, random letters).  The same requests at the right width are valid and have to be served."""
    import random
    r = random.Random(180919)
    shapes = [[1, 1], [2, 1], [1, 2], [2, 2], [3, 2], [1, 2, 1], [2, 1, 2], [3, 1, 1]]
    t = 0
    for entry in OBSW_ENTRIES:
        for content in OBSW_CONTENTS:
            for delta in (-2, -1, 0, 1, 2, 5):
                t += 1
                if delta == 0 and (t // 6) % 2:
                    continue                      # half of the valid twins
                sizes = shapes[(t * 5 + len(entry)) % len(shapes)]
                which = r.randrange(len(sizes))
                base = sizes[which] if entry == "generate_dict" else sum(sizes)
                if base + delta < 1:
                    sizes = [3, 2]
                    which = 0
                    base = 3 if entry == "generate_dict" else 5
                yield ("validate", {"what": "obs_width", "entry": entry, "sizes": sizes, "which": which, "delta": delta, "width": base + delta,
                                    "content": content, "count": 1 if content == "one_identity" else r.randint(2, 3),
                                    "cut_gates": [r.choice(["cx", "cz", "rzz"]) for _ in sizes[1:]],
                                    "labels_form": ("omitted", "none")[t % 2] if entry == "pp_auto" else "explicit",
                                    "num_samples": ("inf", 5, 50)[t % 3], "rseed": r.randrange(10 ** 6),
                                    "oracle_only": True, "always_oracle": True})


def _obsw_objs(payload):
    """(circuit with TwoQubitQPDGates between the blocks, one label per qubit, observable labels of the requested width and content)"""
    import random
    from qiskit.circuit import QuantumCircuit
    from qiskit_addon_cutting.qpd import QPDBasis, TwoQubitQPDGate
    r = random.Random(payload["rseed"])
    sizes = payload["sizes"]
    n = sum(sizes)
    starts = [sum(sizes[:b]) for b in range(len(sizes))]
    qc = QuantumCircuit(n)
    labels = []
    for b, sz in enumerate(sizes):
        labels += [b] * sz
        qs = list(range(starts[b], starts[b] + sz))
        for q in qs:
            qc.ry(r.choice([0.4, 1.1, 2.3]), q)
        for a, c in zip(qs, qs[1:]):
            qc.cx(a, c)
    for b, g in enumerate(payload["cut_gates"]):
        op = canon.mk_op(g, [0.3] if g == "rzz" else [])
        qc.append(TwoQubitQPDGate(QPDBasis.from_instruction(op), label=f"cut_{g}"), [starts[b] + r.randrange(sizes[b]), starts[b + 1]])
    w, k, content = payload["width"], payload["count"], payload["content"]
    if content in ("identity", "one_identity"):
        labs = ["I" * w] * k
    elif content == "mixed":
        labs = ["I" * w] + ["".join(r.choice("IZ") for _ in range(w - 1)) + "Z" for _ in range(k - 1)]
    else:
        labs = ["".join(r.choice("IXYZ") for _ in range(w - 1)) + r.choice("XYZ") for _ in range(k)]
    return qc, labels, labs


BIG_GATES = [("ccx", 3), ("cswap", 3), ("ccz", 3), ("rccx", 3), ("c3x", 4), ("rcccx", 4)]
# partition of the ARGUMENTS of the wide gate (first ... last): which of them is the odd one out / how many partitions it touches
BIG_PATTERNS = {3: ["AAA", "AAB", "ABA", "BAA", "ABC", "BAB"], 4: ["AAAA", "AAAB", "AABA", "ABAA", "BAAA", "ABBA", "AABB", "ABAB", "ABCA", "ACBB"]}
BIG_ENTRIES = ["partition_circuit_qubits", "partition_problem", "cut_gates"]


def _family_big_gates():
    """Deterministic family (seed independent): a gate on three or four qubits (ccx, cswap, ccz, rccx, c3x, rcccx) inside a circuit of
    one- and two-qubit gates, at any position, its arguments on any circuit qubits in any order, with EVERY way of distributing its
    arguments over partitions: all in one partition (a valid request: nothing to cut), the first / a middle / the last argument alone in
    another partition, first and last together against the middle ones, three partitions.  Handed to partition_circuit_qubits and to
    partition_problem (refusal required exactly when the arguments carry two or more different labels, whichever argument is the odd one
    out) and to cut_gates with the index of the wide gate (always refused)."""
    import random
    r = random.Random(181018)
    t = 0
    for gate, k in BIG_GATES:
        for pat in BIG_PATTERNS[k]:
            for entry in BIG_ENTRIES:
                if entry == "cut_gates" and pat not in ("AAA", "ABA", "AAAA", "ABBA"):
                    continue
                t += 1
                nq = k + 1 + t % 2
                qs = r.sample(range(nq), k)
                labels = [None] * nq
                for q, ch in zip(qs, pat):
                    labels[q] = "ABC".index(ch)
                for q in range(nq):
                    if labels[q] is None:
                        labels[q] = r.randrange(1 + max("ABC".index(c) for c in pat)) if t % 3 else "ABC".index(pat[0])
                npart = 1 + max(labels)
                # labels in use must be 0..npart-1 without gaps (c10's payload format)
                used = sorted(set(labels))
                labels = [used.index(x) for x in labels]
                npart = len(used)
                groups = {g: [q for q in range(nq) if labels[q] == g] for g in range(npart)}
                ctx = []
                for _ in range(r.randint(2, 5)):
                    g = r.choice(list(groups.values()))
                    m = r.random()
                    if m < 0.4 and len(g) >= 2:
                        ctx.append({"name": r.choice(["cx", "cz", "swap"]), "qubits": r.sample(g, 2)})
                    elif m < 0.6 and npart >= 2 and entry != "cut_gates":
                        a, b = r.sample(range(npart), 2)
                        ctx.append({"name": r.choice(["cx", "cz"]), "qubits": [r.choice(groups[a]), r.choice(groups[b])]})
                    else:
                        ctx.append({"name": r.choice(["h", "s", "x", "sx"]), "qubits": [r.randrange(nq)]})
                pos = r.randint(0, len(ctx))
                instrs = ctx[:pos] + [{"name": gate, "qubits": qs}] + ctx[pos:]
                for q in range(nq):
                    if not any(q in i["qubits"] for i in instrs):
                        instrs.append({"name": "h", "qubits": [q]})
                yield ("big", {"nq": nq, "qregs": [nq] if t % 4 else [1, nq - 1], "instrs": instrs, "labels": labels,
                               "pool_idx": [[0, 1, 4], [2, 5, 9], [4, 0, 3]][t % 3][:npart],
                               "obs": [{"l": "".join(r.choice("IXYZ") for _ in range(nq)), "p": 0} for _ in range(1 + t % 2)] if entry == "partition_problem" else None,
                               "bases": [], "cregs": [], "cls": "big_gate_any", "entry": entry, "big": {"gate": gate, "pos": pos, "qubits": qs, "pattern": pat},
                               "always_oracle": True})


def cases(rng, tier):
    yield from _family_big_gates()
    yield from _family_expand_widths()
    yield from _family_result_counts()
    yield from _family_unbound_angles()
    yield from _family_obs_widths()
    N = 40 if tier == "quick" else 400
    # partition keys of results and observables: strict superset, strict subset, renamed, equal (in any order)
    for ko, kr in (([0, 1], [0, 1, 9]), ([0, 1, 2], [0, 1]), ([0, 1], [0, 7]), ([2, 0, 1], [1, 2, 0]), ([0], [0, 3]), ([0, 4], [4])):
        yield ("validate", {"what": "reconstruct_args", "observables": "dict", "results": "dict", "obs_keys": ko, "res_keys": kr,
                            "phases": [[0] for _ in ko], "nob": 1, "always_oracle": True})
    for bq in (1, 2):
        for qid in range(8):
            # every half index next to the valid range, for one- and two-qubit bases (6 and 2 maps)
            yield ("validate", {"what": "half", "basis_qubits": bq, "qubit_id": qid, "always_oracle": True})
    for fn in ("cut_gates", "find_cuts"):
        for nregbits, nloose in ((0, 1), (2, 0), (1, 1), (0, 0), (0, 2)):
            yield ("validate", {"what": "no_classical", "nregbits": nregbits, "nloose": nloose, "fn": fn, "measure": rng.random() < 0.5,
                                "always_oracle": True})
    # label sequences of every wrong length, incl. the empty one, as list / tuple / string (fixed generator: independent of the seed)
    import random as _random
    r0 = _random.Random(1811)
    for length in ("empty", "one_less", "one_more", "single", "double"):
        for form in ("list", "tuple", "str"):
            p = _valid_problem(r0)
            nq0 = p["nq"]
            want = {"empty": 0, "one_less": nq0 - 1, "one_more": nq0 + 1, "single": 1, "double": 2 * nq0}[length]
            if want == nq0:
                continue
            p["labels"] = (p["labels"] * 3)[:want]
            p["labels_form"] = form
            p["cls"] = "label_count"
            p["always_oracle"] = True
            yield ("pp", p)
    for _ in range(N):
        p = _valid_problem(rng)
        cls = rng.choice(["valid", "label_count", "obs_size", "phase", "cregs", "big_gate"])
        if cls == "label_count":
            p["labels"] = p["labels"][:-1] if rng.random() < 0.5 else p["labels"] + [0]
        elif cls == "obs_size":
            k = rng.randrange(len(p["obs"]))
            for o in p["obs"]:
                o["l"] = o["l"] + "Z"
            _ = k
        elif cls == "phase":
            p["obs"][rng.randrange(len(p["obs"]))]["p"] = rng.randrange(1, 4)
        elif cls == "cregs":
            p["cregs"] = [["c", rng.randint(1, 3)]]
        elif cls == "big_gate" and p["nq"] >= 3:
            qs = None
            for _ in range(20):
                cand = rng.sample(range(p["nq"]), 3)
                if len({p["labels"][q] for q in cand}) > 1:
                    qs = cand
                    break
            if qs:
                p["instrs"].insert(rng.randint(0, len(p["instrs"])), {"name": "ccx", "qubits": qs})
        p["cls"] = cls
        yield ("pp", p)
    for _ in range(N):
        r = rng.random()
        if r < 0.3:
            yield ("validate", {"what": "generate_args", "circuits": rng.choice(["single", "dict"]), "observables": rng.choice(["single", "dict", "other"]),
                                "n": rng.choice(["nan", "inf", 0, 0.5, 0.999999, -3, 1, 1.0, 2.5, 1000])})
        elif r < 0.5:
            ko = rng.sample(range(5), rng.randint(1, 3))
            kr = list(ko)
            m = rng.random()
            if m < 0.3:
                kr = kr[:-1] + [7]
            elif m < 0.45:
                kr = kr + [9]
            elif m < 0.6 and len(kr) > 1:
                kr = kr[:-1]
            rng.shuffle(kr)
            nob = rng.randint(1, 3)
            phases = [[0] * nob for _ in ko]
            if rng.random() < 0.3:
                phases[rng.randrange(len(ko))][rng.randrange(nob)] = rng.randrange(1, 4)
            yield ("validate", {"what": "reconstruct_args", "observables": rng.choice(["single", "dict", "dict", "other"]),
                                "results": rng.choice(["single", "dict", "dict"]), "obs_keys": ko, "res_keys": kr, "phases": phases, "nob": nob})
        elif r < 0.65:
            g = rng.choice(["cx", "rzz", "swap", "move"])
            nm = {"cx": 6, "rzz": 6, "swap": 58, "move": 8}[g]
            yield ("validate", {"what": "basis_id", "gate": g, "nmaps": nm, "id": rng.choice([None, 0, nm - 1, nm, nm + 5, -1, -nm, rng.randrange(nm)]),
                                "via": rng.choice(["ctor", "setter"])})
        elif r < 0.8:
            yield ("validate", {"what": "half", "basis_qubits": rng.choice([1, 2]), "qubit_id": rng.choice([0, 1, 2, 3, 7])})
        elif r < 0.82:
            yield ("validate", {"what": "unset_basis_id", "id": rng.choice([None, None, 0, 3])})
        elif r < 0.84:
            # classical bits of every layout (a register, loose bits, both, none) in a circuit handed to cut_gates / find_cuts
            yield ("validate", {"what": "no_classical", "nregbits": rng.choice([0, 0, 1, 2]), "nloose": rng.choice([0, 1, 2]),
                                "fn": rng.choice(["cut_gates", "find_cuts"]), "measure": rng.random() < 0.5})
        elif r < 0.88:
            yield ("validate", {"what": "two_qubit_gate", "basis_qubits": rng.choice([1, 2])})
        else:
            ar = [rng.choice([1, 2])] * rng.randint(0, 4)
            if ar and rng.random() < 0.3:
                ar[rng.randrange(len(ar))] = 3 - ar[0] if rng.random() < 0.7 else 3
            yield ("validate", {"what": "basis", "arities": ar, "ncoeffs": len(ar) + rng.choice([0, 0, 0, 1, -1]) if ar else rng.choice([0, 1])})
    # deterministic: a gate on three / four qubits handed to find_cuts with a device narrower than, as wide as and wider than the circuit
    # (the refusal must not depend on whether anything would have to be cut)
    for gate, k in (("ccx", 3), ("cswap", 3), ("ccz", 3), ("c3x", 4)):
        for nq in (k, k + 1):
            for width in (max(1, nq - 1), nq, nq + 2):
                for pos in (0, 1):
                    ctx = [{"name": "cx", "qubits": [0, 1]}, {"name": "h", "qubits": [nq - 1]}]
                    instrs = ctx[:pos] + [{"name": gate, "qubits": list(range(k)) if pos else list(range(k))[::-1]}] + ctx[pos:]
                    yield ("find", {"nq": nq, "instrs": instrs, "seed": 4, "max_gamma": 1024.0, "max_backjumps": 10000, "gate_lo": True, "wire_lo": True,
                                    "width": width, "exact": True, "always_oracle": True})
    for _ in range(N):
        p = cutfind.gen_case(rng, tier, exact=True, restricted=False)
        cls = rng.choice(["width", "gamma", "gamma", "backjumps", "ccx", "valid"])
        if cls == "width":
            p["width"] = rng.choice([0, -1, -5])
        elif cls == "gamma":
            p["max_gamma"] = rng.choice([0.5, 0.25, 0.0, -1.0, 0.999999, 1e-9, 0.75])
        elif cls == "backjumps":
            p["max_backjumps"] = rng.choice([-1, -10])
        elif cls == "ccx" and p["nq"] >= 3:
            p["instrs"].insert(rng.randint(0, len(p["instrs"])), {"name": "ccx", "qubits": rng.sample(range(p["nq"]), 3)})
        yield ("find", p)
    for kind, p in c06.cases(rng, "quick"):
        if kind == "reconstruct" and rng.random() < 0.5:
            p["drop"] = rng.random() < 0.7
            p["extra"] = (not p["drop"]) and rng.random() < 0.5  # one result too many is as wrong as one too few
            p["variant"] = rng.choice(["v2", "v2", "v1shots"])
            yield ("recon", p)
    for bad in ["h", "ccx", "unbound_rzz", "unbound_cp", "opaque2q", "measure", "barrier2", "unbound_unitary_like"]:
        yield ("refuse", {"gate": bad})
    for kind, p in c17.cases(rng, "quick"):
        if kind == "expand" and rng.random() < 0.4:
            yield ("expand", p)
    for kind, p in c13.cases(rng, "quick"):
        if any(i.get("cond") or i["name"] == "opaque_cl" for i in p["instrs"]):
            yield ("sim", p)


def model_line(kind, payload):
    if kind == "pp":
        return c10.model_line("partition_problem", payload)
    if kind == "find":
        return cutfind.model_line(payload)
    if kind == "big":
        if payload["entry"] == "cut_gates":
            # no model line for cut_gates on a wide gate: a trivial line keeps the protocol in step, the oracle decides
            return {"op": "c18.half", "basis_qubits": 1, "qubit_id": 0}
        return c10.model_line(payload["entry"], payload)
    if kind == "refuse":
        return c02.model_line("refuse", payload)
    if kind == "expand":
        return c17.model_line("expand", payload)
    if kind == "sim":
        return c13.model_line("simulate", payload)
    if kind == "recon":
        return c06.model_line("reconstruct", payload)
    w = payload["what"]
    if payload.get("oracle_only"):
        # the driver has no line for result counts per partition: a trivial line keeps the protocol in step, nothing is compared, the
        # oracle (counts known by construction) decides
        return {"op": "c18.half", "basis_qubits": 1, "qubit_id": 0}
    if w == "generate_args":
        n = payload["n"]
        return {"op": "c18.generate_args", "circuits": payload["circuits"], "observables": payload["observables"],
                "n": n if isinstance(n, str) else frac(n)}
    if w == "reconstruct_args":
        return {"op": "c18.reconstruct_args", "observables": payload["observables"], "results": payload["results"],
                "phases": [x for row in (payload["phases"][:1] if payload["observables"] == "single" else payload["phases"]) for x in row], "obs_keys": payload["obs_keys"], "res_keys": payload["res_keys"]}
    if w == "basis_id":
        return {"op": "c18.basis_id", "nmaps": payload["nmaps"], "id": payload["id"]}
    if w == "half":
        return {"op": "c18.half", "basis_qubits": payload["basis_qubits"], "qubit_id": payload["qubit_id"]}
    if w == "two_qubit_gate":
        return {"op": "c18.two_qubit_gate", "basis_qubits": payload["basis_qubits"]}
    if w == "unset_basis_id":
        return {"op": "c18.unset_basis_id", "id": payload["id"]}
    if w == "unbound_angle":
        # the model of the decompositions (C02) knows the seven families at a numeric angle only; anything else is "unsupported" and refused
        if payload["bound"]:
            return c02.model_line("gate", {"gate": payload["gate"], "params": [_angle(payload["expr"])[1]]})
        return {"op": "c02.basis", "gate": "unsupported:" + payload["gate"] + "(" + payload["expr"] + ")", "env": [1.0, 0.0, math.sqrt(0.5)]}
    if w == "no_classical":
        return {"op": "c18.no_classical", "nregs": 1 if payload["nregbits"] else 0, "nbits": payload["nregbits"] + payload["nloose"]}
    return {"op": "c18.basis", "arities": payload["arities"], "ncoeffs": payload["ncoeffs"]}


def _snap_pp(qc, labels, obs):
    return (json.dumps(canon.snapshot(qc), sort_keys=True, default=str), repr(labels), None if obs is None else obs.to_labels())


def _basis_1q_or_2q(nq):
    from qiskit_addon_cutting.qpd import QPDBasis
    from qiskit.circuit.library import XGate
    if nq == 2:
        return QPDBasis.from_instruction(canon.mk_op("cx"))
    return QPDBasis([([XGate()],), ([],)], [0.5, 0.5])


def run_real(kind, payload):
    if kind == "pp":
        from qiskit_addon_cutting import partition_problem
        qc, bases, labels, obs = c10._objs(payload)
        form = payload.get("labels_form")
        if form == "tuple":
            labels = tuple(labels)
        elif form == "str":
            # one character per qubit (the documented string form of partition labels)
            labels = "".join("ABCDEFGH"[k % 8] for k in payload["labels"])
        before = _snap_pp(qc, labels, obs)
        try:
            partition_problem(qc, labels, obs)
        except ValueError:
            if _snap_pp(qc, labels, obs) != before:
                return {"error": "ValueError", "mutated": "arguments were modified by the refused call"}
            raise
        return c10.run_real("partition_problem", payload)
    if kind == "find":
        qc = cutfind.build(payload)
        before = json.dumps(canon.snapshot(qc), sort_keys=True, default=str)
        return cutfind.run_real(payload)
    if kind == "big":
        from qiskit_addon_cutting import partition_circuit_qubits, partition_problem, cut_gates
        qc, bases, labels, obs = c10._objs(payload)
        entry = payload["entry"]
        wide = [k for k, inst in enumerate(qc.data) if len(inst.qubits) > 2]
        before = _snap_pp(qc, labels, obs)
        try:
            if entry == "partition_circuit_qubits":
                partition_circuit_qubits(qc, labels)
            elif entry == "partition_problem":
                partition_problem(qc, labels, obs)
            else:
                cut_gates(qc, wide)
        except ValueError:
            if _snap_pp(qc, labels, obs) != before:
                return {"error": "ValueError", "mutated": "arguments were modified by the refused call"}
            raise
        if entry == "cut_gates":
            return {"ok": "accepted"}
        return c10.run_real(entry, payload)
    if kind == "refuse":
        return c02.run_real("refuse", payload)
    if kind == "expand":
        if not payload["obs"] or not payload["obs"][0]["l"]:
            return c17.run_real("expand", payload)
        from qiskit_addon_cutting import expand_observables
        orig, final = c17._expand_objs(payload)
        pl = c17._plist(payload["obs"], len(payload["obs"][0]["l"]))

        def snap():
            return (pl.z.tolist(), pl.x.tolist(), pl.phase.tolist(), [id(q) for q in orig.qubits], len(orig.data),
                    [id(q) for q in final.qubits], [id(c) for c in final.clbits], len(final.data))
        before = snap()
        try:
            out = expand_observables(pl, orig, final)
        except ValueError:
            if snap() != before:
                return {"error": "ValueError", "mutated": True}
            raise
        return {"ok": c17._canon_paulis(out)}
    if kind == "sim":
        return c13.run_real("simulate", payload)
    if kind == "recon":
        return c06.run_real("reconstruct", payload)
    w = payload["what"]
    if w == "generate_args":
        from qiskit.circuit import QuantumCircuit
        from qiskit.quantum_info import PauliList
        from qiskit_addon_cutting import generate_cutting_experiments
        qc = QuantumCircuit(2)
        qc.h(0)
        qc.cx(0, 1)
        n = payload["n"]
        nv = {"nan": math.nan, "inf": math.inf}.get(n, n) if isinstance(n, str) else n
        circ = qc if payload["circuits"] == "single" else {"A": qc}
        ob = {"single": PauliList(["ZZ"]), "dict": {"A": PauliList(["ZZ"])}, "other": ["ZZ"]}[payload["observables"]]
        before = json.dumps(canon.snapshot(qc), sort_keys=True, default=str)
        try:
            generate_cutting_experiments(circ, ob, nv)
        except ValueError:
            if json.dumps(canon.snapshot(qc), sort_keys=True, default=str) != before:
                return {"error": "ValueError", "mutated": True}
            raise
        return {"ok": "accepted"}
    if w == "reconstruct_args":
        from qiskit.quantum_info import PauliList
        from qiskit.primitives import SamplerResult
        from qiskit.result import QuasiDistribution
        from qiskit_addon_cutting import reconstruct_expectation_values
        PH = ["", "-i", "-", "i"]
        nob = payload["nob"]

        def plist(row):
            return PauliList([PH[p] + "Z" for p in row])

        def res():
            return SamplerResult([QuasiDistribution({0: 1.0})], [{}])
        if payload["observables"] == "single":
            ob = plist(payload["phases"][0])
        elif payload["observables"] == "dict":
            ob = {k: plist(row) for k, row in zip(payload["obs_keys"], payload["phases"])}
        else:
            ob = ["Z"] * nob
        rs = res() if payload["results"] == "single" else {k: res() for k in payload["res_keys"]}
        from qiskit_addon_cutting.qpd import WeightType
        try:
            reconstruct_expectation_values(rs, [(1.0, WeightType.EXACT)], ob)
        except ValueError as ex:
            # only the argument checks at the top of the function are modelled here; a later count mismatch is C06's
            if "number of subexperiments" in str(ex):
                return {"ok": "accepted"}
            raise
        return {"ok": "accepted"}
    if w == "reconstruct_counts":
        from qiskit.quantum_info import PauliList
        from qiskit.primitives import SamplerResult
        from qiskit.result import QuasiDistribution
        from qiskit_addon_cutting import reconstruct_expectation_values
        from qiskit_addon_cutting.qpd import WeightType

        def key(k):
            return tuple(k) if isinstance(k, list) else k
        parts = payload["parts"]
        ob = {}
        for pt in parts:
            labs = []
            for m in range(pt["nobs"]):
                s_ = ["I"] * pt["width"]
                s_[pt["pos"]] = pt["letters"][m % len(pt["letters"])]
                labs.append("".join(s_))
            ob[key(pt["key"])] = PauliList(labs)
        rs = {key(parts[i]["key"]): SamplerResult([QuasiDistribution({0: 1.0}) for _ in range(c)], [{} for _ in range(c)])
              for i, c in zip(payload["res_order"], payload["counts"])}
        coeffs = [(0.5 + 0.25 * i, WeightType.EXACT) for i in range(payload["ncoeff"])]

        def snap():
            return ([(k, v.to_labels()) for k, v in ob.items()], [(k, [dict(q) for q in v.quasi_dists]) for k, v in rs.items()], repr(coeffs))
        before = snap()
        try:
            reconstruct_expectation_values(rs, coeffs, ob)
        except ValueError:
            if snap() != before:
                return {"error": "ValueError", "mutated": True}
            raise
        return {"ok": "accepted"}
    if w == "obs_width":
        from qiskit.quantum_info import PauliList
        from qiskit_addon_cutting import partition_problem, generate_cutting_experiments
        qc, labels, labs = _obsw_objs(payload)
        entry = payload["entry"]
        ns = math.inf if payload["num_samples"] == "inf" else payload["num_samples"]
        if entry == "generate_dict":
            # a well-formed separated problem (explicit labels, observables of the right width), then the observables of one partition replaced
            prob = partition_problem(qc, labels, observables=PauliList(["Z" * qc.num_qubits] * payload["count"]))
            circuits = dict(prob.subcircuits)
            obs = dict(prob.subobservables)
            obs[payload["which"]] = PauliList(labs)
        else:
            circuits = qc
            obs = PauliList(labs)

        def snap():
            cs = circuits if isinstance(circuits, dict) else {"": circuits}
            os_ = obs if isinstance(obs, dict) else {"": obs}
            return ([(repr(k_), json.dumps(canon.snapshot(v), sort_keys=True, default=str)) for k_, v in cs.items()],
                    [(repr(k_), v.to_labels()) for k_, v in os_.items()], repr(labels))
        before = snap()
        try:
            if entry in ("generate_single", "generate_dict"):
                generate_cutting_experiments(circuits, obs, ns)
            elif payload["labels_form"] == "omitted":
                partition_problem(qc, observables=obs)
            elif payload["labels_form"] == "none":
                partition_problem(qc, None, obs)
            else:
                partition_problem(qc, labels, obs)
        except ValueError:
            if snap() != before:
                return {"error": "ValueError", "mutated": True}
            raise
        return {"ok": "accepted"}
    if w == "basis_id":
        from qiskit_addon_cutting.qpd import QPDBasis, TwoQubitQPDGate, SingleQubitQPDGate
        b = QPDBasis.from_instruction(canon.mk_op(payload["gate"], [0.7] if payload["gate"] == "rzz" else []))
        if payload["via"] == "ctor":
            g = TwoQubitQPDGate(b, basis_id=payload["id"])
        else:
            g = SingleQubitQPDGate(b, 1)
            g.basis_id = payload["id"]
        return {"ok": g.basis_id}
    if w == "half":
        from qiskit_addon_cutting.qpd import SingleQubitQPDGate
        g = SingleQubitQPDGate(_basis_1q_or_2q(payload["basis_qubits"]), payload["qubit_id"])
        return {"ok": g.qubit_id}
    if w == "two_qubit_gate":
        from qiskit_addon_cutting.qpd import TwoQubitQPDGate
        TwoQubitQPDGate(_basis_1q_or_2q(payload["basis_qubits"]))
        return {"ok": "accepted"}
    if w == "unset_basis_id":
        from qiskit.circuit import QuantumCircuit
        from qiskit_addon_cutting.qpd import QPDBasis, TwoQubitQPDGate, decompose_qpd_instructions
        qc = QuantumCircuit(2)
        qc.append(TwoQubitQPDGate(QPDBasis.from_instruction(canon.mk_op("cx")), basis_id=payload["id"]), [0, 1])
        before = json.dumps(canon.snapshot(qc), sort_keys=True, default=str)
        try:
            decompose_qpd_instructions(qc, [[0]], map_ids=None)
        except ValueError:
            if json.dumps(canon.snapshot(qc), sort_keys=True, default=str) != before:
                return {"error": "ValueError", "mutated": True}
            raise
        return {"ok": "accepted"}
    if w == "unbound_angle":
        from qiskit.circuit import QuantumCircuit
        from qiskit.quantum_info import PauliList
        from qiskit_addon_cutting.qpd import QPDBasis, TwoQubitQPDGate
        angle, _ = _angle(payload["expr"])
        gate = canon._lib()[payload["gate"]](angle)
        entry = payload["entry"]
        qc = labels = obs = bad = None
        if entry not in ("basis", "qpdgate"):
            qc = QuantumCircuit(payload["nq"])
            ctx = list(payload["ctx"])
            for i in range(len(ctx) + 1):
                if i == payload["pos"]:
                    bad = len(qc.data)
                    qc.append(gate, payload["q"])
                if i < len(ctx):
                    qc.append(canon.mk_op(ctx[i]["name"], ctx[i].get("params", ())), ctx[i]["qubits"])
            labels = list(payload["labels"])
            obs = PauliList(payload["obs"])

        def snap():
            return (repr(gate.params), None if qc is None else json.dumps(canon.snapshot(qc), sort_keys=True, default=str), repr(labels),
                    None if obs is None else obs.to_labels())
        before = snap()
        try:
            if entry == "basis":
                QPDBasis.from_instruction(gate)
            elif entry == "qpdgate":
                TwoQubitQPDGate.from_instruction(gate)
            elif entry == "partition_circuit_qubits":
                from qiskit_addon_cutting import partition_circuit_qubits
                partition_circuit_qubits(qc, labels)
            elif entry == "partition_problem":
                from qiskit_addon_cutting import partition_problem
                partition_problem(qc, labels, observables=obs)
            elif entry == "cut_gates":
                from qiskit_addon_cutting import cut_gates
                cut_gates(qc, [bad])
            else:
                from qiskit_addon_cutting import find_cuts, OptimizationParameters, DeviceConstraints
                find_cuts(qc, OptimizationParameters(seed=1), DeviceConstraints(qubits_per_subcircuit=payload["nq"] // 2 + 1))
        except ValueError:
            if snap() != before:
                return {"error": "ValueError", "mutated": True}
            raise
        return {"ok": "accepted"}
    if w == "no_classical":
        from qiskit.circuit import QuantumCircuit, QuantumRegister, ClassicalRegister, Clbit
        regs = [QuantumRegister(3, "q")] + ([ClassicalRegister(payload["nregbits"], "c")] if payload["nregbits"] else [])
        qc = QuantumCircuit(*regs)
        if payload["nloose"]:
            qc.add_bits([Clbit() for _ in range(payload["nloose"])])
        qc.h(0); qc.cx(0, 1); qc.cx(1, 2)
        if payload["measure"] and qc.num_clbits:
            qc.measure(2, qc.clbits[-1])
        before = json.dumps(canon.snapshot(qc), sort_keys=True, default=str)
        try:
            if payload["fn"] == "cut_gates":
                from qiskit_addon_cutting import cut_gates
                cut_gates(qc, [1])
            else:
                from qiskit_addon_cutting import find_cuts, OptimizationParameters, DeviceConstraints
                find_cuts(qc, OptimizationParameters(seed=1), DeviceConstraints(2))
        except ValueError:
            if json.dumps(canon.snapshot(qc), sort_keys=True, default=str) != before:
                return {"error": "ValueError", "mutated": True}
            raise
        return {"ok": "accepted"}
    from qiskit_addon_cutting.qpd import QPDBasis
    from qiskit.circuit.library import XGate
    maps = [tuple([XGate()] for _ in range(a)) for a in payload["arities"]]
    QPDBasis(maps, [0.5] * payload["ncoeffs"])
    return {"ok": "accepted"}


def model_canon(kind, payload, out):
    if kind == "pp":
        return c10.model_canon("partition_problem", payload, out)
    if kind == "find":
        return cutfind.model_canon(out)
    if kind == "big":
        return out if payload["entry"] == "cut_gates" else c10.model_canon(payload["entry"], payload, out)
    if kind == "refuse":
        return c02.model_canon("refuse", payload, out)
    if kind == "expand":
        return c17.model_canon("expand", payload, out)
    if kind == "sim":
        return c13.model_canon("simulate", payload, out)
    if kind == "recon":
        return c06.model_canon("reconstruct", payload, out)
    if "driver_error" in out:
        raise RuntimeError(out["driver_error"])
    return out


def compare(kind, payload, real, model):
    if "mutated" in real:
        return "arguments were modified by a refused call"
    if payload.get("oracle_only"):
        return None
    if kind == "pp":
        return c10.compare("partition_problem", payload, real, model)
    if kind == "find":
        return cutfind.compare(payload, real, model)
    if kind == "big":
        return None if payload["entry"] == "cut_gates" else c10.compare(payload["entry"], payload, real, model)
    if kind == "refuse":
        return c02.compare("refuse", payload, real, model)
    if kind == "expand":
        return c17.compare("expand", payload, real, model)
    if kind == "sim":
        return c13.compare("simulate", payload, real, model)
    if kind == "recon":
        return c06.compare("reconstruct", payload, real, model)
    if ("error" in real) != ("error" in model) or real.get("error") != model.get("error"):
        return f"real={str(real)[:150]} model={str(model)[:150]}"
    if "ok" in real and payload["what"] in ("basis_id", "half") and real["ok"] != model["ok"]:
        return f"real={real} model={model}"
    return None


def describe(kind, payload):
    return {"class": payload.get("cls") or payload.get("what") or payload.get("gate") or kind}


def nontrivial_key(kind, payload):
    return hash(json.dumps([kind, {k: v for k, v in payload.items() if not k.startswith("_")}], sort_keys=True, default=str))


def _expected_invalid(kind, payload):
    """independent statement of the documented rule: True = must be refused, False = must be accepted, None = no claim"""
    if kind == "pp":
        c = payload["cls"]
        if c == "valid":
            return None
        if c == "big_gate":
            return True if any(i["name"] == "ccx" for i in payload["instrs"]) else None
        return True
    if kind == "big":
        # a gate on more than two qubits has to be cut exactly when its arguments carry two or more different partition labels
        # (whichever argument is the odd one out); naming it to cut_gates always asks for it to be cut
        b = payload["big"]
        return payload["entry"] == "cut_gates" or len({payload["labels"][q] for q in b["qubits"]}) > 1
    if kind == "find":
        return (payload["width"] < 1 or payload["max_gamma"] < 1 or (payload["max_backjumps"] is not None and payload["max_backjumps"] < 0)
                or any(len(i["qubits"]) > 2 and i["name"] != "barrier" for i in payload["instrs"])) or None
    if kind == "refuse":
        return True
    if kind == "sim":
        return True
    if kind == "recon":
        return True if (bool(payload.get("drop")) != bool(payload.get("extra"))) else None
    if kind == "expand":
        # observables of another width than the original circuit (narrower or wider), or an original qubit missing from the final circuit
        if not payload["obs"] or not payload["obs"][0]["l"]:
            return None
        lay = [tuple(t) for t in payload["layout"]]
        if len(payload["obs"][0]["l"]) != payload["n"] or any(("o", i) not in lay for i in range(payload["n"])):
            return True
        return False if payload.get("cls") == "expand_width" else None   # the content of a valid expansion is C17's
    if kind != "validate":
        return None
    w = payload["what"]
    if w == "generate_args":
        n = payload["n"]
        bad_n = (n == "nan") or (not isinstance(n, str) and n < 1)
        return bad_n or payload["circuits"] != payload["observables"]
    if w == "reconstruct_args":
        ob, rs = payload["observables"], payload["results"]
        if ob == "other" or ob != rs:
            return True
        if ob == "dict" and set(payload["obs_keys"]) != set(payload["res_keys"]):
            return True
        rows = payload["phases"][:1] if ob == "single" else payload["phases"]
        return any(p != 0 for row in rows for p in row) or None
    if w == "reconstruct_counts":
        # partition i has len(letters) qubit-wise commuting groups by construction
        return any(c != payload["ncoeff"] * len(payload["parts"][i]["letters"]) for i, c in zip(payload["res_order"], payload["counts"]))
    if w == "obs_width":
        # the observables act on another number of qubits than the circuit (the partition) they are to be evaluated on
        return payload["delta"] != 0
    if w == "basis_id":
        i = payload["id"]
        return i is not None and not (0 <= i < payload["nmaps"])
    if w == "half":
        return payload["qubit_id"] >= payload["basis_qubits"]
    if w == "two_qubit_gate":
        return payload["basis_qubits"] != 2
    if w == "unset_basis_id":
        return payload["id"] is None
    if w == "unbound_angle":
        return not payload["bound"]
    if w == "no_classical":
        return payload["nregbits"] + payload["nloose"] > 0
    ar = payload["arities"]
    return (not ar) or ar[0] > 2 or any(a != ar[0] for a in ar) or payload["ncoeffs"] != len(ar)


def oracle(kind, payload):
    exp = _expected_invalid(kind, payload)
    if exp is None:
        return None
    real = call_real(lambda p: run_real(kind, p), payload, timeout=300)
    if "mutated" in real:
        return "arguments were modified by a refused call"
    if kind == "validate" and payload.get("what") == "reconstruct_counts":
        parts = payload["parts"]
        need = {repr(pt["key"]): payload["ncoeff"] * len(pt["letters"]) for pt in parts}
        given = {repr(parts[i]["key"]): c for i, c in zip(payload["res_order"], payload["counts"])}
        ctx = (f"reconstruct_expectation_values, dictionary form, {payload['ncoeff']} coefficient(s), observables keyed {list(need)} with "
               f"{[len(pt['letters']) for pt in parts]} commuting group(s): results needed per partition {need}, given (in the insertion "
               f"order of the results dictionary) {given}")
        if exp and real.get("error") != "ValueError":
            return f"{ctx}: the mismatched result counts ({payload['how']}) were not refused with ValueError: {str(real)[:160]}"
        if not exp and "error" in real:
            return f"{ctx}: a request with the right number of results in every partition raised {real['error']}"
        return None
    if kind == "validate" and payload.get("what") == "obs_width":
        sizes = payload["sizes"]
        form = {"generate_single": "generate_cutting_experiments(QuantumCircuit, PauliList, %s)" % payload["num_samples"],
                "generate_dict": "generate_cutting_experiments(dict, dict, %s)" % payload["num_samples"],
                "pp_auto": "partition_problem with partition_labels " + ("omitted" if payload["labels_form"] == "omitted" else "None"),
                "pp_explicit": "partition_problem with explicit partition_labels"}[payload["entry"]]
        _, _, labs = _obsw_objs(payload)
        target = (f"partition {payload['which']} ({sizes[payload['which']]} qubit(s))" if payload["entry"] == "generate_dict"
                  else f"the {sum(sizes)}-qubit circuit")
        ctx = (f"{form}: circuit of blocks {sizes} joined by TwoQubitQPDGates {payload['cut_gates']}; observables {labs} "
               f"({payload['width']} qubit(s), {payload['content']}) for {target}")
        if exp and real.get("error") != "ValueError":
            return f"{ctx}: the observable size mismatch was not refused with ValueError: {'accepted, a result was returned' if 'ok' in real else str(real)[:160]}"
        if not exp and "error" in real:
            return f"{ctx}: observables of the right width, but the request raised {real['error']}"
        return None
    if kind == "big":
        b = payload["big"]
        labs = [gen.LABEL_POOL[payload["pool_idx"][i]] for i in payload["labels"]]
        ctx = (f"{payload['entry']}: {b['gate']} on qubits {b['qubits']} (instruction {b['pos']} of a {payload['nq']}-qubit circuit), partition labels "
               f"{labs!r} -- the gate's arguments carry {[labs[q] for q in b['qubits']]!r}")
        if exp and real.get("error") != "ValueError":
            return (f"{ctx}: a gate on {len(b['qubits'])} qubits that would have to be cut was not refused with ValueError: "
                    f"{'returned a result' if 'ok' in real else str(real)[:160]}")
        if not exp:
            if "error" in real:
                return f"{ctx}: all arguments in one partition (nothing to cut), but the request raised {real['error']}"
            if payload["entry"] == "partition_circuit_qubits" and not any(
                    len(i["qubits"]) > 2 and i["qubits"] == b["qubits"] for i in real["ok"]["instrs"]):
                return f"{ctx}: all arguments in one partition, but the gate is not in the returned circuit on the same qubits"
        return None
    if exp:
        if real.get("error") == "ValueError":
            return None
        if kind == "expand":
            return (f"expand_observables: observables {[o['l'] for o in payload['obs']]} on {len(payload['obs'][0]['l'])} qubit(s) for an original "
                    f"circuit of {payload['n']} qubit(s) (registers {payload['regs']}; final circuit layout {payload['layout']}, 'o' = original "
                    f"qubit, 'f' = fresh one) -- a size mismatch / missing qubit -- was not refused with ValueError: {str(real)[:200]}")
        if kind == "validate" and payload.get("what") == "unbound_angle":
            return (f"{payload['gate']}({payload['expr']}), an angle with a free parameter, handed to {payload['entry']}"
                    + (f" (on qubits {payload['q']} at position {payload['pos']} of a {payload['nq']}-qubit circuit)" if "q" in payload else "")
                    + f" was not refused with ValueError: {str(real)[:160]}")
        return f"documented invalid input ({describe(kind, payload)['class']}) was not refused with ValueError: {str(real)[:160]}"
    if "error" in real:
        return f"valid input ({describe(kind, payload)['class']}) raised {real['error']}"
    return None
