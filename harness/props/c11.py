"""C11 — observable grouping and measurement circuits measure what they claim."""
from __future__ import annotations

import json
import numpy as np

from .. import canon, gen
from ..core import call_real

ID = "C11"
LEAN_MODULE = "CKT.Props.C11Gen"
THEOREMS = [
    # the measurement step of the model is the translated source (harness/translate/measure.py -> Generated/Measure.lean)
    "CKT.C11Gen.measurementInstrs_translated",
    "CKT.C11.mergeLetters_spec", "CKT.C11.go_spec", "CKT.C11.mostGeneral_spec", "CKT.C11.mostGeneral_refuses_empty",
    "CKT.C11.mergeLetters_incompatible", "CKT.C11.maskGo_testBit", "CKT.C11.maskOf_testBit", "CKT.C11.mem_pauliIndices",
    "CKT.C11.checkCollection_sound", "CKT.C11.mkGroup_spec", "CKT.C11.measuredIndices_spec",
    # shape of the appended measurement block (Props/C11Meas): per measured qubit one basis rotation on that qubit (h / sx / none) directly
    # followed by its measurement into its own bit; the explicit-locations form with the identity map is the default form
    "CKT.C11.measBlock_spec", "CKT.C11.measurementInstrs_measures", "CKT.C11.appendMeasurementLoc_identity",
    # T11.4 (Walsh identity) in the Pauli-expectation semantics: signed-measurement lemma, one block, all blocks, and the statement for the
    # circuit `_append_measurement_circuit` appends; hypotheses satisfiable (qMeasSem) and tied to the channel model's gate table
    "CKT.Sem.meas_signed", "CKT.Sem.block_decode", "CKT.Sem.decode_blocks", "CKT.C11.measurementInstrs_blocks", "CKT.C11.decode_measurement",
    "CKT.C11.memberStr_at", "CKT.C11.memberStr_off", "CKT.C11.qMeasSem", "CKT.Sem.stdProj_is_channel_ptm", "CKT.Sem.marker_is_signed_projectors",
    "CKT.Sem.h_rows", "CKT.Sem.sx_rows",
]
LEVEL_TEXT = ("grouping checker soundness, general observable, bitmasks, shape of the appended measurement circuit + T11.4 (Walsh identity: parity-decoded outcomes of the appended circuit = the member's expectation value) proved in the Pauli-expectation semantics with standard projectors and the h/sx rows of the channel model; Qiskit's grouping is external and validated per run by the proved checker")
RULE = ("Pauli lists on 1-6 qubits (duplicates, all-identity, mutually anticommuting sets, up to 40 entries) through ObservableCollection, "
        "most_general_observable (and the construct_general_observables hook) on compatible and incompatible lists incl. members clashing on 1-4 qubits "
        "(even clash counts commute as a whole), measurement circuits for every group on random preparation circuits and on fixed ones that leave every "
        "measured qubit in a superposition (decoded value by value and through a table of kept decoded values); "
        "non-trivial = some non-identity letter; distinct by payload")
ASSUMPTIONS = ["PauliList.unique / group_commuting(qubit_wise=True) are Qiskit's: their output is validated per run by checkCollection (soundness proved)",
               "failing-input search decodes the measurement circuit's exact outcome distribution under the reference simulator"]


def _pl(obs):
    from qiskit.quantum_info import PauliList
    return PauliList([["", "-i", "-", "i"][o.get("p", 0)] + o["l"][::-1] for o in obs])


def _ps(p):
    lab = p.to_label()
    n = p.num_qubits
    return {"l": lab[len(lab) - n:][::-1], "p": int(p.phase)}


def _clash_cases():
    """Deterministic family (seed independent): lists handed directly to the general-observable builder whose members clash on 1, 2, 3, 4
    qubits -- an even number of clashes commutes as a whole (XX/ZZ, XY/YX, ...), an odd number anticommutes; qubit-wise compatibility is
    neither.  Also clashes that only appear against the accumulated general observable of the earlier members, clashes next to agreeing
    qubits, duplicates, and the compatible counterpart of each shape; through the bare function and through the public hook
    ObservableCollection.construct_general_observables."""
    out = []

    def add(labels, via="function", num_qubits=None):
        n = len(labels[0])
        out.append(("general", {"n": n, "members": [{"l": l, "p": 0} for l in labels], "num_qubits": num_qubits, "via": via,
                                "always_oracle": True}))
    pairs = [("X", "Z"), ("X", "Y"), ("Y", "Z"), ("Z", "X")]
    # two members clashing on exactly k of n qubits (the rest agree or are identity on one side)
    for k in (1, 2, 3, 4):
        for j, (a, b) in enumerate(pairs[:3] if k != 2 else pairs):
            add([a * k, b * k], via=("function", "hook")[(j + k) % 2])
    add(["XY", "YX"]); add(["XY", "YX"], via="hook"); add(["XX", "YY"], num_qubits=2); add(["ZY", "YZ"], via="hook")
    add(["XXZ", "ZZZ"]); add(["XXI", "ZZY"], via="hook"); add(["IXYZ", "IYXZ"]); add(["XZXZ", "ZXZX"], via="hook")
    # the clash is against the accumulated general observable, not against any single earlier member
    add(["XI", "IZ", "ZX"]); add(["XI", "IZ", "ZX"], via="hook"); add(["XII", "IYI", "IIZ", "ZZZ"]); add(["XII", "IYI", "YXI"], via="hook")
    add(["XX", "XX", "ZZ"]); add(["II", "XX", "II", "ZZ"], via="hook"); add(["XX", "ZZ", "XX"])
    # compatible counterparts (must be accepted, per-qubit union)
    add(["XX", "XX"]); add(["XI", "IZ", "XZ"], via="hook"); add(["XYI", "IYZ"]); add(["IIII", "XZXZ", "XIXI"], via="hook")
    return out


def _rand_clash_cases(rng, tier):
    """Random lists with a prescribed number of clashing qubits (own generator stream position: yielded after all other cases)."""
    for _ in range(40 if tier == "quick" else 600):
        n = rng.randint(2, 6)
        gl = "".join(rng.choice("XYZ") for _ in range(n))
        members = [{"l": "".join(rng.choice([g, g, "I"]) for g in gl), "p": 0} for _ in range(rng.randint(1, 3))]
        k = rng.randint(1, n)
        qs = rng.sample(range(n), k)
        members.append({"l": "".join((rng.choice([c for c in "XYZ" if c != gl[i]]) if i in qs else rng.choice([gl[i], "I"])) for i in range(n)), "p": 0})
        if rng.random() < 0.7:
            members.insert(0, {"l": gl, "p": 0})   # then the clash is real on every chosen qubit; otherwise the list may be compatible
        rng.shuffle(members)
        via = rng.choice(["function", "hook"])
        yield ("general", {"n": n, "members": members, "num_qubits": rng.choice([None, n]) if via == "function" else None, "via": via})


def _iterable_form_cases():
    """Deterministic family (seed independent): the other documented input form of ObservableCollection -- an iterable of Pauli objects
    (list / tuple / generator) instead of a PauliList -- on lists that fall into two or more commuting groups.  That form goes through a
    `set`, so the order in which the distinct observables reach the grouping is arbitrary: "salted" presents Pauli objects (a subclass that
    only overrides __hash__, deterministically) under several salts, i.e. several reproducible set orders; the plain forms use ordinary
    Pauli objects (whatever order this process's string hashing gives).  Each list also goes through the PauliList form."""
    lists = [
        ["ZI", "IZ", "ZZ", "XX"],                           # the Z group has three members, the X group one
        ["YZ", "YI", "IZ", "XX"],
        ["X", "Y", "Z", "I"],                               # three singleton groups + identity
        ["ZZ", "XX", "YY", "ZI", "IX", "YI"],               # three groups of two
        ["III", "YII", "IIX", "ZYX", "ZZZ", "IZX"],
        ["IIZZ", "IZZI", "ZZII", "IXIX", "ZZIZ", "XIXI"],
        ["XXI", "IXX", "ZZI", "IZZ", "YIY", "ZIZ", "XIX"],
        ["XYZ", "ZXY", "YZX", "XII", "IZI", "IIY", "XYZ"],  # with a duplicate
        ["IIII", "XIIZ", "ZIIX", "IYYI", "IXZI", "YIIY", "ZZZZ", "XXXX"],
    ]
    out = []
    for li, labels in enumerate(lists):
        n = len(labels[0])
        forms = [("salted", s) for s in range(4)] + [(("list", "tuple", "generator")[li % 3], None), (None, None)]
        for form, salt in forms:
            out.append(("collection", {"n": n, "obs": [{"l": l, "p": 0} for l in labels], "prep_seed": 1000 + 7 * li, "form": form,
                                       "salt": salt, "always_oracle": True}))
    return out


def _superposition_prep(n, k):
    """A fixed preparation circuit on n qubits (variant k) that leaves every qubit in a proper superposition in every Pauli basis."""
    prep = []
    for q in range(n):
        prep.append({"name": ("ry", "rx", "ry")[(q + k) % 3], "qubits": [q], "params": [0.4 + 0.3 * q + 0.1 * k]})
        prep.append({"name": "rz", "qubits": [q], "params": [0.9 - 0.2 * q]})
    for q in range(n - 1):
        prep.append({"name": ("cx", "cz")[(q + k) % 2], "qubits": [q, q + 1]})
    for q in range(n):
        prep.append({"name": ("rx", "ry")[(q + k) % 2], "qubits": [q], "params": [1.1 - 0.15 * q + 0.05 * k]})
    return prep


def _extra_measured_cases():
    """Deterministic family (seed independent): groups whose general observable measures MORE qubits than the members use (what the
    documented hook ObservableCollection.construct_general_observables is for -- "measure additional qubits" -- or a directly constructed
    CommutingObservableGroup): a measured qubit on which every member is identity lies below / between / above the qubits the members act
    on, so the position of a member's letter among the MEASURED qubits differs from its position among the qubits the members use.
    Labels are written qubit 0 first.  Superposition preparation, so a shifted mask bit changes the decoded value."""
    specs = [
        ("ZZX", ["IZX", "IIX", "IZI"], None),          # extra measured qubit 0 below everything the members use
        ("ZX", ["IX"], None),
        ("ZXY", ["IIY", "IXY"], None),
        ("ZZZZ", ["IIIZ", "IZII", "IZIZ"], None),      # extra measured qubits 0 and 2 (below and between)
        ("XYZ", ["XIZ", "IIZ"], None),                 # extra measured qubit between
        ("ZYX", ["ZYX", "IYI", "IIX"], None),          # counterpart: the union of the members is the general observable
        ("YZXZ", ["IZII", "IIIZ"], None),              # extra measured qubits 0 and 2, members one letter each
        ("ZZ", ["II"], None),                          # nothing used, two qubits measured
        ("XIZY", ["IIZI", "IIIY", "IIZY"], [2, 0, 3, 1]),   # with explicit qubit locations (a permutation); qubit 1 not measured at all
        ("ZXZ", ["IXI", "IXZ"], [3, 1, 0]),            # embedded into a wider circuit
    ]
    out = []
    for k, (gl, members, locs) in enumerate(specs):
        n = len(gl)
        ncirc = n if locs is None else max(locs) + 1
        out.append(("measure", {"n": n, "general": gl, "members": [{"l": m, "p": 0} for m in members], "prep": _superposition_prep(ncirc, k),
                                "wrong_width": False, "locs": locs, "ncirc": ncirc, "cregs": [] if k % 3 else [["qpd_measurements", 1]],
                                "always_oracle": True}))
    return out


def _table_cases():
    """Deterministic family (seed independent): measurement circuits on preparation circuits that leave EVERY measured qubit in a proper
    superposition in its measured basis (so that many register values occur, with member parities that differ from value to value), for
    groups of one to five members on 1-4 qubits.  The failing-input search decodes these (like every other case) in the two orders a
    caller can use: each register value decoded and used at once, and every register value decoded first (the decoded values kept in a
    table) and weighted afterwards."""
    specs = [
        ("Z", ["Z"]),
        ("X", ["X", "I"]),
        ("ZY", ["ZY", "ZI", "IY"]),
        ("XYZ", ["XYZ", "XII", "IYI", "IIZ", "XIZ"]),
        ("ZIX", ["ZIX", "ZII", "IIX"]),
        ("ZZXX", ["ZZII", "IIXX", "ZIXI", "IZIX"]),
        ("YXZY", ["YXZY", "YIIY", "IXZI", "YXII", "IIII"]),
    ]
    out = []
    for k, (gl, members) in enumerate(specs):
        n = len(gl)
        prep = _superposition_prep(n, k)
        out.append(("measure", {"n": n, "general": gl, "members": [{"l": m, "p": 0} for m in members], "prep": prep, "wrong_width": False,
                                "locs": None, "ncirc": n, "cregs": [] if k % 3 else [["qpd_measurements", 1]], "always_oracle": True}))
    return out


def regenerate():
    """the rotate-and-measure loop of _append_measurement_circuit, translated on every run"""
    from ..translate import measure
    from ..core import REPO, LEAN
    measure.regenerate(REPO, LEAN)


def cases(rng, tier):
    yield from _clash_cases()
    yield from _iterable_form_cases()
    yield from _table_cases()
    yield from _extra_measured_cases()
    yield from _wide_cases(rng, tier)
    for n in (1, 2, 3):
        # groups with nothing to measure (the forced dummy measurement)
        yield ("measure", {"n": n, "general": "I" * n, "members": [{"l": "I" * n, "p": 0}],
                           "prep": gen.rand_instrs(rng, n, 3, barriers=False, families="integer"), "wrong_width": False, "locs": None, "ncirc": n,
                           "cregs": [], "always_oracle": True})
    N = 120 if tier == "quick" else 2000
    for _ in range(N):
        n = rng.randint(1, 6)
        k = rng.choice([1, 2, 3, 5, 8, 20, 40])
        letters = rng.choice(["IXYZ", "IIIXYZ", "IZ", "XYZ", "I"])
        obs = gen.rand_paulis(rng, n, k, letters)
        if rng.random() < 0.3:
            obs = obs + [dict(rng.choice(obs)) for _ in range(rng.randint(1, 3))]
        yield ("collection", {"n": n, "obs": obs, "prep_seed": rng.randrange(1 << 30)})
    for _ in range(N):
        n = rng.randint(1, 6)
        gl = "".join(rng.choice("IXYZ") for _ in range(n))
        members = [{"l": "".join(rng.choice([g, "I"]) for g in gl), "p": 0} for _ in range(rng.randint(1, 5))]
        r = rng.random()
        if r < 0.25:  # make it incompatible somewhere
            m = rng.randrange(len(members))
            q = rng.randrange(n)
            cur = gl[q]
            members.append({"l": "".join((rng.choice([c for c in "XYZ" if c != cur]) if i == q else "I") for i in range(n)), "p": 0})
            rng.shuffle(members)
        elif r < 0.3:
            members = []
        elif r < 0.35:
            members[rng.randrange(len(members))]["p"] = rng.randrange(1, 4)
        elif r < 0.4:
            members.append({"l": "Z" * (n + 1), "p": 0})
        yield ("general", {"n": n, "members": members, "num_qubits": rng.choice([None, None, n])})
    for _ in range(N):
        n = rng.randint(1, 5)
        gl = "".join(rng.choice("IIXYZ") for _ in range(n))
        members = [{"l": "".join(rng.choice([g, "I"]) for g in gl), "p": 0} for _ in range(rng.randint(1, 4))]
        locs, ncirc = None, n
        r_ = rng.random()
        if r_ < 0.2:
            locs = list(range(n)); rng.shuffle(locs)                        # a permutation
        elif r_ < 0.35:
            ncirc = n + rng.randint(1, 2)
            locs = rng.sample(range(ncirc), n)                                # an embedding into a wider circuit
        prep = gen.rand_instrs(rng, ncirc, rng.randint(0, 6), barriers=False, families="integer")
        yield ("measure", {"n": n, "general": gl, "members": members, "prep": prep, "wrong_width": locs is None and rng.random() < 0.05,
                           "locs": locs, "ncirc": ncirc,
                           # classical registers that exist before the observable register is appended
                           "cregs": rng.choice([[], [], [["qpd_measurements", 2]], [["flag", 1]], [["a", 1], ["b", 3]]])})
    yield from _rand_clash_cases(rng, tier)


def _wide_cases(rng, tier):
    from . import c06
    from ..core import frac
    from fractions import Fraction
    for _ in range(6 if tier == "quick" else 60):
        nobs = rng.randint(1, 3)
        nq = rng.choice([9, 10, 12])
        subobs = [["".join(rng.choice("XYZZI") for _ in range(nq)) for _ in range(nobs)]]
        yield ("decode_v2", {"labels": ["A"], "form": rng.choice(["single", "dict"]), "nobs": nobs, "subobs": subobs,
                             "coeffs": [frac(Fraction(rng.randint(-16, 16) or 1, 8)) for _ in range(rng.randint(1, 3))],
                             "variant": "v2", "seed": rng.randrange(1 << 30), "drop": False, "strkeys": False})


def _cog(payload):
    from qiskit.quantum_info import Pauli
    from qiskit_addon_cutting.utils.observable_grouping import CommutingObservableGroup
    return CommutingObservableGroup(Pauli(payload["general"][::-1]), [Pauli(m["l"][::-1]) for m in payload["members"]])


_SALTED = {}


def _salted_pauli(salt):
    """A Pauli subclass that differs from Pauli only in a deterministic (process independent) hash: the iteration order of a `set` of
    such objects is reproducible, and differs from salt to salt."""
    if salt not in _SALTED:
        import zlib
        from qiskit.quantum_info import Pauli

        class SaltedPauli(Pauli):
            def __hash__(self):
                return zlib.crc32(f"{salt}:{self.to_label()}".encode())
        _SALTED[salt] = SaltedPauli
    return _SALTED[salt]


def _collection(payload):
    from qiskit.quantum_info import Pauli
    from qiskit_addon_cutting.utils.observable_grouping import ObservableCollection
    form = payload.get("form")
    if not form:
        return ObservableCollection(_pl(payload["obs"]))
    # the Iterable[Pauli] input form (documented next to PauliList)
    cls = _salted_pauli(payload.get("salt") or 0) if form == "salted" else Pauli
    ps = [cls(["", "-i", "-", "i"][o.get("p", 0)] + o["l"][::-1]) for o in payload["obs"]]
    if form == "tuple":
        return ObservableCollection(tuple(ps))
    if form == "generator":
        return ObservableCollection(p for p in ps)
    return ObservableCollection(ps)


def model_line(kind, payload):
    if kind == "decode_v2":
        from . import c06
        return c06.model_line("reconstruct", payload)
    if kind == "general":
        return {"op": "c11.most_general", "obs": payload["members"], "num_qubits": payload["num_qubits"]}
    if kind == "collection":
        oc = _collection(payload)
        groups = [{"general": _ps(g.general_observable), "members": [_ps(m) for m in g.commuting_observables],
                   "indices": [int(i) for i in g.pauli_indices], "masks": [int(m) for m in g.pauli_bitmasks]} for g in oc.groups]
        lookup = [[_ps(p), [[int(a), int(b)] for a, b in locs]] for p, locs in oc.lookup.items()]
        return {"op": "c11.check_collection", "obs": payload["obs"], "groups": groups, "lookup": lookup}
    n = payload.get("ncirc", payload["n"]) + (1 if payload["wrong_width"] else 0)
    qc = canon.build_circuit({"nq": n, "instrs": payload["prep"], "cregs": payload.get("cregs", [])})
    cog = _cog(payload)
    return {"op": "c11.append_measurement", "circuit": canon.canon_circuit(qc), "general": {"l": payload["general"], "p": 0},
            "indices": [int(i) for i in cog.pauli_indices], "locs": payload.get("locs")}


def run_real(kind, payload):
    if kind == "decode_v2":
        from . import c06
        return c06.run_real("reconstruct", payload)
    from qiskit.quantum_info import Pauli
    from qiskit_addon_cutting.utils.observable_grouping import most_general_observable
    from qiskit_addon_cutting.cutting_experiments import _append_measurement_register, _append_measurement_circuit
    if kind == "general":
        nq = payload["num_qubits"]
        ms = [Pauli(["", "-i", "-", "i"][m["p"]] + m["l"][::-1]) for m in payload["members"]]
        if payload.get("via") == "hook":
            # the public hook that builds the general observable of each caller-supplied group (no num_qubits argument)
            from qiskit_addon_cutting.utils.observable_grouping import ObservableCollection
            (out,) = ObservableCollection.construct_general_observables([list(ms)])
        else:
            out = most_general_observable(ms, num_qubits=nq)
        return {"ok": _ps(out)}
    if kind == "collection":
        _collection(payload)
        return {"ok": {"valid": True, "general_recomputed": True}}
    n = payload.get("ncirc", payload["n"]) + (1 if payload["wrong_width"] else 0)
    qc = canon.build_circuit({"nq": n, "instrs": payload["prep"], "cregs": payload.get("cregs", [])})
    cog = _cog(payload)
    kw = {} if payload.get("locs") is None else {"qubit_locations": list(payload["locs"])}
    before_qc = canon.canon_circuit(qc)
    q2 = _append_measurement_register(qc, cog)
    before_q2 = canon.canon_circuit(q2)
    q3 = _append_measurement_circuit(q2, cog, **kw)
    q3b = _append_measurement_circuit(q2, cog, **kw)   # a second out-of-place call on the same base (one per commuting group in practice)
    if canon.canon_circuit(qc) != before_qc or canon.canon_circuit(q2) != before_q2:
        return {"ok": {"input_mutated": "an out-of-place call changed its input circuit"}}
    if canon.canon_circuit(q3b) != canon.canon_circuit(q3):
        return {"ok": {"input_mutated": "a second out-of-place call on the same base gave a different circuit"}}
    return {"ok": canon.canon_circuit(q3)}


def model_canon(kind, payload, out):
    if kind == "decode_v2":
        from . import c06
        return c06.model_canon("reconstruct", payload, out)
    if "driver_error" in out:
        raise RuntimeError(out["driver_error"])
    return out


def compare(kind, payload, real, model):
    if real != model:
        return f"real={json.dumps(real)[:400]} model={json.dumps(model)[:400]}"
    return None


def describe(kind, payload):
    if kind == "decode_v2":
        return {"n": len(payload["subobs"][0][0]), "kind2": "decode_v2"}
    if kind == "collection":
        return {"n": payload["n"], "nobs": len(payload["obs"]), "input_form": payload.get("form") or "PauliList"}
    return {"n": payload["n"]}


def nontrivial_key(kind, payload):
    if kind == "decode_v2":
        return hash(json.dumps([kind, payload], sort_keys=True))
    obs = payload.get("obs") or payload.get("members")
    if all(set(o["l"]) <= {"I"} for o in obs):
        return None
    return hash(json.dumps([kind, payload], sort_keys=True))


class _Vals(list):
    """decoded expectations, with a remark on how they were decoded when that matters"""
    note = ""


def _decode(qc_meas, cog, members, base=0):
    """Exact outcome distribution of the measurement circuit, decoded by mask parity.  `base` = number of classical bits in front of
    the observable register (registers that existed before; nothing is written to them here)."""
    from ..oracles import sem
    from qiskit_addon_cutting.cutting_reconstruction import _process_outcome, _process_outcome_v2
    br = sem.simulate(qc_meas)
    # the other order of use: EVERY occurring register value is decoded first and the decoded values are kept (a decode table, one entry
    # per value, through both decoders), the weighting with the probabilities happens afterwards
    if not any(k0 & ((1 << base) - 1) for k0 in br):
        table = [(k0 >> base, float(np.real(np.trace(rho))), _process_outcome(cog, k0 >> base)) for k0, rho in br.items()]
        table2 = [(k0 >> base, float(np.real(np.trace(rho))), _process_outcome_v2(cog, k0 >> base, 0)) for k0, rho in br.items()]
        for tb, nm in ((table, "_process_outcome"), (table2, "_process_outcome_v2")):
            tv = np.zeros(len(members))
            for k, p, vec in tb:
                tv += p * np.asarray(vec, dtype=float)
            ref = [sum(p * (-1) ** bin(k & int(mask)).count("1") for k, p, _ in tb) for mask in cog.pauli_bitmasks]
            if not np.allclose(tv, ref, atol=1e-12):
                out = _Vals(float(x) for x in tv)
                out.note = f" [every register value decoded first with {nm}, the decoded values kept in a table and weighted afterwards"
                for k, p, vec in tb:
                    want = [(-1) ** bin(k & int(mask)).count("1") for mask in cog.pauli_bitmasks]
                    if [float(x) for x in np.asarray(vec, dtype=float)] != [float(x) for x in want]:
                        out.note += (f"; the kept value for register value {k:#b} now reads {[float(x) for x in np.asarray(vec, dtype=float)]}, "
                                     f"the parities of that value are {want}")
                        break
                out.note += "]"
                return out
    vals = [0.0] * len(members)
    v1 = np.zeros(len(members))
    v2 = np.zeros(len(members))
    nb = max(1, len(cog.pauli_indices))
    vs = np.zeros(len(members))   # decoded from Counts-style string keys "<qpd bits> <observable bits>"
    for k0, rho in br.items():
        p = float(np.real(np.trace(rho)))
        if k0 & ((1 << base) - 1):
            return [float("nan")] * len(members)   # a measurement was written into a register that existed before
        k = k0 >> base
        # a one-bit QPD register on top: "0 ..." leaves the sign, "1 ..." flips it; also hexadecimal and unspaced binary keys
        obits = format(k, "b").zfill(nb)
        for key, sign in (("0 " + obits, 1), ("1 " + obits, -1), ("10 " + obits, -1), (hex(k), 1), (obits, 1)):
            vs += p * sign * np.asarray(_process_outcome(cog, key), dtype=float) / 5.0
        for mi, mask in enumerate(cog.pauli_bitmasks):
            vals[mi] += p * (-1) ** bin(k & mask).count("1")
        # the package's own decoders (no QPD bits set here): joint-integer form and two-register form
        v1 += p * np.asarray(_process_outcome(cog, k), dtype=float)
        v2 += p * np.asarray(_process_outcome_v2(cog, k, 0), dtype=float)
    if not (np.allclose(v1, vals, atol=1e-12) and np.allclose(v2, vals, atol=1e-12) and np.allclose(vs, vals, atol=1e-12)):
        # report through the return value: the caller compares with the true expectations
        bad = v1 if not np.allclose(v1, vals, atol=1e-12) else (v2 if not np.allclose(v2, vals, atol=1e-12) else vs)
        return [float(x) for x in bad]
    return vals


def oracle(kind, payload):
    if kind == "decode_v2":
        from . import c06
        return c06.oracle("reconstruct", payload)
    from qiskit.quantum_info import Pauli
    from qiskit_addon_cutting.cutting_experiments import _append_measurement_register, _append_measurement_circuit
    from ..oracles import sem
    import random
    if kind == "general":
        real = call_real(lambda p: run_real(kind, p), payload)
        ms = payload["members"]
        n = payload["num_qubits"] if payload["num_qubits"] is not None else (len(ms[0]["l"]) if ms else 0)
        bad = (not ms) or any(len(m["l"]) != n for m in ms)
        comp = not bad and all(len({m["l"][q] for m in ms} - {"I"}) <= 1 for q in range(n))
        if bad or not comp:
            if real.get("error") == "ValueError":
                return None
            if not bad:
                clash = [q for q in range(n) if len({m["l"][q] for m in ms} - {"I"}) > 1]
                return (f"incompatible/invalid list not refused: members {[m['l'] for m in ms]} are not qubit-wise compatible (they clash on "
                        f"qubit(s) {clash}) but a general observable was returned: {real}")
            return f"incompatible/invalid list not refused: {real}"
        if "error" in real:
            return f"compatible list refused: {real}"
        exp = "".join(next((m["l"][q] for m in ms if m["l"][q] != "I"), "I") for q in range(n))
        return None if real["ok"]["l"] == exp else f"general observable {real['ok']['l']} != {exp}"
    if kind == "collection":
        try:
            oc = _collection(payload)
        except Exception as ex:
            return f"ObservableCollection raised {type(ex).__name__}: {ex}"
        want = {o["l"] for o in payload["obs"]}
        for o in payload["obs"]:
            from qiskit.quantum_info import Pauli as _P
            key = _P(o["l"][::-1])
            if key not in oc.lookup or not oc.lookup[key]:
                return f"observable {o['l']} not covered by the grouping"
            for (a, b) in oc.lookup[key]:
                if _ps(oc.groups[a].commuting_observables[b])["l"] != o["l"]:
                    return "lookup points at a different observable"
        n = payload["n"]
        rng = random.Random(payload["prep_seed"])
        prep = gen.rand_instrs(rng, n, rng.randint(1, 6), barriers=False, families="integer")
        how = f" (input form: {payload['form']}" + (f", salt {payload.get('salt')}" if payload["form"] == "salted" else "") + ")" if payload.get("form") else ""
        for g in oc.groups:
            gl = _ps(g.general_observable)["l"]
            # the recorded qubit indices are the support of the group's general observable ...
            support = [i for i, c in enumerate(gl) if c != "I"]
            if [int(i) for i in g.pauli_indices] != support:
                return f"group {gl} records qubit indices {list(g.pauli_indices)}, its general observable acts on {support}{how}"
            if len(g.pauli_bitmasks) != len(g.commuting_observables):
                return f"group {gl} has {len(g.commuting_observables)} members but {len(g.pauli_bitmasks)} bitmasks{how}"
            for m, mask in zip(g.commuting_observables, g.pauli_bitmasks):
                ml = _ps(m)["l"]
                if any(c != "I" and c != gl[i] for i, c in enumerate(ml)):
                    return f"member {ml} incompatible with general observable {gl} of its group{how}"
                # ... and each bitmask marks exactly the measured positions on which the member acts
                want = sum(1 << pos for pos, q in enumerate(support) if ml[q] != "I")
                if int(mask) != want:
                    return f"bitmask of member {ml} in group {gl} is {int(mask):b}, the member acts on measured positions {want:b}{how}"
            qc = canon.build_circuit({"nq": n, "instrs": prep})
            true = sem.expectations(qc, [_ps(m)["l"] for m in g.commuting_observables])
            qm = _append_measurement_circuit(_append_measurement_register(qc, g), g)
            dec = _decode(qm, g, g.commuting_observables)
            if not np.allclose(true, dec, atol=1e-9):
                return f"decoded {list(dec)} but true expectations are {true} for group {gl}{how}{getattr(dec, 'note', '')}"
        return None
    # measure
    if payload["wrong_width"]:
        real = call_real(lambda p: run_real(kind, p), payload)
        return None if real.get("error") == "ValueError" else "qubit count mismatch not refused"
    real = call_real(lambda p: run_real(kind, p), payload)
    if isinstance(real.get("ok"), dict) and "input_mutated" in real["ok"]:
        return "_append_measurement_circuit(inplace=False): " + real["ok"]["input_mutated"]
    cog = _cog(payload)
    ncirc = payload.get("ncirc", payload["n"])
    locs = payload.get("locs")
    qc = canon.build_circuit({"nq": ncirc, "instrs": payload["prep"], "cregs": payload.get("cregs", [])})

    def place(lab):
        # the member's letters at the circuit positions given by qubit_locations, identity elsewhere
        if locs is None:
            return lab
        out = ["I"] * ncirc
        for i, ch in enumerate(lab):
            out[locs[i]] = ch
        return "".join(out)
    true = sem.expectations(qc, [place(m["l"]) for m in payload["members"]])
    try:
        kw = {} if locs is None else {"qubit_locations": list(locs)}
        qm = _append_measurement_circuit(_append_measurement_register(qc, cog), cog, **kw)
    except Exception as ex:
        return f"appending measurements raised {type(ex).__name__}: {ex}"
    dec = _decode(qm, cog, payload["members"], base=sum(w for _, w in payload.get("cregs", [])))
    if not np.allclose(true, dec, atol=1e-9):
        return f"decoded {list(dec)} but true expectations are {true}{getattr(dec, 'note', '')}"
    # each bitmask marks exactly the measured positions (positions among the non-identity qubits of the general observable, ascending) on
    # which the member acts -- also when the general observable measures qubits that no member uses
    meas_q = [i for i, ch in enumerate(payload["general"]) if ch != "I"]
    if len(cog.pauli_bitmasks) != len(payload["members"]):
        return f"group {payload['general']} has {len(payload['members'])} members but {len(cog.pauli_bitmasks)} bitmasks"
    for m, mask in zip(payload["members"], cog.pauli_bitmasks):
        want_mask = sum(1 << pos for pos, q in enumerate(meas_q) if m["l"][q] != "I")
        if int(mask) != want_mask:
            return (f"bitmask of member {m['l']} in group {payload['general']} (labels qubit 0 first; measured qubits {meas_q}) is "
                    f"{int(mask):#b}, the member acts on measured positions {want_mask:#b}")
    # the group itself is a record of where its members act: using it must not change it
    want_idx = [i for i, ch in enumerate(payload["general"]) if ch != "I"]
    if [int(i) for i in cog.pauli_indices] != want_idx:
        return f"after building the measurement circuit and decoding, the group records qubit indices {list(cog.pauli_indices)}, its members act on {want_idx}"
    return None
