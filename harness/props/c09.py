"""C09 — cut finding is reproducible under a seed and independent of call history."""
from __future__ import annotations

import json
import random
import subprocess
import sys
import numpy as np

from .. import canon, cutfind, workflow
from ..core import call_real, VERIF
from . import c05

ID = "C09"
LEAN_MODULE = "CKT.Props.C09Gen"
THEOREMS = ["CKT.C09." + t for t in ["greedyWrites_id", "step_preserves", "run_preserves", "history_independent", "find_cuts_reproducible",
                                      "exact_weights_pure"]]
RULE = ("target find_cuts requests (integer-kappa circuits, compared exactly with the model; circuits whose cut candidates take the KAK path - rzx, xx+-yy, unitaries, instances of a user-defined gate class that share name and parameters but not their matrix - compared on overhead and on the decomposition attached to every cut gate) evaluated before and after random histories of 2-12 other "
        "calls (other circuits, restricted settings, requests that raise: three-qubit gates, bad settings), after reseeding/advancing numpy's and "
        "Python's global generators, and in a fresh interpreter; exact-weight experiment generation likewise; monitored: fingerprints of the action "
        "registry, both module-level function tables and the decomposition registry after every call, global RNG states before/after; distinct by payload; "
        "deterministic families: targets with a binding max_gamma / max_backjumps limit before and after calls with no limit at all (max_gamma = inf, "
        "1e300, huge max_backjumps), one cut kind only or limits of zero; sessions that hand one DeviceConstraints (and one OptimizationParameters) "
        "object to every call - circuits narrower than the device, wider ones, then the target - compared with the history-free call on fresh equal objects; "
        "sessions that hand one QuantumCircuit object to several calls (identical request repeated, other settings in between; solutions of wire cuts "
        "only, gate cuts only, both) compared with the call on a freshly built equal circuit; exact-weight generation for problems with 7-9 "
        "observables in several bases (PauliList inputs, separated and unseparated form) repeated in fresh interpreters under two PYTHONHASHSEEDs; "
        "circuits handed over the way callers hold them - a copy of the built circuit, or assembled with QuantumCircuit's gate methods, so that "
        "their standard gates are handed out as temporaries - with several parametric two-qubit gates of distinct angles (rzx, xx+-yy, rzz, cp, crx), "
        "the identical request repeated 6 times with other calls, allocations and collections in between (every repeat must return the first "
        "answer); parameter sweeps of exact-weight generation (16 one-cut problems of one shape with distinct angles, separated and unseparated form, each built, "
        "used, dropped and collected before the next) compared with the same problems generated while all of them are alive; requests in which "
        "the warm-start pass meets equally cheap moves (left or right input wire of a swap/iswap/dcx gate, or of any gate with gate cuts disabled) "
        "and its solution is what comes back (max_backjumps 0/1, binding max_gamma, wire-cut-only full search), before and after other such "
        "requests, repeated back to back, and in a fresh interpreter")
ASSUMPTIONS = ["Python aliasing and interpreter-level state are outside the Lean model; they are observed by the runtime monitors of this check",
               "the seeded numpy Generator stream is a function of the integer seed (numpy's contract)"]
LEVEL_TEXT = ("6 Lean 4 theorems over an explicit-global-state model (every call returns the globals it was given, hence outputs are independent of "
              "history; exact weights never consult the sampler) + runtime monitors on the real process (partial by nature: aliasing is not in the model)")


def _fingerprint():
    import qiskit_addon_cutting.cut_finding.cutting_actions as CA
    import qiskit_addon_cutting.cut_finding.cut_optimization as CO
    import qiskit_addon_cutting.cut_finding.lo_cuts_optimizer as LO
    import qiskit_addon_cutting.qpd.decompositions as D
    reg = CA.disjoint_subcircuit_actions

    def tab(t):
        return tuple(id(getattr(t, n)) if getattr(t, n) is not None else None
                     for n in ("cost_func", "next_state_func", "goal_state_func", "upperbound_cost_func", "mincost_bound_func"))
    return (tuple((k, id(v)) for k, v in reg.action_dict.items()),
            tuple((k, tuple(id(a) for a in v)) for k, v in reg.group_dict.items()),
            tab(CO.cut_optimization_search_funcs), tab(LO.cut_optimization_search_funcs),
            tuple((k, id(v)) for k, v in D._qpdbasis_from_instruction_funcs.items()))


def _rng_states():
    return (repr(np.random.get_state()), repr(random.getstate()))


BIG_PAIRS = [(0, 3), (7, 2), (4, 3), (4, 5), (7, 3), (0, 7), (6, 5), (7, 0), (5, 1), (6, 7), (0, 4), (1, 7)]


def _big_target(rng):
    """a search that enqueues several thousand states (more than any fixed-size block of pre-drawn tie-break numbers) on a circuit whose
    optimum is reached by several equally cheap placements"""
    pairs = list(BIG_PAIRS)
    if rng.random() < 0.5:
        perm = list(range(8))
        rng.shuffle(perm)
        pairs = [(perm[a], perm[b]) for a, b in pairs]
    return {"nq": 8, "instrs": [{"name": "cx", "qubits": [a, b]} for a, b in pairs], "seed": rng.choice([3, 3, rng.randrange(1 << 30)]),
            "max_gamma": 1024.0, "max_backjumps": 10000, "gate_lo": True, "wire_lo": True, "width": 3, "exact": True}


def _cxs(nq, pairs, width, seed, **kw):
    t = {"nq": nq, "instrs": [{"name": "cx", "qubits": [a, b]} for a, b in pairs], "seed": seed, "max_gamma": 1024.0, "max_backjumps": None,
         "gate_lo": True, "wire_lo": True, "width": width, "exact": True}
    t.update(kw)
    return t


def _ladder(n):
    return [(i, i + 1) for i in range(n - 1)]


FAN_IN = [(0, 3), (1, 3), (2, 3), (3, 4)]
TREE8 = [(0, 1), (0, 2), (0, 3), (0, 4), (5, 6), (6, 7), (4, 5)]
INF = float("inf")


def _limits_family():
    """deterministic: a target whose max_gamma / max_backjumps limit is *binding* (smaller than what the optimum needs, so the search
    is cut short and the warm-start solution comes back) evaluated before and after other calls that use the opposite extreme of the
    same legal settings: no limit at all (max_gamma = inf, 1e300; max_backjumps None / huge), one cut kind only, limits of zero"""
    sc = [11, 22, 3]
    fams = [
        # fan-in: warm start = two gate cuts (81), optimum = one wire cut (16, gamma 4) - out of reach with max_gamma 2.5
        (_cxs(5, FAN_IN, 3, 3, max_gamma=2.5),
         [_cxs(5, _ladder(5), 3, 1, max_gamma=INF), _cxs(4, _ladder(4), 2, 2)]),
        (_cxs(5, FAN_IN, 3, 3, max_gamma=3.5),
         [_cxs(4, _ladder(4), 2, 5, max_gamma=1e300, gate_lo=False), _cxs(5, FAN_IN, 3, 5, max_gamma=INF, wire_lo=False)]),
        # a ladder that needs two cuts under a limit that admits one
        (_cxs(6, _ladder(6) + _ladder(6), 2, 7, max_gamma=8.9),
         [_cxs(3, _ladder(3), 2, 1, max_gamma=INF, max_backjumps=0), _cxs(5, FAN_IN, 3, 9, max_gamma=1.0)]),
        # binding backjump limit after searches without one, and the other way round
        (_cxs(6, [(0, 1), (1, 2), (2, 3), (3, 4), (4, 5), (0, 5), (1, 4)], 3, 2, max_gamma=1e6, max_backjumps=1),
         [_cxs(5, FAN_IN, 3, 1, max_gamma=INF, max_backjumps=10 ** 9), _cxs(4, _ladder(4), 2, 1, max_backjumps=0)]),
        (_cxs(5, FAN_IN, 3, 3),
         [_cxs(5, FAN_IN, 3, 3, max_gamma=2.5), _cxs(5, FAN_IN, 3, 3, max_gamma=INF), _cxs(5, FAN_IN, 3, 3, max_backjumps=0)]),
    ]
    for tgt, hist in fams:
        yield ("history", {"target": tgt, "history": hist, "scramble": list(sc), "fresh": False, "always_oracle": True})


def _session_family():
    """deterministic: one DeviceConstraints object (and optionally one OptimizationParameters object) describes "my device" and is handed
    to every find_cuts call of a session: circuits narrower than the device (also: declared wide but with few qubits touched), wider
    ones, then the target; the target's answer must be the one obtained with freshly built, equal objects and no history"""
    sc = [5, 6, 1]
    fams = [
        (_cxs(7, _ladder(7), 5, 4), [_cxs(3, _ladder(3), 5, 3), _cxs(2, [(0, 1)], 5, 2)], ["constraints"]),
        (_cxs(8, TREE8, 5, 4), [_cxs(8, TREE8, 5, 4), _cxs(6, [(0, 1), (1, 0)], 5, 4), _cxs(4, _ladder(4), 5, 4)], ["constraints", "params"]),
        (_cxs(5, [(i, (i + 1) % 5) for i in range(5)], 3, 1, gate_lo=False),
         [_cxs(6, _ladder(6), 3, 8), _cxs(2, [(0, 1), (0, 1)], 3, 0), _cxs(4, [(2, 3)], 3, 1, wire_lo=False)], ["constraints"]),
        (_cxs(6, _ladder(6) + [(0, 5)], 4, 0, max_backjumps=10000),
         [_cxs(3, [(0, 2), (2, 1)], 4, 0, max_backjumps=10000), _cxs(6, _ladder(6) + [(0, 5)], 4, 0, max_backjumps=10000),
          _cxs(1, [], 4, 0, max_backjumps=10000, instrs=[{"name": "h", "qubits": [0]}])], ["constraints", "params"]),
    ]
    for tgt, hist, share in fams:
        yield ("history", {"target": tgt, "history": hist, "session": {"share": share}, "scramble": list(sc), "fresh": False,
                           "always_oracle": True})


RING5 = [(i, (i + 1) % 5) for i in range(5)]
TWO_BLOCKS = [(0, 1), (1, 2), (0, 2), (2, 3), (2, 4), (3, 4)]   # blocks {0,1,2} and {3,4} joined through qubit 2: one wire cut beats two gate cuts


def _circuit_family():
    """deterministic: the caller keeps ONE QuantumCircuit object and hands it to find_cuts again and again - the identical request
    repeated, the same circuit under other settings (other width / seed / cut kinds) in between, other circuits in between - and then
    makes the target request with it; the answer must be the one obtained for a freshly built, equal circuit that no call has seen.
    The targets cover the three shapes of a solution: wire cuts only, gate cuts only, both"""
    sc = [9, 4, 2]
    fams = [
        # optimum = one wire cut; the identical request twice before
        (_cxs(5, FAN_IN, 3, 3), [_cxs(5, FAN_IN, 3, 3), _cxs(5, FAN_IN, 3, 3)], ["circuit"]),
        # one wire cut (16) against two gate cuts (81); before: the same object under another width and seed, and another circuit
        (_cxs(5, TWO_BLOCKS, 3, 7), [_cxs(5, TWO_BLOCKS, 4, 3), _cxs(4, _ladder(4), 2, 1), _cxs(5, TWO_BLOCKS, 3, 7)], ["circuit"]),
        # wire cuts only by request (gate_lo=False); before: the same object with gate cuts only, then with wire cuts only
        (_cxs(5, RING5, 3, 1, gate_lo=False), [_cxs(5, RING5, 3, 1, wire_lo=False), _cxs(5, RING5, 3, 1, gate_lo=False)],
         ["circuit", "constraints"]),
        # gate cuts only
        (_cxs(6, _ladder(6), 2, 2, wire_lo=False), [_cxs(6, _ladder(6), 2, 2, wire_lo=False), _cxs(6, _ladder(6), 3, 5)], ["circuit"]),
        # gate cuts and wire cuts in one solution; circuit, constraints and parameters objects all kept by the caller
        (_cxs(MIXED[1][0], MIXED[1][3], MIXED[1][1], MIXED[1][2], max_backjumps=10000),
         [_cxs(MIXED[1][0], MIXED[1][3], MIXED[1][1], MIXED[1][2], max_backjumps=10000), _cxs(3, _ladder(3), 3, 5, max_backjumps=10000)],
         ["circuit", "constraints", "params"]),
    ]
    for tgt, hist, share in fams:
        yield ("history", {"target": tgt, "history": hist, "session": {"share": share}, "scramble": list(sc), "fresh": False,
                           "always_oracle": True})


def _obs_problem(nq, instrs, part, obs, pool_idx, form="dict", qregs=None):
    return {"nq": nq, "qregs": qregs or [nq], "instrs": instrs, "labels": list(part), "pool_idx": list(pool_idx),
            "obs": [{"l": o, "p": 0} for o in obs], "idle": [], "part": list(part), "form": form, "N": None, "seed": 1}


def _g(name, *qs, params=None):
    d = {"name": name, "qubits": list(qs)}
    if params is not None:
        d["params"] = list(params)
    return d


def _observables_family():
    """deterministic: exact-weight generation for problems with many observables (6-8 distinct ones per partition after restriction, in
    several measurement bases, with repeats and the identity), so that each partition has several commuting groups whose order is
    observable in the order of the subexperiments; generated in this process (before and after a history) and in fresh interpreters
    started with two different PYTHONHASHSEEDs (string hashing differs from interpreter to interpreter; CPython picks one at random by
    default) - a caller generates in one process and reconstructs in another, so the lists must be identical.  The observables are
    handed over as a PauliList (the documented type), never as a set or list of Pauli"""
    sc = [3, 8, 1]
    probs = [
        # three partitions, two cut gates, string labels, a repeated observable and the identity
        _obs_problem(5, [_g("h", 0), _g("cx", 0, 1), _g("sx", 2), _g("cz", 1, 2), _g("cx", 2, 3), _g("h", 4), _g("cx", 3, 4), _g("ry", 4, params=[0.6])],
                     [0, 0, 1, 1, 2], ["ZZIII", "XXIII", "IYZII", "IIXYI", "ZIIXZ", "YIIZX", "IIIII", "XXIII", "IZYIY"], [0, 1, 4],
                     qregs=[2, 3]),
        # the unseparated form: one circuit with its cut gate, the observables of the whole circuit
        _obs_problem(3, [_g("h", 0), _g("cx", 0, 1), _g("ry", 2, params=[0.5]), _g("cx", 1, 2), _g("sx", 1)],
                     [0, 0, 1], ["ZZI", "XXI", "IYY", "ZIZ", "YXI", "IIX", "XZY"], [0, 1], form="single"),
    ]
    for p in probs:
        yield ("generate", {"problem": p, "history": [_cxs(4, _ladder(4), 2, 1)], "scramble": list(sc), "fresh": True, "hashseeds": [1, 3],
                            "always_oracle": True})


def _rot(name, a, b, *ps):
    return {"name": name, "qubits": [a, b], "params": list(ps)}


def _handed(nq, instrs, width, seed, how, **kw):
    t = {"nq": nq, "instrs": instrs, "seed": seed, "max_gamma": 1e6, "max_backjumps": None, "gate_lo": True, "wire_lo": True, "width": width,
         "exact": False, "handover": how}
    t.update(kw)
    return t


def _handover_family():
    """deterministic: the circuit reaches find_cuts the way callers usually hold it - as a copy of the circuit they built
    (QuantumCircuit.copy) or assembled with QuantumCircuit's gate methods (qc.rzx(...)) - so that its standard gates live in the circuit's
    native storage and every `instruction.operation` access hands out a temporary Python object (the harness otherwise appends gate
    objects, which the circuit keeps).  The circuits carry several PARAMETRIC two-qubit gates with pairwise distinct angles: gates without
    a dedicated decomposition (rzx, xx_plus_yy, xx_minus_yy), mixed with registered ones (rzz, cx, cp, crx).  The identical request is
    repeated with other calls, allocations and collections in between; every repeat must return what the first call returned"""
    sc = [17, 4, 3]
    # the gates that are cheapest to cut come late in the circuit, after several other rotations
    kak3 = [_rot("xx_plus_yy", 0, 1, 0.7, 0.0), _rot("rzx", 0, 1, 1.1), _g("rx", 1, params=[0.2]), _rot("xx_minus_yy", 0, 1, 2.1, 0.3), _g("h", 2),
            _rot("rzx", 1, 2, 0.15), _g("rx", 2, params=[1.3]), _rot("xx_plus_yy", 1, 2, 0.35, 0.0)]
    mixed = [_rot("rzx", 0, 1, 0.1), _rot("rzz", 1, 2, 0.7), _g("rx", 1, params=[0.3]), _rot("rzx", 2, 3, 1.3), _g("cx", 0, 1), _rot("rzx", 1, 2, 1.1),
             _g("sx", 2), _rot("rzx", 0, 2, 0.9)]
    rzx3 = [_rot("rzx", 0, 1, 1.4), _rot("rzx", 1, 2, 0.6), _g("ry", 1, params=[0.4]), _rot("rzx", 0, 1, 0.25), _rot("rzx", 1, 2, 0.9)]
    known = [_rot("rzz", 0, 1, 0.3), _rot("cp", 1, 2, 1.1), _g("ry", 1, params=[0.4]), _rot("crx", 2, 3, 0.6), _rot("rxx", 1, 2, 0.15), _rot("rzz", 0, 1, 1.4),
             _rot("cp", 2, 3, 0.8)]
    fams = [
        (_handed(3, kak3, 2, 5, "copy"), [_handed(3, rzx3, 2, 2, "copy")]),
        (_handed(4, mixed, 2, 7, "methods"), [_handed(3, rzx3, 2, 1, "methods")]),
        (_handed(4, known, 2, 11, "methods"), [_handed(3, rzx3, 2, 3, "copy")]),
    ]
    for tgt, between in fams:
        yield ("history", {"target": tgt, "history": [], "repeats": 6, "between": between, "scramble": list(sc), "fresh": False,
                           "always_oracle": True})


def _sweep_problem(gates, nq=2, part=(0, 1), obs=("ZZ",), form="dict"):
    return _obs_problem(nq, [_g("h", q) for q in range(nq)] + gates, list(part), list(obs), list(range(len(set(part)))), form=form)


def _sweep_family():
    """deterministic: a parameter sweep of exact-weight generation - many small cutting problems of one shape whose cut gates differ in
    kind and angle, each one built, handed to generate_cutting_experiments(num_samples=inf), dropped and collected before the next one
    is built (so the interpreter re-uses the memory of the previous problem's objects for the next one's) - compared with the same
    problems generated while all of them are alive.  The result for a problem is a function of that problem alone"""
    sc = [2, 9, 1]
    kinds = ["rzz", "cp", "ryy", "crx"]
    one_kind = [_sweep_problem([_rot("rzz", 0, 1, round(0.2 + 0.05 * k, 4))], obs=("ZZ", "XX")) for k in range(16)]
    one = [_sweep_problem([_rot(kinds[k % 4], 0, 1, round(0.15 + 0.07 * k, 4))]) for k in range(16)]
    single = [_sweep_problem([_rot(kinds[(k + 1) % 4], 0, 1, round(0.3 + 0.06 * k, 4))], form="single") for k in range(16)]
    for probs in (one_kind, one, single):
        yield ("generate", {"problem": probs[1], "history": [], "sweep": probs, "scramble": list(sc), "always_oracle": True})


def _gates(nq, gates, width, seed, **kw):
    """a request on a circuit of fixed two-qubit gates given as (name, a, b); all of them have an integer kappa (cx 3, swap/iswap/dcx 7),
    so the history-free model decides every tie exactly"""
    t = _cxs(nq, [], width, seed, **kw)
    t["instrs"] = [{"name": n, "qubits": [a, b]} for n, a, b in gates]
    return t


def _sw(pairs, name="swap"):
    return [(name, a, b) for a, b in pairs]


def _warm_start_tie_family():
    """deterministic: requests in which the warm-start (greedy) pass has to choose between equally cheap moves AND its choice is what the
    caller gets back.  Equally cheap moves: cutting the left or the right input wire of a gate (both x4), which compete with each other
    when cutting the gate is dearer than that (swap, iswap, dcx: x7) or not allowed (gate_lo=False).  The warm-start solution comes back
    when the search proper is cut short (max_backjumps 0/1) or may not leave it behind (binding max_gamma), or supplies the pruning bound
    of a full wire-cut-only search.  Each target is evaluated history-free, after a history of other requests of the same sort (which go
    through different numbers of warm-start steps), repeated back to back, and (two of them) in a fresh interpreter"""
    sc = [12345, 12345, 7]
    h_swaps = _gates(5, _sw([(0, 3), (1, 4), (2, 4), (4, 3), (2, 3), (0, 1)]), 3, 100, gate_lo=False)
    h_ring = _gates(5, _sw(RING5, "iswap"), 3, 101, max_backjumps=0)
    h_cx = _gates(4, _sw([(0, 1), (1, 2), (2, 3), (0, 3), (1, 3)], "cx"), 2, 5, gate_lo=False, max_backjumps=1)
    h_one = _gates(3, _sw([(0, 1), (1, 2)], "dcx"), 2, 3, max_backjumps=0)
    fams = [
        # swaps only, search cut short at once
        (_gates(5, _sw([(2, 4), (1, 0), (2, 1), (0, 4), (2, 0), (2, 1), (2, 1)]), 3, 7, max_backjumps=0), [h_swaps, h_one], 3, True),
        # controlled gates and swaps mixed
        (_gates(4, [("cx", 0, 2), ("swap", 3, 1), ("swap", 1, 0), ("cx", 3, 2), ("swap", 0, 1), ("swap", 2, 1), ("swap", 2, 0)], 3, 7, max_backjumps=0),
         [h_ring], 2, False),
        # wire cuts only: full search whose pruning bound is the warm-start solution
        (_gates(4, _sw([(1, 0), (2, 3), (1, 0), (3, 0), (2, 1), (3, 0)], "cx"), 3, 7, gate_lo=False), [h_cx, h_swaps], 2, False),
        # wire cuts only on controlled gates, search cut short
        (_gates(5, _sw([(3, 0), (1, 4), (2, 4), (4, 3), (2, 3)], "cx"), 4, 7, gate_lo=False, max_backjumps=0), [h_one, h_ring, h_cx], 3, True),
        # iswap / dcx, one backjump allowed
        (_gates(5, [("iswap", 2, 4), ("dcx", 1, 0), ("iswap", 2, 1), ("dcx", 0, 4), ("iswap", 2, 0), ("dcx", 2, 1), ("iswap", 3, 1)], 3, 0, max_backjumps=1),
         [h_swaps, h_cx], 2, False),
        # a limit on the overhead that the optimum does not meet: the warm-start solution comes back
        (_gates(6, _sw([(0, 1), (2, 3), (4, 5), (1, 2), (3, 4), (0, 5), (1, 4), (2, 5)]), 3, 11, max_gamma=16.0), [h_ring, h_one], 2, False),
    ]
    for tgt, hist, reps, fresh in fams:
        yield ("history", {"target": tgt, "history": hist, "repeats": reps, "between": hist, "scramble": list(sc), "fresh": fresh,
                           "always_oracle": True})


def _both_wires_family():
    """Searches whose answer cuts BOTH wires in front of a gate (wire cuts only, two qubits per subcircuit): the two markers in front of one gate
    must come out in the same order in every interpreter (fresh interpreters under several PYTHONHASHSEEDs; qubits in one or two registers)"""
    progs = [[(0, 1), (2, 3), (0, 2), (1, 3)], [(0, 1), (2, 3), (0, 1), (1, 2), (0, 1)], [(0, 1), (2, 3), (1, 2), (0, 3), (1, 2)]]
    for k, prog in enumerate(progs):
        for qregs in ((None, [2, 2]) if k == 0 else (None,)):
            tgt = {"nq": 4, "instrs": [{"name": "cx", "qubits": list(q)} for q in prog], "seed": 11 + k, "max_gamma": 1e6, "max_backjumps": None,
                   "gate_lo": False, "wire_lo": True, "width": 2, "exact": True}
            if qregs:
                tgt["qregs"] = qregs
            yield ("history", {"target": tgt, "history": [], "scramble": [1, 2, 3], "fresh": True, "hashseeds": [1, 2, 3, 4, 5], "always_oracle": True})


# the search actions of the model are the translated source (harness/translate/actions.py -> Generated/CutActions.lean)
THEOREMS = THEOREMS + ["CKT.C07Gen.run_eq_model", "CKT.C07Gen.actionList_translated", "CKT.C09Gen.actions_pure"]


def regenerate():
    """the five search actions, translated from cut_finding/cutting_actions.py on every run"""
    from ..translate import actions
    from ..core import REPO, LEAN
    actions.regenerate(REPO, LEAN)


def cases(rng, tier):
    N = 36 if tier == "quick" else 300
    yield from _both_wires_family()
    yield from _warm_start_tie_family()
    yield from _limits_family()
    yield from _session_family()
    yield from _circuit_family()
    yield from _observables_family()
    yield from _handover_family()
    yield from _sweep_family()
    for _ in range(2 if tier == "quick" else 8):
        yield ("history", {"target": _mixed_target(rng), "history": [cutfind.gen_case(rng, tier) for _ in range(2)],
                           "scramble": [rng.randrange(1 << 30), rng.randrange(1 << 30), rng.randint(0, 50)], "fresh": True, "hashseeds": True,
                           "always_oracle": True})
    for _ in range(1 if tier == "quick" else 6):
        yield ("history", {"target": _big_target(rng), "history": [cutfind.gen_case(rng, tier) for _ in range(2)],
                           "scramble": [rng.randrange(1 << 30), rng.randrange(1 << 30), rng.randint(0, 50)], "fresh": True, "always_oracle": True})
    for i in range(N):
        kak = rng.random() < 0.3
        if kak:
            target = cutfind.gen_kak(rng, tier)
        elif rng.random() < 0.6:
            target = cutfind.gen_tie_rich(rng, tier)
            if rng.random() < 0.6:
                target["seed"] = 0   # an integer seed like any other
        else:
            target = cutfind.gen_case(rng, tier, exact=True, restricted=rng.random() < 0.4)
        target["width"] = max(1, target["width"])
        target["max_gamma"] = max(1.0, target["max_gamma"])
        if target["max_backjumps"] is not None and target["max_backjumps"] < 0:
            target["max_backjumps"] = 2
        hist = [cutfind.gen_kak(rng, tier) if (kak and rng.random() < 0.6) else cutfind.gen_case(rng, tier) for _ in range(rng.randint(2, 12))]
        for h in hist:
            if rng.random() < 0.25 and h["nq"] >= 3:
                h["instrs"].insert(0, {"name": "ccx", "qubits": [0, 1, 2]})
        if rng.random() < 0.3:
            hist.insert(rng.randint(0, len(hist)), {"special": "engine"})   # somebody tries another engine on a private settings object
        if rng.random() < 0.3 and target["width"] >= 1:
            target["reuse_constraints"] = rng.choice(["edit", "copy"])
        elif kak and i % 2 == 0:
            target["handover"] = "copy"   # the caller hands over a copy of the circuit (no random draw: the stream of cases stays as it was)
        yield ("history", {"target": target, "history": hist, "scramble": [rng.randrange(1 << 30), rng.randrange(1 << 30), rng.randint(0, 50)],
                           "fresh": (i % (8 if tier == "quick" else 10) == 0)})
    for _ in range(N // 2):
        p = workflow.gen_problem(rng, max_q=4, max_cuts=2, depth=5)
        p["form"] = "dict"
        p["N"] = None
        p["seed"] = rng.randrange(1 << 30)
        hist = [cutfind.gen_case(rng, tier) for _ in range(rng.randint(1, 4))]
        yield ("generate", {"problem": p, "history": hist, "scramble": [rng.randrange(1 << 30), rng.randrange(1 << 30), rng.randint(0, 50)]})


def model_line(kind, payload):
    if kind == "history":
        return cutfind.model_line(payload["target"])
    return c05.model_line("generate", payload["problem"])


def _scramble(s):
    np.random.seed(s[0] % (2 ** 32))
    random.seed(s[1])
    for _ in range(s[2]):
        np.random.random()
        random.random()


MIXED = [(7, 3, 5, [(2, 5), (2, 6), (0, 2), (1, 4), (0, 5), (4, 2), (1, 2), (2, 3), (4, 0), (5, 6)]),
         (5, 3, 5, [(3, 4), (4, 1), (4, 0), (2, 0), (1, 0), (3, 0), (1, 3), (0, 1)])]


def _mixed_target(rng):
    """solutions that contain gate cuts *and* wire cuts (the order of the metadata entries is then observable)"""
    nq, width, seed, pairs = rng.choice(MIXED)
    return {"nq": nq, "instrs": [{"name": "cx", "qubits": [a, b]} for a, b in pairs], "seed": seed, "max_gamma": 1024.0, "max_backjumps": 10000,
            "gate_lo": True, "wire_lo": True, "width": width, "exact": True}


_METHODS = {"id", "x", "y", "z", "h", "s", "sdg", "sx", "sxdg", "t", "tdg", "rx", "ry", "rz", "p", "cx", "cy", "cz", "ch", "cs", "csdg", "csx", "ecr", "swap",
            "iswap", "dcx", "rxx", "ryy", "rzz", "rzx", "crx", "cry", "crz", "cp", "ccx", "cswap", "ccz"}


def _handover(qc, payload):
    """the caller's circuit as it reaches find_cuts (payload key "handover", absent in older payloads): "copy" - a QuantumCircuit.copy()
    of the built circuit; "methods" - the same instructions assembled with QuantumCircuit's gate methods (qc.rzx(theta, a, b) ...; an
    instruction without such a method is appended as an object).  Either way an equal circuit (checked), whose standard gates are kept
    in the circuit's native storage and handed out as temporaries"""
    how = payload.get("handover")
    if not how:
        return qc
    if how == "copy":
        given = qc.copy()
    else:
        given = qc.copy_empty_like()
        for ins, inst in zip(payload["instrs"], qc.data):
            qs = [given.qubits[qc.find_bit(q).index] for q in inst.qubits]
            if ins["name"] in _METHODS and not inst.clbits and getattr(inst.operation, "label", None) is None:
                getattr(given, ins["name"])(*[float(x) for x in inst.operation.params], *qs)
            else:
                given.append(inst.operation, qs, list(inst.clbits))
    if given != qc:
        raise RuntimeError("harness: the handed-over circuit is not equal to the built one")
    return given


def _run_plain(payload):
    """cutfind.run_real, with the circuit handed over as the payload says"""
    if not payload.get("handover") or payload.get("special") or payload.get("reuse_constraints"):
        return cutfind.run_real(payload)
    from qiskit_addon_cutting import find_cuts, DeviceConstraints
    qc = cutfind.build(payload)
    o, width = cutfind._params(payload)
    out, meta = find_cuts(_handover(qc, payload), o, DeviceConstraints(width))
    return {"ok": cutfind.canon_output(qc, out, meta)}


def _r9(x):
    if isinstance(x, np.ndarray):
        return canon.canon_param(x)
    try:
        return round(float(x), 9)
    except Exception:
        return str(x)


def _light_call(payload):
    """one find_cuts call, read off completely but cheaply: every instruction of the returned circuit (name, qubits, parameters, label; for
    a cut gate the coefficients and the operations of its decomposition) and the metadata"""
    from qiskit_addon_cutting import find_cuts, DeviceConstraints
    if payload.get("special"):
        return cutfind.run_real(payload)
    try:
        qc = cutfind.build(payload)
        o, width = cutfind._params(payload)
        out, meta = find_cuts(_handover(qc, payload), o, DeviceConstraints(width))
    except ValueError:
        return {"error": "ValueError"}
    insts = []
    for inst in out.data:
        op = inst.operation
        e = [op.name, [out.find_bit(q).index for q in inst.qubits], [_r9(x) for x in op.params], op.label]
        if op.name == "qpd_2q":
            b = op.basis
            e.append([[_r9(c) for c in b.coeffs], [[[[g.name, [_r9(x) for x in g.params]] for g in side] for side in m] for m in b.maps]])
        insts.append(e)
    return {"instructions": insts, "cuts": [[c[0], int(c[1])] for c in meta["cuts"]], "overhead": float(meta["sampling_overhead"]),
            "minimum_reached": bool(meta["minimum_reached"])}


def _light_diff(x, y):
    if "error" in x or "error" in y:
        return f"{json.dumps(x)[:80]} vs {json.dumps(y)[:80]}"
    out = []
    for k in ("overhead", "cuts", "minimum_reached"):
        if x[k] != y[k]:
            out.append(f"{k} {json.dumps(x[k])[:70]} vs {json.dumps(y[k])[:70]}")
    if x["instructions"] != y["instructions"]:
        cut = lambda r: [k for k, e in enumerate(r["instructions"]) if e[0] in ("qpd_2q", "cut_wire")]   # noqa: E731
        if cut(x) != cut(y):
            out.append(f"cut positions in the returned circuit {cut(x)} vs {cut(y)}")
        elif [x["instructions"][k][:2] for k in cut(x)] != [y["instructions"][k][:2] for k in cut(y)]:
            where = lambda r: [[r["instructions"][k][0], r["instructions"][k][1]] for k in cut(r)]   # noqa: E731
            out.append(f"the cuts sit on other qubits: {json.dumps(where(x))[:120]} vs {json.dumps(where(y))[:120]}")
        else:
            out.append("the decompositions attached to the cut gates differ")
    return "; ".join(out)


def _repeats(tgt, n, between):
    """the identical request n more times; between the calls the process does what processes do: other find_cuts calls, allocations
    that stay, releases and collections.  Returns the notes (every call must return what the first one returned)"""
    import gc
    first = _light_call(tgt)
    keep = []
    for i in range(n):
        other = between[i % len(between)] if between else tgt
        if i % 3 == 0:
            # the caller builds further circuits, looks at their instructions and keeps what it looked at
            held = [_handover(cutfind.build(other), other) for _ in range(i + 2)]
            keep.append((held, [inst.operation for c in held for inst in c.data][: 3 + i]))
        elif i % 3 == 1:
            keep.clear()
            gc.collect(1)
            _light_call(other)
        else:
            mine = _handover(cutfind.build(tgt), tgt)
            keep.append(([[float(j)] for j in range(40 * (i + 1))], [inst.operation for inst in mine.data][i % 2::2]))
        r = _light_call(tgt)
        if r != first:
            held = {"copy": "a copy of the built circuit", "methods": "the circuit assembled with QuantumCircuit's gate methods"}.get(tgt.get("handover"), "the circuit")
            return [f"the identical find_cuts request ({held}, DeviceConstraints({tgt['width']}), seed {tgt['seed']}) returned another result at "
                    f"call {i + 2} than at call 1 of this case (other calls, allocations and collections in between): {_light_diff(r, first)}"]
    return []


def _gen_light(problem):
    """exact-weight generation for a freshly built problem, read off cheaply: coefficients with their weight types, and every instruction
    of every subexperiment.  Returns (the built inputs - the caller decides how long they live -, the reading)"""
    from qiskit_addon_cutting import generate_cutting_experiments
    circuits, observables, _ = c05._inputs0(problem)
    exps, coeffs = generate_cutting_experiments(circuits, observables, np.inf)

    def circ(c):
        return [[i.operation.name, [c.find_bit(q).index for q in i.qubits], [c.find_bit(b).index for b in i.clbits], [_r9(x) for x in i.operation.params]]
                for i in c.data]
    if isinstance(exps, dict):
        ex = [[workflow.label_index(problem, lab), [circ(c) for c in cs]] for lab, cs in exps.items()]
    else:
        ex = [[0, [circ(c) for c in exps]]]
    return (circuits, observables), {"coefficients": [[repr(float(c)), w.name] for c, w in coeffs], "experiments": ex}


def _sweep(problems):
    """first every problem of the sweep generated as a batch (all of them alive until the batch is done, then dropped), then the sweep
    proper: build, generate, drop, collect, next.  Returns the notes (equal arguments, equal results)"""
    import gc
    alive, ref = [], []
    for p in problems:
        objs, r = _gen_light(p)
        alive.append(objs)
        ref.append(r)
    del alive, objs
    gc.collect()
    bad = []
    gc.freeze()   # what exists now is not looked at by the collections below (they only have to find each dropped problem): cheap
    try:
        for k, p in enumerate(problems):
            objs, r = _gen_light(p)
            if r != ref[k]:
                what = ("the coefficients differ: " + json.dumps([c for c, _ in r["coefficients"]])[:90] + " vs " + json.dumps([c for c, _ in ref[k]["coefficients"]])[:90]
                        if r["coefficients"] != ref[k]["coefficients"] else "the subexperiments differ")
                bad.append((k, what))
            del objs
            gc.collect()
    finally:
        gc.unfreeze()
    if bad:
        k, what = bad[0]
        gates = [i for i in problems[k]["instrs"] if len(i["qubits"]) == 2]
        return [f"exact-weight generation in a sweep (each problem built, generated, dropped and collected before the next): {len(bad)} of {len(problems)} "
                f"problems give another result than the same problems generated as a batch (all alive) just before; first: problem {k} "
                f"(cut gates {json.dumps(gates)}): {what}"]
    return []


def _fresh(target, hashseed=None):
    # the same error mapping as core.call_real: a refusal in the fresh interpreter is a result, not a crash
    code = ("import sys, json; sys.path.insert(0, %r); from harness import cutfind, core; "
            "print('RESULT' + json.dumps(core.call_real(cutfind.run_real, json.loads(sys.argv[1]), timeout=280)))" % str(VERIF))
    if target.get("handover"):
        code = ("import sys, json; sys.path.insert(0, %r); from harness import core; from harness.props import c09; "
                "print('RESULT' + json.dumps(core.call_real(c09._run_plain, json.loads(sys.argv[1]), timeout=280)))" % str(VERIF))
    import os
    env = dict(os.environ)
    if hashseed is not None:
        env["PYTHONHASHSEED"] = str(hashseed)   # string hashing differs from interpreter to interpreter
    p = subprocess.run([sys.executable, "-W", "ignore", "-c", code, json.dumps({k: v for k, v in target.items() if not k.startswith("_")})],
                       capture_output=True, text=True, timeout=300, env=env)
    for l in p.stdout.splitlines():
        if l.startswith("RESULT"):
            return json.loads(l[6:])
    return {"error": "fresh interpreter failed: " + p.stderr[-200:]}


def _diff(x, y):
    """which observable fields differ (the quoted results are truncated)"""
    if not (isinstance(x, dict) and isinstance(y, dict) and isinstance(x.get("ok"), dict) and isinstance(y.get("ok"), dict)):
        return ""
    ks = [k for k in sorted(set(x["ok"]) | set(y["ok"])) if x["ok"].get(k) != y["ok"].get(k)]
    return " [differs in: " + ", ".join(f"{k} {json.dumps(x['ok'].get(k))[:60]} vs {json.dumps(y['ok'].get(k))[:60]}" for k in ks if k != "bases") + "]"


def _same_circuit(p, q):
    return all(p.get(k) == q.get(k) for k in ("nq", "instrs")) and (p.get("qregs") or None) == (q.get("qregs") or None)


def _run_with(payload, cons=None, opt=None, circ=None, own_reading=False):
    """cutfind.run_real with caller-owned constraints / parameters / circuit objects (a session re-uses them from call to call);
    `circ` is the caller's own QuantumCircuit for this request's circuit.  With `circ` or `own_reading` the returned circuit is read
    against a second, freshly built equal circuit that find_cuts never sees (what the request was, not what the handed-in object
    looks like after the call)"""
    from qiskit_addon_cutting import find_cuts, DeviceConstraints
    if payload.get("special") or payload.get("reuse_constraints"):
        return cutfind.run_real(payload)
    qc = cutfind.build(payload)
    given = circ if circ is not None else (cutfind.build(payload) if own_reading else qc)
    o, width = cutfind._params(payload)
    out, meta = find_cuts(given, o if opt is None else opt, DeviceConstraints(width) if cons is None else cons)
    return {"ok": cutfind.canon_output(qc, out, meta)}


def _fresh_generate(problem, hashseed=None):
    """exact-weight generation for `problem` in a fresh interpreter (same canonical form and error mapping as in this process)"""
    code = ("import sys, json; sys.path.insert(0, %r); from harness import core; from harness.props import c05; "
            "print('RESULT' + json.dumps(core.call_real(lambda p: c05._real(p)[0], json.loads(sys.argv[1]), timeout=280)))" % str(VERIF))
    import os
    env = dict(os.environ)
    if hashseed is not None:
        env["PYTHONHASHSEED"] = str(hashseed)
    p = subprocess.run([sys.executable, "-W", "ignore", "-c", code, json.dumps(problem)], capture_output=True, text=True, timeout=300, env=env)
    for l in p.stdout.splitlines():
        if l.startswith("RESULT"):
            return json.loads(l[6:])
    return {"error": "fresh interpreter failed: " + p.stderr[-200:]}


def _gen_diff(x, y):
    """where two canonical results of exact-weight generation differ"""
    if not (isinstance(x, dict) and isinstance(y, dict) and isinstance(x.get("ok"), dict) and isinstance(y.get("ok"), dict)):
        return f"{json.dumps(x)[:120]} vs {json.dumps(y)[:120]}"
    x, y = json.loads(json.dumps(x["ok"])), json.loads(json.dumps(y["ok"]))
    if x["coefficients"] != y["coefficients"]:
        return "the coefficient lists differ"
    if [l for l, _ in x["experiments"]] != [l for l, _ in y["experiments"]]:
        return "the partitions are listed in a different order"
    for (l, cx), (_, cy) in zip(x["experiments"], y["experiments"]):
        if len(cx) != len(cy):
            return f"partition {l}: {len(cx)} vs {len(cy)} subexperiments"
        bad = [k for k, (u, v) in enumerate(zip(cx, cy)) if u != v]
        if bad:
            same_set = sorted(json.dumps(u, sort_keys=True) for u in cx) == sorted(json.dumps(v, sort_keys=True) for v in cy)
            return (f"partition {l}: {len(bad)} of {len(cx)} subexperiments differ, first at position {bad[0]}"
                    + (" (the same circuits in another order)" if same_set else ""))
    return "results differ"


def run_real(kind, payload):
    notes = []
    f0 = _fingerprint()
    if kind == "history":
        tgt = {k: v for k, v in payload["target"].items() if not k.startswith("_")}
        sess = payload.get("session")
        if sess and "circuit" in sess["share"]:
            # reference: a freshly built circuit object that no other call ever sees
            a = call_real(lambda p: _run_with(p, own_reading=True), tgt, timeout=300)
        else:
            a = call_real(lambda p: _run_plain(p), tgt, timeout=300)
        if _fingerprint() != f0:
            notes.append("global tables changed by the target call")
        run = _run_plain
        if sess:
            # the caller's own objects, built once (equal to the ones the reference call `a` built for itself) and handed to every call
            from qiskit_addon_cutting import DeviceConstraints
            cons = DeviceConstraints(tgt["width"]) if "constraints" in sess["share"] else None
            opt = cutfind._params(tgt)[0] if "params" in sess["share"] else None
            # the caller's own circuit object for the target's circuit: every request about that circuit is made with this one object
            circ = cutfind.build(tgt) if "circuit" in sess["share"] else None
            run = lambda p: _run_with(p, cons, opt, circ if (circ is not None and _same_circuit(p, tgt)) else None)   # noqa: E731
        for h in payload["history"]:
            call_real(run, h, timeout=300)
            if _fingerprint() != f0:
                notes.append("global tables changed by a history call")
                break
        _scramble(payload["scramble"])
        s0 = _rng_states()
        b = call_real(run, tgt, timeout=300)
        if _rng_states() != s0:
            notes.append("find_cuts consumed a global random generator")
        if tgt.get("reuse_constraints"):
            # the same request with a freshly constructed, equal constraints object
            a2 = call_real(lambda p: _run_plain(p), {k: v for k, v in tgt.items() if k != "reuse_constraints"}, timeout=300)
            if a2 != a:
                notes.append(f"an edited DeviceConstraints object equal to DeviceConstraints({tgt['width']}) gives {json.dumps(a)[:120]}, "
                             f"a fresh one {json.dumps(a2)[:120]}")
        if a != b:
            how = ""
            if sess:
                names = {"constraints": "DeviceConstraints", "params": "OptimizationParameters", "circuit": "QuantumCircuit"}
                how = f" (the session handed one {' and one '.join(names[s] for s in sess['share'])} object to every call"
                if cons is not None:
                    how += f"; built as DeviceConstraints({tgt['width']}), the constraints object now reports a width of {cons.get_qpu_width()}"
                if circ is not None:
                    n0 = len(cutfind.build(tgt).data)
                    how += (f"; the circuit object, built with {n0} instructions and never edited by the caller, now holds {len(circ.data)}: "
                            f"{[i.operation.name for i in circ.data]}"[:400])
                how += ")"
            notes.append(f"result changed after the history{how}: {json.dumps(a)[:150]} -> {json.dumps(b)[:150]}{_diff(a, b)}")
        if payload.get("repeats") and "error" not in a:
            notes.extend(_repeats(tgt, int(payload["repeats"]), payload.get("between") or payload["history"]))
            if _fingerprint() != f0:
                notes.append("global tables changed by the repeated calls")
        if payload.get("fresh"):
            hss = payload.get("hashseeds")
            for hs in ((None,) if not hss else (tuple(hss) if isinstance(hss, (list, tuple)) else (1, 3))):
                c = _fresh(tgt, hs)
                if c != a:
                    notes.append(f"fresh interpreter{'' if hs is None else ' (PYTHONHASHSEED=%d)' % hs} gives {json.dumps(c)[:150]}, "
                                 f"this process {json.dumps(a)[:150]}{_diff(c, a)}")
                    break
        if "error" in a:
            return dict(a, notes=notes)
        return {"ok": a["ok"], "notes": notes}
    # exact-weight generation
    p = payload["problem"]
    try:
        a, _ = c05._real(p)
    except ValueError:
        a = {"error": "ValueError"}
    for h in payload["history"]:
        call_real(lambda q: cutfind.run_real(q), h, timeout=300)
    if payload.get("sweep"):
        notes.extend(_sweep(payload["sweep"]))
    _scramble(payload["scramble"])
    s0 = _rng_states()
    try:
        b, _ = c05._real(p)
    except ValueError:
        b = {"error": "ValueError"}
    if _rng_states() != s0:
        notes.append("exact-weight generation consumed a global random generator")
    if json.dumps(a, sort_keys=True) != json.dumps(b, sort_keys=True):
        notes.append("exact-weight generation changed after the history")
    if payload.get("fresh"):
        # the same arguments in a fresh interpreter (optionally under given string-hash seeds): same experiments in the same order
        for hs in (payload.get("hashseeds") or (None,)):
            c = _fresh_generate(p, hs)
            if json.dumps(c, sort_keys=True) != json.dumps(a, sort_keys=True):
                notes.append(f"exact-weight generation gives another result in a fresh interpreter{'' if hs is None else ' (PYTHONHASHSEED=%d)' % hs}"
                             f" than in this process for the same subcircuits and PauliList observables: {_gen_diff(c, a)}")
                break
    if _fingerprint() != f0:
        notes.append("global tables changed")
    if "error" in a:
        return dict(a, notes=notes)
    return {"ok": a["ok"], "notes": notes}


def model_canon(kind, payload, out):
    if kind == "history":
        return cutfind.model_canon(out)
    return c05.model_canon("generate", payload["problem"], out)


_suspect = {"budget": 0}


def compare(kind, payload, real, model):
    why = _compare(kind, payload, real, model)
    if why:
        # the implementation differs from the (history-free) model: from now on the failing-input search also asks a fresh interpreter,
        # because this process may already carry the leaked state in both of its own answers
        _suspect["budget"] = 25
    return why


def _compare(kind, payload, real, model):
    if real.get("notes"):
        return "; ".join(real["notes"])
    r = {k: v for k, v in real.items() if k != "notes"}
    if kind == "history":
        return cutfind.compare(payload["target"], r, model)
    return c05.compare("generate", payload["problem"], r, model)


def describe(kind, payload):
    return {"history_len": len(payload["history"]), "fresh": bool(payload.get("fresh"))}


def nontrivial_key(kind, payload):
    return hash(json.dumps(payload, sort_keys=True, default=str))


def oracle(kind, payload):
    if kind == "history" and payload.get("repeats") and not payload.get("session") and not payload["history"] and not payload.get("fresh"):
        # the repeated-request cases: the same clause (every call of the identical request returns what the first one returned) on a
        # longer series, read off with the cheap complete reading only
        f0 = _fingerprint()
        tgt = {k: v for k, v in payload["target"].items() if not k.startswith("_")}

        def series(p):
            _scramble(p["scramble"])
            s0 = _rng_states()
            notes = _repeats(tgt, int(p["repeats"]) + 2, p.get("between") or [])
            if _rng_states() != s0:
                notes.append("find_cuts consumed a global random generator")
            if _fingerprint() != f0:
                notes.append("global tables changed by the repeated calls")
            return {"notes": notes}
        real = call_real(series, payload, timeout=600)
        if real.get("notes"):
            return "; ".join(real["notes"])
        return None
    if kind == "history" and not payload.get("fresh") and _suspect["budget"] > 0:
        _suspect["budget"] -= 1
        payload = dict(payload, fresh=True)
    real = call_real(lambda p: run_real(kind, p), payload, timeout=600)
    if real.get("notes"):
        return "; ".join(real["notes"])
    return None
