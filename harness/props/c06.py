"""C06 — reconstruction computes the defined estimator for both result formats."""
from __future__ import annotations

import json
import numpy as np
from fractions import Fraction

from ..core import frac

ID = "C06"
LEAN_MODULE = "CKT.Props.C06Gen"
THEOREMS = [
    # the outcome arithmetic of the model is the translated source (harness/translate/outcome.py -> Generated/Outcome.lean)
    "CKT.C06Gen.processOutcomeV2_translated", "CKT.C06Gen.processOutcome_translated",
    # the estimator on an exact outcome distribution is a signed sum over the classical bits of the Pauli-expectation semantics (C06Sem)
    "CKT.C06Sem.signedSum_bitsDesc", "CKT.C06Sem.outcome_sign", "CKT.C06Sem.signedSum_perm", "CKT.C06Sem.estimator_is_signedSum",
    "CKT.C06.paritySign_eq_neg_one_pow",
    "CKT.C06.bitCount_eq_card_bits",
    "CKT.C06.paritySign_and_mask",
    "CKT.C06.processOutcome_split",
    "CKT.C06.groupExpvals_v1_sum",
    "CKT.C06.groupExpvals_v2_sum",
    "CKT.C06.groupExpvals_v1_merge",
    "CKT.C06.groupExpvals_v1_eq_v2",
    "CKT.C06.groupExpvals_v1_perm_invariant",
    "CKT.C06.reconstructImpl_eq_spec",
    "CKT.C06.reconstruct_refuses_count_mismatch",
    "CKT.C06.outcomeToInt_binary",
    "CKT.C06.outcomeToInt_hex",
]
LEVEL_TEXT = ("implementation loop = estimator, V1 = V2, parity signs, key parsing; the estimator on an exact outcome distribution is a signed sum over the classical bits of the Pauli-expectation semantics (C06Sem), which C01Full/Sem.decode_full evaluate to expectation values; BitArray byte order modelled; model tied to the code by exact rational comparison")
RULE = ("synthetic SamplerResult/PrimitiveResult data for 1-3 partitions, 1-4 observables, 1-12 bits per register, "
        "dyadic coefficients and quasi-probabilities (float arithmetic exact); non-trivial = at least one "
        "non-identity sub-observable and a non-constant outcome set; distinct by payload hash")
ASSUMPTIONS = [
    "ObservableCollection grouping (qiskit PauliList.group_commuting) is taken from the real run and passed to the model (validated by C11)",
    "BitArray stores big-endian bytes; QuasiDistribution normalises str keys to int (modelled, exercised through the real objects)",
    "float arithmetic is exact on the generated dyadic data; results compared as exact rationals",
]
LABELS = ["A", "B", 7, (1, 2), "xyz", -3, None]


def _label(x):
    return tuple(x) if isinstance(x, list) else x


def regenerate():
    """`_process_outcome` / `_process_outcome_v2`, translated from cutting_reconstruction.py on every run"""
    from ..translate import outcome
    from ..core import REPO, LEAN
    outcome.regenerate(REPO, LEAN)


def cases(rng, tier):
    # result containers of the wrong length (one pub / quasi-distribution too few or too many), for both sampler interfaces and both
    # call forms: refused with ValueError before anything is read
    for v in ("v1shots", "v2"):
        for mode in ("drop", "extra"):
            for form in ("dict", "single"):
                labels = ["A", "B"] if form == "dict" else ["A"]
                yield ("reconstruct", {"labels": labels, "form": form, "nobs": 2, "subobs": [["ZX", "XZ"], ["ZI", "IZ"]][: len(labels)],
                                       "coeffs": [frac(Fraction(3, 2)), frac(Fraction(-1, 2)), frac(Fraction(1, 4))], "variant": v,
                                       "seed": 11 + len(mode), "drop": mode == "drop", "extra": mode == "extra", "strkeys": False,
                                       "rot_results": 0, "rot_obs": 0, "always_oracle": True})
    # partitions run through different sampler interfaces (every order of V1 / V2 over three partitions); one outcome under two spellings
    for vs in (["v1shots", "v2", "v1shots"], ["v2", "v1shots", "v1shots"], ["v1shots", "v1shots", "v2"], ["v2", "v2", "v1shots"]):
        yield ("reconstruct", {"labels": ["A", "B", "C"], "form": "dict", "nobs": 2, "subobs": [["ZX", "XZ"], ["ZI", "IZ"], ["Y", "Z"]],
                               "coeffs": [frac(Fraction(3, 2)), frac(Fraction(-1, 2))], "variant": vs[0], "variants": vs, "seed": 21 + len(vs[0]),
                               "drop": False, "extra": False, "strkeys": False, "rot_results": 0, "rot_obs": 0, "always_oracle": True})
    for k in range(3):
        yield ("reconstruct", {"labels": ["A", "B"], "form": "dict", "nobs": 2, "subobs": [["ZX", "XZ"], ["ZI", "IZ"]],
                               "coeffs": [frac(Fraction(3, 2)), frac(Fraction(-1, 2)), frac(Fraction(1, 4))], "variant": "v1shots", "seed": 31 + k,
                               "drop": False, "extra": False, "strkeys": True, "alias": True, "rot_results": 0, "rot_obs": 0, "always_oracle": True})
    # SamplerV2 pubs that carry the metadata a sampler attaches (metadata["shots"] = the size of the job that produced the pub), while the
    # bit arrays hold (a) exactly those shots, (b) more rows -- a second run merged in with BitArray.concatenate_shots, first job's
    # metadata kept --, (c) fewer rows -- post-selected / slice_shots'ed data re-wrapped with the original metadata.  E is the average
    # over the outcomes present; V1 on the same data gives the same value.  Mixed with a V1 partition, and in the single-partition form.
    for j, (meta, labels, form, vs) in enumerate([("consistent", ["A", "B"], "dict", None), ("merged", ["A", "B"], "dict", None),
                                                   ("postselected", ["A", "B"], "dict", None), ("merged", ["A"], "single", None),
                                                   ("postselected", ["A"], "single", None),
                                                   ("merged", ["A", "B", "C"], "dict", ["v2", "v1shots", "v2"]),
                                                   ("postselected", ["A", "B", "C"], "dict", ["v1shots", "v2", "v2"])]):
        yield ("reconstruct", {"labels": labels, "form": form, "nobs": 3, "subobs": [["ZXI", "XZI", "IIY"], ["ZI", "IZ", "XX"], ["Y", "Z", "I"]][: len(labels)],
                               "coeffs": [frac(Fraction(3, 2)), frac(Fraction(-5, 4)), frac(Fraction(1, 2))][: 2 + j % 2], "variant": "v2",
                               "variants": vs, "meta": meta, "seed": 41 + j, "drop": False, "extra": False, "strkeys": False,
                               "rot_results": 0, "rot_obs": 0, "always_oracle": True})
    n = 120 if tier == "quick" else 2500
    for t in range(n):
        nparts = rng.randint(1, 3)
        nobs = rng.randint(1, 4)
        labels = rng.sample([l for l in LABELS if l is not None], nparts)
        form = "single" if (nparts == 1 and rng.random() < 0.3) else "dict"
        subobs = []
        for _ in labels:
            nq = rng.choice([1, 2, 3, 4, 9, 12])
            letters = rng.choice(["IIXYZ", "IZ", "XYZ", "I", "IXYZ"])
            subobs.append(["".join(rng.choice(letters) for _ in range(nq)) for _ in range(nobs)])
        if nparts >= 2 and rng.random() < 0.35:
            # two partitions with the same *set* of sub-observables listed in a different order (several commuting groups)
            nq = rng.choice([2, 3])
            base = rng.sample(["".join(p_) for p_ in __import__("itertools").product("XYZ", repeat=nq)], min(nobs, 3))
            while len(base) < nobs:
                base.append(rng.choice(base))
            subobs[0] = list(base)
            subobs[1] = list(base)
            while subobs[1] == subobs[0] and len(set(base)) > 1:
                rng.shuffle(subobs[1])
        ncoef = rng.randint(1, 6)
        coeffs = [frac(Fraction(rng.randint(-48, 48), 16)) for _ in range(ncoef)]
        v = rng.choice(["v1shots", "v1shots", "v1free", "v2"])
        payload = {"labels": labels, "form": form, "nobs": nobs, "subobs": subobs, "coeffs": coeffs,
                   "variant": v, "seed": rng.randrange(1 << 30), "drop": rng.random() < 0.08, "extra": rng.random() < 0.05,
                   "strkeys": rng.random() < 0.25, "alias": rng.random() < 0.1,
                   "variants": [rng.choice(["v1shots", "v2"]) for _ in range(nparts)] if (v in ("v1shots", "v2") and rng.random() < 0.2) else None,
                   # the results dict / the observables dict may have been filled in any order of the labels
                   "rot_results": rng.randrange(nparts) if rng.random() < 0.6 else 0,
                   "rot_obs": rng.randrange(nparts) if rng.random() < 0.3 else 0}
        if v == "v2" or "v2" in (payload["variants"] or []):
            # about half of the V2 inputs carry sampler metadata (derived from the seed already drawn: no extra draw from the stream)
            payload["meta"] = [None, None, None, "consistent", "merged", "postselected"][payload["seed"] % 6]
        yield ("reconstruct", payload)
    m = 150 if tier == "quick" else 3000
    for t in range(m):
        nq = rng.randint(1, 6)
        gen = "".join(rng.choice("IXYZ") for _ in range(nq))
        members = []
        for _ in range(rng.randint(1, 4)):
            members.append("".join(rng.choice([g, "I"]) for g in gen))
        r = rng.random()
        val = rng.randrange(1 << rng.choice([1, 3, 8, 14, 24]))
        if r < 0.2:
            outcome = val
        elif r < 0.4:
            outcome = format(val, "b")
        elif r < 0.5:
            outcome = " ".join(format(val, "b"))
        elif r < 0.65:
            outcome = hex(val)
        elif r < 0.7:
            outcome = hex(val).upper().replace("0X", "0x") if rng.random() < .5 else hex(val).upper()
        elif r < 0.78:
            outcome = bin(val)
        elif r < 0.83:
            outcome = oct(val)
        elif r < 0.9:
            outcome = str(val)
        else:
            outcome = rng.choice(["", "2", "9", "007", "20", "0x", "1x1", "0z1", "05", "-1", "+1", "0b", "0b2", "0xg", " ", "1 1 0 1"])
        yield ("outcome", {"general": gen, "members": members, "outcome": outcome})


def _build(payload):
    import random
    from qiskit.quantum_info import PauliList
    from qiskit.primitives import SamplerResult, PrimitiveResult, SamplerPubResult, BitArray, DataBin
    from qiskit.result import QuasiDistribution
    from qiskit_addon_cutting.qpd import WeightType
    from qiskit_addon_cutting.utils.observable_grouping import ObservableCollection

    rng = random.Random(payload["seed"])
    labels = [_label(l) for l in payload["labels"]]
    coeffs = [Fraction(c) for c in payload["coeffs"]]
    subobs = {l: PauliList(s) for l, s in zip(labels, payload["subobs"])}
    results, subs = {}, []
    for li, l in enumerate(labels):
        oc = ObservableCollection(subobs[l])
        G = len(oc.groups)
        exps, mexps = [], []
        # the partitions of one problem may have been run through different sampler interfaces
        variant = (payload.get("variants") or [payload["variant"]] * len(labels))[li]
        for i in range(len(coeffs)):
            for k, cog in enumerate(oc.groups):
                nb = max(1, len(cog.pauli_indices))
                nqpd = rng.choice([1, 2, 3, 9, 12])
                if variant == "v1free":
                    keys = {rng.randrange(1 << (nb + nqpd)) for _ in range(rng.randint(1, 6))}
                    qd = {kk: Fraction(rng.randint(-8, 16), 8) for kk in sorted(keys)}
                    shots = None
                else:
                    ns = rng.choice([1, 2, 4, 8])
                    shots = [(rng.randrange(1 << nb), rng.randrange(1 << nqpd)) for _ in range(ns)]
                    qd = {}
                    for o, q in shots:
                        key = o | (q << nb)
                        qd[key] = qd.get(key, 0) + Fraction(1, ns)
                if variant == "v2":
                    nbo, nbq = (nb + 7) // 8, (nqpd + 7) // 8
                    oa = np.array([[(o >> (8 * (nbo - 1 - j))) & 255 for j in range(nbo)] for o, q in shots], dtype=np.uint8)
                    qa = np.array([[(q >> (8 * (nbq - 1 - j))) & 255 for j in range(nbq)] for o, q in shots], dtype=np.uint8)
                    data = DataBin(observable_measurements=BitArray(oa, nb), qpd_measurements=BitArray(qa, nqpd), shape=())
                    meta = payload.get("meta")
                    if meta:
                        # the shot count the (first) job reported; the rows present are `shots` (no extra random draws: derived from ns)
                        m_shots = {"consistent": ns, "merged": max(1, ns // 2), "postselected": 2 * ns}[meta]
                        exps.append(SamplerPubResult(data, metadata={"shots": m_shots, "circuit_metadata": {}}))
                    else:
                        exps.append(SamplerPubResult(data))
                    mexps.append({"v2": [[o, q] for o, q in shots]})
                else:
                    fmt = rng.choice(["int", "bin", "hex"])
                    fl = {kk: float(v) for kk, v in qd.items()}
                    if fmt == "int":
                        d = fl
                    elif fmt == "bin":
                        d = {format(kk, "b").zfill(nb + nqpd): v for kk, v in fl.items()}
                    else:
                        d = {hex(kk): v for kk, v in fl.items()}
                    if payload.get("alias") and fl:
                        # one outcome listed under two spellings (an int and a padded / prefixed string): both weights count
                        kk0 = sorted(fl)[0]
                        ints = {(int(kx, 0) if isinstance(kx, str) and kx[:2] in ("0x", "0b") else (int(kx, 2) if isinstance(kx, str) else kx)): kx for kx in d}
                        key0 = ints[kk0]
                        w0 = d.pop(key0)
                        d[kk0] = w0 / 4
                        d[rng.choice([hex(kk0), "0" + format(kk0, "b").zfill(nb + nqpd), "0b" + format(kk0, "b")])] = w0 * 3 / 4
                        exps.append(d)
                    elif payload.get("strkeys") and fmt != "int":
                        exps.append(d)  # raw dict: string keys reach _outcome_to_int
                    else:
                        exps.append(QuasiDistribution(d))
                    mexps.append({"v1": [[kk, frac(v)] for kk, v in qd.items()]})
        if payload.get("drop") and exps:
            exps.pop()
            mexps.pop()
        if payload.get("extra") and exps:
            exps.append(exps[-1])
            mexps.append(mexps[-1])
        if variant == "v2":
            results[l] = PrimitiveResult(exps)
        else:
            results[l] = SamplerResult(exps, [{}] * len(exps))
        groups = [{"n_idx": len(c.pauli_indices), "masks": [int(m) for m in c.pauli_bitmasks]} for c in oc.groups]
        lookup = [[[int(m), int(n)] for m, n in oc.lookup[ob]] for ob in subobs[l]]
        subs.append({"groups": groups, "lookup": lookup, "results": mexps})
    wc = [(float(c), WeightType.EXACT) for c in coeffs]
    return labels, subobs, results, wc, subs


def _rot(d, k):
    """the same dict, filled starting from the k-th key"""
    keys = list(d)
    k %= max(1, len(keys))
    return {key: d[key] for key in keys[k:] + keys[:k]}


def _cog(payload):
    from qiskit.quantum_info import Pauli
    from qiskit_addon_cutting.utils.observable_grouping import CommutingObservableGroup
    return CommutingObservableGroup(Pauli(payload["general"]), [Pauli(m) for m in payload["members"]])


def model_line(kind, payload):
    if kind == "reconstruct":
        labels, subobs, results, wc, subs = _build(payload)
        return {"op": "c06.reconstruct", "subs": subs, "coeffs": payload["coeffs"], "nobs": payload["nobs"]}
    cog = _cog(payload)
    return {"op": "c06.process_outcome", "cog": {"n_idx": len(cog.pauli_indices), "masks": [int(m) for m in cog.pauli_bitmasks]},
            "outcome": payload["outcome"]}


def run_real(kind, payload):
    from qiskit_addon_cutting import reconstruct_expectation_values
    from qiskit_addon_cutting.cutting_reconstruction import _process_outcome
    if kind == "reconstruct":
        labels, subobs, results, wc, subs = _build(payload)
        if payload["form"] == "single":
            out = reconstruct_expectation_values(results[labels[0]], wc, subobs[labels[0]])
        else:
            out = reconstruct_expectation_values(_rot(results, payload.get("rot_results", 0)), wc, _rot(subobs, payload.get("rot_obs", 0)))
        return {"ok": [frac(x) for x in out]}
    out = _process_outcome(_cog(payload), payload["outcome"])
    return {"ok": [int(x) for x in out]}


def model_canon(kind, payload, out):
    if "driver_error" in out:
        raise RuntimeError(out["driver_error"])
    if "error" in out:
        return {"error": out["error"]}
    if kind == "reconstruct":
        if out["ok"] != out["spec"]:
            return {"ok": out["ok"], "spec_differs": out["spec"]}
        return {"ok": [frac(Fraction(x)) for x in out["ok"]]}
    return {"ok": out["ok"]}


def compare(kind, payload, real, model):
    if real != model:
        return f"real={json.dumps(real)[:300]} model={json.dumps(model)[:300]}"
    return None


def describe(kind, payload):
    if kind == "reconstruct":
        return {"variant": payload["variant"], "nparts": len(payload["labels"]), "form": payload["form"],
                "max_qubits": max(len(s[0]) for s in payload["subobs"]), "drop": payload["drop"],
                "v2_metadata": payload.get("meta") or "none"}
    o = payload["outcome"]
    return {"outcome_type": "int" if isinstance(o, int) else ("hex" if o[:2].lower() == "0x" else "str")}


def nontrivial_key(kind, payload):
    if kind == "reconstruct":
        if all(set(s) <= {"I"} for ss in payload["subobs"] for s in ss):
            return None
    return hash(json.dumps(payload, sort_keys=True, default=str))


def oracle(kind, payload):
    """Direct check of the property on the real code (used only to find a failing input)."""
    from qiskit_addon_cutting import reconstruct_expectation_values
    from qiskit_addon_cutting.cutting_reconstruction import _process_outcome
    popc = lambda x: bin(x).count("1")
    if kind == "outcome":
        cog = _cog(payload)
        o = payload["outcome"]
        try:
            if isinstance(o, int):
                val = o
            else:
                s = o.replace(" ", "")
                if s[:2].lower() == "0x":
                    val = int(s[2:], 16)
                elif s[:2].lower() == "0b":
                    val = int(s[2:], 2)
                elif s and set(s) <= {"0", "1"}:
                    val = int(s, 2)
                else:
                    return None  # not one of the documented key formats
        except ValueError:
            return None
        nb = max(1, len(cog.pauli_indices))
        obs, qpd = val & ((1 << nb) - 1), val >> nb
        exp = []
        for ob in cog.commuting_observables:
            sgn = (-1) ** popc(qpd)
            for bi, qi in enumerate(cog.pauli_indices):
                if str(ob[qi]) != "I" and (obs >> bi) & 1:
                    sgn = -sgn
            exp.append(sgn)
        try:
            got = [int(x) for x in _process_outcome(cog, o)]
        except Exception as ex:
            return f"_process_outcome raised {type(ex).__name__} on documented key {o!r}"
        return None if got == exp else f"_process_outcome({o!r}) = {got}, estimator definition gives {exp}"
    # reconstruct
    labels, subobs, results, wc, subs = _build(payload)
    ncoef = len(wc)
    bad_count = any(len(s["results"]) != ncoef * len(s["groups"]) for s in subs)
    try:
        if payload["form"] == "single":
            got = reconstruct_expectation_values(results[labels[0]], wc, subobs[labels[0]])
        else:
            got = reconstruct_expectation_values(_rot(results, payload.get("rot_results", 0)), wc, _rot(subobs, payload.get("rot_obs", 0)))
    except ValueError:
        return None if bad_count else "ValueError on well-formed input"
    except Exception as ex:
        return f"{type(ex).__name__}: {ex}"
    if bad_count:
        return "result count mismatch was not refused"
    ref = [Fraction(0)] * payload["nobs"]
    for k in range(payload["nobs"]):
        for i in range(ncoef):
            term = Fraction(payload["coeffs"][i])
            for l, s in zip(labels, subs):
                G = len(s["groups"])
                vals = []
                for (m, n) in s["lookup"][k]:
                    data = s["results"][i * G + m]
                    mask = s_mask(subobs[l][k], l, subobs, m)
                    nb = max(1, s["groups"][m]["n_idx"])
                    if "v1" in data:
                        e = sum(Fraction(p) * (-1) ** popc(key >> nb) * (-1) ** popc((key & ((1 << nb) - 1)) & mask) for key, p in data["v1"])
                    else:
                        e = sum(Fraction(1, len(data["v2"])) * (-1) ** popc(q) * (-1) ** popc(o & mask) for o, q in data["v2"])
                    vals.append(e)
                term *= sum(vals) / len(vals)
            ref[k] += term
    gotf = [Fraction(float(x)) for x in got]
    if any(abs(a - b) > Fraction(1, 10 ** 9) for a, b in zip(gotf, ref)) or len(gotf) != len(ref):
        how = ""
        if payload.get("meta"):
            how = (f" (V2 pubs carry metadata['shots'] -- {payload['meta']}: "
                   + {"consistent": "equal to", "merged": "smaller than", "postselected": "larger than"}[payload["meta"]]
                   + " the number of rows present in the bit arrays; E is the average over the rows present)")
        return f"reconstructed {[float(x) for x in gotf]} but estimator definition gives {[float(x) for x in ref]}{how}"
    return None


def s_mask(ob, l, subobs, m):
    """bitmask of observable `ob` within group m, recomputed independently from the Pauli letters."""
    from qiskit_addon_cutting.utils.observable_grouping import ObservableCollection
    oc = ObservableCollection(subobs[l])
    cog = oc.groups[m]
    gen = cog.general_observable.to_label()[::-1]
    idx = [i for i, c in enumerate(gen) if c != "I"]
    lab = ob.to_label()[::-1]
    mask = 0
    for bi, qi in enumerate(idx):
        if lab[qi] != "I":
            mask |= 1 << bi
    return mask
