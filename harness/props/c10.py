"""C10 — separating and partitioning a circuit preserves its structure and meaning."""
from __future__ import annotations

import json
import numpy as np

from .. import canon, gen
from ..core import call_real

ID = "C10"
LEAN_MODULE = "CKT.Props.C10Gen"
THEOREMS = [
    "CKT.C10.qubitMap_spec", "CKT.C10.qubitsOf_sorted_nodup", "CKT.C10.mem_qubitsOf",
    "CKT.C10.splitBarriers_non_barrier", "CKT.C10.splitBarriers_qubits",
    "CKT.C10.subInstrs_partition", "CKT.C10.subInstrs_sublist",
    "CKT.C10.combineBarriers_non_tagged", "CKT.C10.combineBarriers_no_tag_left",
    "CKT.C10.separate_refuses_length", "CKT.C10.separate_ok_labels",
    "CKT.C10.numberCuts_labels", "CKT.C10.splitHalves_pairs",
    # semantic half: recomposition through the qubit map, for every semantics with commuting disjoint instructions (C10Sem)
    "CKT.C10Sem.run_flatMap_grp", "CKT.C10Sem.lifted_sub", "CKT.C10Sem.separate_recompose",
    # the two laws proved for the Pauli-expectation semantics of dynamic circuits (any gate matrices): T10.4 without assumed laws
    "CKT.Sem.applyL_comm", "CKT.Sem.prim_comm", "CKT.Sem.ap_comm", "CKT.Sem.ap_barrier", "CKT.C10PTM.ptm", "CKT.C10PTM.separate_recompose_ptm",
    # T10.3: automatic labelling gives None to exactly the idle qubits (C10Auto)
    "CKT.C10.good_step", "CKT.C10.good_components", "CKT.C10.autoLabels_none_iff", "CKT.C10.conn_components", "CKT.C10.autoLabels_same_connected",
    "CKT.C10.step_count", "CKT.C10.sweep_count", "CKT.C10.components_stable", "CKT.C10.autoLabels_connected_same", "CKT.C10.separate_auto_ok",
]
RULE = ("circuits on 1-6 qubits over every gate family, several registers, barriers of every span, idle qubits, pre-placed cut gates; label "
        "sequences over arbitrary hashables incl. None for idle (and, as malformed input, non-idle) qubits, and automatic labelling; Pauli "
        "lists incl. non-identity on idle qubits; deterministic family: automatic labelling where a barrier (bridge, wide, full width, onto an "
        "otherwise untouched qubit) is the only instruction joining two groups of qubits, with registers / idle qubits / pre-placed cut gates, "
        "and no-barrier / explicit-label controls; deterministic family: one gate of every cuttable two-qubit family spanning two partitions, written "
        "with either qubit as its first operand (the cut terms, placed where the halves sit, must add up to the gate as written: exact two-qubit "
        "superoperator sum in the oracle); non-trivial = at least two partitions or a barrier; distinct by payload")
ASSUMPTIONS = ["QuantumCircuit.decompose (DAG round trip) may re-linearise instructions on disjoint wires: partition_problem subcircuits are compared per wire",
               "rustworkx.connected_components is modelled by label propagation", "uuid barrier tags are renamed by first occurrence",
               "T10.4 (`separate_recompose`) is proved for every semantics in which instructions on disjoint qubits commute and barriers do nothing "
               "(`C10Sem.CommSem`); that Qiskit's semantics obeys these two laws is standard and not proved in Lean (simulated in the failing-input search)"]


def _same_name_cuts(rng):
    """two (or three) gates of one name but different parameters / matrices, all spanning partitions, in one call"""
    fam = rng.choice([("rzz", [[0.3], [1.2], [-2.0]]), ("cry", [[0.5], [2.1], [7.0]]), ("crx", [[0.4], [-1.1], [3.0]]),
                      ("unitary", [[11, 2], [12, 2], [13, 2]]), ("rxx", [[0.25], [1.75], [3.5]])])
    nq = rng.randint(2, 4)
    labels = [q % 2 for q in range(nq)]
    instrs = [gen.rand_1q(rng, q) for q in range(nq)]
    for params in fam[1][: rng.randint(2, 3)]:
        a = rng.randrange(nq - 1)
        qs = [a, a + 1] if rng.random() < 0.5 else [a + 1, a]
        instrs.append({"name": fam[0], "qubits": qs, "params": list(params)})
        instrs.append(gen.rand_1q(rng, rng.randrange(nq)))
    return {"nq": nq, "qregs": [nq], "instrs": instrs, "labels": labels, "pool_idx": rng.sample(range(len(gen.LABEL_POOL)), 2),
            "obs": gen.rand_paulis(rng, nq, 2), "bases": [], "cregs": [], "prewarm": False}


def _numbered_label_cases():
    """pre-placed cut gates whose own labels already end in `_<digits>` (a user numbering cuts 1-based, `layer_7`, `a_1` before `a_0`), next
    to ordinary cut gates: every cut is numbered by its position among the cuts all the same, and `bases[d]` belongs to the halves tagged `_d`"""
    rzz = {"kind": "gate", "gate": "rzz", "params": [0.4]}
    cx = {"kind": "gate", "gate": "cx", "params": []}
    swap = {"kind": "gate", "gate": "swap", "params": []}
    def pre(qs, b, lab):
        return {"name": "qpd_2q", "qubits": qs, "basis": b, "label": lab}
    progs = [
        (4, [0, 0, 1, 1], [rzz, cx], [{"name": "h", "qubits": [0]}, pre([1, 2], 0, "cut_1"), {"name": "cx", "qubits": [0, 1]}, pre([0, 3], 1, "cut_2")]),
        (4, [0, 1, 0, 1], [cx, rzz, swap], [pre([0, 1], 0, "a_1"), {"name": "ry", "qubits": [2], "params": [0.3]}, pre([2, 3], 1, "a_0"),
                                            {"name": "cz", "qubits": [1, 3]}, pre([0, 3], 2, "layer_7")]),
        (3, [0, 0, 1], [rzz], [{"name": "cx", "qubits": [0, 1]}, {"name": "rzz", "qubits": [1, 2], "params": [1.1]}, pre([0, 2], 0, "zz_0"),
                               {"name": "h", "qubits": [2]}]),
        (3, [0, 1, 1], [swap, cx], [pre([0, 1], 0, "cut_10"), {"name": "cx", "qubits": [1, 2]}, pre([0, 2], 1, "x_3_1"), {"name": "crx", "qubits": [0, 1], "params": [0.6]}]),
    ]
    for nq, labels, bases, instrs in progs:
        for kind in ("partition_problem", "partition_circuit_qubits"):
            for auto in (False, True):
                if auto and kind != "partition_problem":
                    continue
                obs = [{"l": "ZXYZ"[:nq], "p": 0}, {"l": "XZZY"[:nq], "p": 0}]
                yield (kind, {"nq": nq, "qregs": [nq], "instrs": instrs, "labels": None if auto else labels, "pool_idx": [0, 1],
                              "obs": obs if kind == "partition_problem" else None, "bases": bases, "cregs": [], "prewarm": False,
                              "always_oracle": True})


def _bridge_barrier_cases():
    """AUTOMATIC labelling on circuits in which a barrier is the ONLY instruction joining two otherwise disconnected groups of qubits (a
    two-qubit bridge, a wider barrier, a full-width one, a barrier onto a qubit nothing else touches), next to the same circuits without
    the barrier / with explicit labels; one register and several, idle qubits, pre-placed cut gates.  A barrier is an instruction: the
    qubits it spans are connected, so they form ONE partition, and the sub-observables belong to exactly the returned subcircuits."""
    def g(name, *qs, params=None):
        d = {"name": name, "qubits": list(qs)}
        if params:
            d["params"] = list(params)
        return d
    def bar(*qs, label=None):
        d = {"name": "barrier", "qubits": list(qs)}
        if label:
            d["label"] = label
        return d
    def blocks(nq, pairs):
        out = []
        for a, b in pairs:
            out += [g("ry", a, params=[0.4 + 0.1 * a]), g("cx", a, b)]
        return out
    def tail(qs):
        return [g("rx", q, params=[0.3 + 0.25 * q]) for q in qs]
    cx = {"kind": "gate", "gate": "cx", "params": []}
    rzz = {"kind": "gate", "gate": "rzz", "params": [0.4]}
    progs = []
    two = blocks(4, [(0, 1), (2, 3)])
    for b in ([bar(1, 2)], [bar(0, 1, 2, 3)], [bar(3, 0)], [bar(0, 1, 2)], [bar(2, 1, label="sync")], []):
        progs.append((4, [4], two + b + tail([1, 3]), [], ["ZZZZ", "XIYI", "IZXY"]))
    progs.append((4, [2, 2], [bar(1, 2)] + two + tail([0, 2]), [], ["ZXYZ", "IIZZ"]))
    progs.append((4, [1, 3], two + tail([1, 3]) + [bar(0, 3)], [], ["YZXI", "ZZII"]))
    three = blocks(6, [(0, 1), (2, 3), (4, 5)])
    for b in ([bar(1, 2)], [bar(1, 4)], [bar(1, 2), bar(3, 4)], [bar(0, 1, 2, 3, 4, 5)], [bar(5, 0), bar(2, 3)], [bar(1, 2, 4)]):
        progs.append((6, [2, 4], three + b + tail([0, 3, 5]), [], ["ZZZZZZ", "XIYIZI", "IZXYIX"]))
    # interleaved groups, one-qubit-gate-only wires, a qubit touched by nothing but the barrier, idle qubits
    progs.append((4, [4], blocks(4, [(0, 2), (1, 3)]) + [bar(0, 1)] + tail([2, 3]), [], ["ZXZX", "YIIZ"]))
    progs.append((3, [1, 2], [g("h", 0), g("h", 1), g("sx", 2), bar(0, 1), g("t", 1)], [], ["XYZ", "ZIZ"]))
    progs.append((4, [4], [g("h", 0), g("cx", 0, 1), bar(1, 2), g("s", 1)], [], ["ZZXI", "XYII"]))
    progs.append((5, [2, 3], blocks(5, [(0, 1), (3, 4)]) + [bar(1, 3)] + tail([0, 4]), [], ["ZZIXY", "XIIZI"]))
    progs.append((5, [5], blocks(5, [(0, 1), (3, 4)]) + [bar(0, 1, 3, 4)], [], ["ZYIXZ"]))
    # pre-placed cut gates (ignored by the automatic labelling) next to a bridging barrier
    pre = lambda qs, b: {"name": "qpd_2q", "qubits": qs, "basis": b, "label": None}
    progs.append((5, [2, 3], [g("h", 0), g("cx", 0, 1), g("h", 2), g("cx", 2, 3), pre([1, 2], 0), bar(0, 3)], [cx], ["ZZZZI", "XYXYI"]))
    progs.append((4, [4], two + [pre([1, 2], 0), bar(1, 2)] + tail([0, 3]), [rzz], ["ZZZZ", "IXYI"]))
    progs.append((6, [3, 3], three + [pre([1, 2], 0), bar(3, 4), pre([5, 0], 1)] + tail([2, 4]), [cx, rzz], ["ZXYZXY", "IZIZIZ"]))
    progs.append((4, [4], two + [pre([1, 2], 0)] + tail([0, 3]), [cx], ["ZZZZ", "IXYI"]))      # control: no barrier
    for nq, qregs, instrs, bases, obs in progs:
        o = [{"l": l, "p": 0} for l in obs]
        base = {"nq": nq, "qregs": qregs, "instrs": instrs, "pool_idx": [0, 1], "bases": bases, "cregs": [], "prewarm": False,
                "always_oracle": True}
        yield ("partition_problem", dict(base, labels=None, obs=o))
        if not bases:
            yield ("separate", dict(base, labels=None, obs=None))
    # controls with explicit labels: the barrier is split (AABB) or lies inside one partition (AAAA)
    for labels in ([0, 0, 1, 1], [0, 0, 0, 0]):
        yield ("partition_problem", {"nq": 4, "qregs": [4], "instrs": two + [bar(1, 2)] + tail([1, 3]), "labels": labels, "pool_idx": [0, 1],
                                     "obs": [{"l": "ZZZZ", "p": 0}, {"l": "XIYI", "p": 0}], "bases": [], "cregs": [], "prewarm": False,
                                     "always_oracle": True})


def _operand_order_cases():
    """Deterministic family (seed independent): ONE gate of every cuttable two-qubit family spans two partitions, written once with the
    lower-index qubit as its first operand and once with the higher-index one (controlled and other non-symmetric gates -- cx, cy, ch, cs, csx,
    crx, cry, crz, ecr, rzx, dcx -- as well as the exchange-symmetric ones), inside 2-4 qubit circuits, under labels in ascending and descending
    order and under automatic labelling.  The placeholder halves must sit on the wires of the gate's operands such that the cut terms add up
    to the gate that was written (operand order kept)."""
    names = ([(g, []) for g in gen.FIXED_2Q] + [(g, [a]) for g, a in zip(gen.PARAM_2Q, [0.81, -0.37, 0.6, 1.3, 0.45, 0.9, -1.1, 0.53])]
             + [("xx_plus_yy", [0.7, 0.3]), ("xx_minus_yy", [-0.4, 0.9]), ("unitary", [4711, 2])])
    t = 0
    for name, params in names:
        for flip in (False, True):
            t += 1
            nq = 2 + t % 3
            a, b = [(0, 1), (0, nq - 1), (nq - 2, nq - 1)][t % 3]
            labels = [0 if q <= a else 1 for q in range(nq)]
            if t % 4 >= 2:
                labels = [1 - l for l in labels]     # the partition of the higher qubits comes first in label order
            qs = [b, a] if flip else [a, b]
            gate = {"name": name, "qubits": qs}
            if params:
                gate["params"] = list(params)
            instrs = [{"name": "ry", "qubits": [q], "params": [0.3 + 0.2 * q]} for q in range(nq)]
            # the partitions are connected inside (so that automatic labelling finds the same two)
            instrs += [{"name": "cx", "qubits": [q, q + 1]} for q in range(nq - 1) if labels[q] == labels[q + 1]]
            instrs += [gate, {"name": "h", "qubits": [qs[0]]}, {"name": "sx", "qubits": [qs[1]]}]
            obs = [{"l": "ZXYZ"[:nq], "p": 0}, {"l": "XZIY"[:nq], "p": 0}]
            auto = t % 5 == 0
            kind = "partition_circuit_qubits" if t % 7 == 3 else "partition_problem"
            yield (kind, {"nq": nq, "qregs": [nq], "instrs": instrs, "labels": None if auto and kind == "partition_problem" else labels,
                          "pool_idx": [2, 5] if t % 2 else [0, 1], "obs": obs if kind == "partition_problem" else None, "bases": [],
                          "cregs": [], "prewarm": False, "always_oracle": True})


def _spanning_barrier_cases():
    """Deterministic family (seed independent): barriers of every span that cross the partition boundaries such that partitions receive ONE,
    two or all of the barrier's qubits (1+1, 1+2+1, 2+2, 1+3, a piece per partition, a barrier inside one partition, two barriers in a
    row), with gates BEFORE and AFTER the barrier on every wire, under explicit labels in several orders and under automatic labelling,
    through `separate_circuit` and through `partition_problem` (with and without a cut gate).  The oracle recomposes the subcircuits
    through the qubit map and separates the recomposed circuit once more (all used qubits in one partition): the order of operations on
    every wire must be the original one."""
    def g(name, *qs, params=None):
        d = {"name": name, "qubits": list(qs)}
        if params:
            d["params"] = list(params)
        return d
    def bar(*qs, label=None):
        d = {"name": "barrier", "qubits": list(qs)}
        if label:
            d["label"] = label
        return d
    def pre_(nq):
        return [g("ry", q, params=[0.3 + 0.2 * q]) for q in range(nq)]
    def post(nq):
        return [g(["x", "t", "sx", "z", "h", "s"][q], q) for q in range(nq)]
    progs = [
        # (nq, qregs, labels, barriers in the middle, extra in-partition two-qubit gates before the barrier)
        (2, [2], [0, 1], [bar(0, 1)], []),
        (2, [1, 1], [1, 0], [bar(1, 0)], []),
        (3, [3], [0, 1, 0], [bar(0, 1, 2)], [g("cx", 0, 2)]),
        (3, [3], [0, 1, 2], [bar(2, 0, 1)], []),
        (4, [4], [0, 1, 1, 2], [bar(0, 1, 2, 3)], [g("cx", 1, 2)]),
        (4, [2, 2], [0, 0, 1, 1], [bar(0, 1, 2, 3)], [g("cx", 0, 1), g("cz", 2, 3)]),
        (4, [4], [0, 1, 1, 1], [bar(0, 1), bar(0, 3, label="sync")], [g("cx", 1, 2), g("cx", 2, 3)]),
        (4, [4], [1, 0, 1, 0], [bar(3, 2, 1)], [g("cx", 0, 2), g("cx", 1, 3)]),
        (5, [2, 3], [0, 0, 1, 2, 2], [bar(1, 2, 3), bar(0, 4)], [g("cx", 0, 1), g("cx", 3, 4)]),
        (6, [6], [0, 1, 2, 0, 1, 2], [bar(0, 1, 2, 3, 4, 5)], [g("cx", 0, 3), g("cx", 1, 4), g("cx", 2, 5)]),
        (3, [3], [0, 0, 1], [bar(0, 1), bar(2)], [g("cx", 0, 1)]),                      # control: barriers inside one partition
    ]
    for k, (nq, qregs, labels, bars, extra) in enumerate(progs):
        instrs = pre_(nq) + extra + bars + post(nq)
        base = {"nq": nq, "qregs": qregs, "instrs": instrs, "pool_idx": [[0, 1, 2], [3, 5, 4], [2, 1, 0]][k % 3], "bases": [], "cregs": [],
                "prewarm": False, "always_oracle": True}
        yield ("separate", dict(base, labels=labels, obs=None))
        obs = [{"l": "ZXYZXY"[:nq], "p": 0}, {"l": "XZIYZI"[:nq], "p": 0}]
        yield ("partition_problem", dict(base, labels=labels, obs=obs))
        # one gate to cut between the first two partitions, before the barrier
        a = labels.index(labels[0])
        b = next(q for q in range(nq) if labels[q] != labels[0])
        cut = g("rzz", a, b, params=[0.7]) if k % 2 else g("cx", b, a)
        yield ("partition_problem", dict(base, instrs=pre_(nq) + extra + [cut] + bars + post(nq), labels=labels, obs=obs))
        if k % 3 == 0:
            # automatic labelling of the same circuit (the cut gate is then an ordinary connecting gate)
            yield ("separate", dict(base, labels=None, obs=None))
            yield ("partition_problem", dict(base, labels=None, obs=obs))


# the per-instruction decision of partition_circuit_qubits in the model is the translated source (harness/translate/partition.py)
THEOREMS = list(THEOREMS) + ['CKT.C10Gen.decision_logic', 'CKT.C10Gen.skip_iff', 'CKT.C10Gen.go_translated']


def regenerate():
    """the per-instruction decision of partition_circuit_qubits, translated on every run"""
    from ..translate import partition
    from ..core import REPO, LEAN
    partition.regenerate(REPO, LEAN)


def cases(rng, tier):
    yield from _spanning_barrier_cases()
    yield from _operand_order_cases()
    yield from _bridge_barrier_cases()
    yield from _numbered_label_cases()
    N = 150 if tier == "quick" else 2500
    for k in range(4 if tier == "quick" else 40):
        p = _same_name_cuts(rng)
        if k % 2:
            yield ("partition_circuit_qubits", dict(p, obs=None))
        else:
            yield ("partition_problem", p)
    for _ in range(N):
        nq = rng.randint(1, 6)
        nidle = rng.choice([0, 0, 0, 1, 2]) if nq > 1 else 0
        idle = sorted(rng.sample(range(nq), nidle))
        instrs = gen.rand_instrs(rng, nq, rng.randint(0, 10), idle=idle)
        for ins in instrs:
            # user barriers may carry a label (it is dropped when the pieces of a split barrier are re-joined)
            if ins["name"] == "barrier" and rng.random() < 0.35:
                ins["label"] = rng.choice(["layer", "b1", "sync"])
        kind = rng.choice(["separate", "separate", "partition_problem", "partition_problem", "partition_circuit_qubits"])
        big3 = False
        live_q = [q for q in range(nq) if q not in idle]
        if len(live_q) >= 3 and rng.random() < 0.2:
            # an instruction on three qubits (in any argument order): all of them belong to one connected component
            instrs.insert(rng.randint(0, len(instrs)), {"name": rng.choice(["ccx", "cswap", "ccz"]), "qubits": rng.sample(live_q, 3)})
            big3 = True
        npart = rng.randint(1, min(4, nq))
        pool_idx = rng.sample(range(len(gen.LABEL_POOL)), npart)
        mode = rng.random()
        labels = [rng.randrange(npart) for _ in range(nq)]
        bases = []
        if kind != "separate":
            # pre-placed cut gates
            for _ in range(rng.choice([0, 0, 1, 2])):
                live = [q for q in range(nq) if q not in idle]
                if len(live) >= 2:
                    g = rng.choice([("cx", []), ("rzz", [0.4]), ("swap", []), ("move", [])])
                    bases.append({"kind": "gate", "gate": g[0], "params": g[1]})
                    qs2 = rng.sample(live, 2)
                    if idle and rng.random() < 0.5:
                        # the far end of the cut gate is a qubit that carries nothing else (in use all the same: no longer idle)
                        far = rng.choice(idle)
                        idle.remove(far)
                        qs2[rng.randrange(2)] = far
                    instrs.insert(rng.randint(0, len(instrs)), {"name": "qpd_2q", "qubits": qs2,
                                                               "basis": len(bases) - 1, "label": rng.choice([None, "pre"])})
        pre = [ins for ins in instrs if ins["name"] == "qpd_2q"]
        if len(pre) >= 2 and rng.random() < 0.5:
            # one pre-placed cut gate object appended at several places (circuit.append of the same instruction instance)
            for ins in pre:
                ins["basis"], ins["label"], ins["obj"] = pre[0]["basis"], pre[0]["label"], 0
        if big3 and mode < 0.6:
            mode = 0.1 if kind == "separate" else 0.2   # mostly automatic labels for the three-qubit family
        if kind == "separate":
            # labels must be consistent with the circuit, otherwise expect ValueError
            if mode < 0.25:
                labels = None
            elif mode < 0.8:
                labels = _consistent_labels(rng, nq, instrs, idle, npart)
            # else random (probably spanning) labels
        else:
            if mode < 0.3 and kind == "partition_problem":
                labels = None
            for q in idle:
                if labels is not None and rng.random() < 0.7:
                    labels[q] = None
        if labels is not None and rng.random() < 0.04:
            labels = labels[:-1] if rng.random() < 0.5 else labels + [0]
        if labels is not None and rng.random() < 0.04 and nq > 1:
            labels[rng.randrange(len(labels))] = None  # possibly a non-idle qubit
        obs = None
        if kind == "partition_problem" and rng.random() < 0.8:
            obs = gen.rand_paulis(rng, nq, rng.randint(0, 4))
            if rng.random() < 0.6:
                for o in obs:
                    o["l"] = "".join("I" if q in idle else c for q, c in enumerate(o["l"]))
            if rng.random() < 0.05 and obs:
                obs[0]["p"] = rng.randrange(1, 4)
            if rng.random() < 0.05 and obs:
                for o in obs:
                    o["l"] = o["l"] + "Z"
        if rng.random() < 0.04:
            instrs.insert(rng.randint(0, len(instrs)), {"name": "ccx", "qubits": rng.sample(range(nq), 3)}) if nq >= 3 else None
        cregs = [["c", 1]] if (kind != "separate" and rng.random() < 0.04) else ([["c", 2]] if kind == "separate" and rng.random() < 0.2 else [])
        yield (kind, {"nq": nq, "qregs": gen.rand_regs(rng, nq), "instrs": instrs, "labels": labels, "pool_idx": pool_idx,
                      "obs": obs, "bases": bases, "cregs": cregs, "prewarm": bool(bases) and rng.random() < 0.3})


def _consistent_labels(rng, nq, instrs, idle, npart):
    # union-find over instructions, then assign random labels per component
    parent = list(range(nq))
    def find(x):
        while parent[x] != x:
            x = parent[x]
        return x
    for i in instrs:
        qs = i["qubits"]
        for q in qs[1:]:
            a, b = find(qs[0]), find(q)
            if a != b:
                parent[a] = b
    lab = {}
    out = []
    for q in range(nq):
        r = find(q)
        if r not in lab:
            lab[r] = rng.randrange(npart)
        out.append(lab[r])
    for q in idle:
        if rng.random() < 0.5:
            out[q] = None
    return out


def _objs(payload):
    bases = [canon.build_basis(b) for b in payload["bases"]]
    qc = canon.build_circuit({"nq": payload["nq"], "qregs": payload["qregs"], "cregs": payload["cregs"], "instrs": payload["instrs"]}, bases)
    if payload.get("prewarm"):
        # history: the definition of every pre-placed placeholder was read earlier (drawing, decompose(), transpiling ...)
        for inst in qc.data:
            if inst.operation.name == "qpd_2q":
                _ = inst.operation.definition
    labels = None if payload["labels"] is None else gen.labels_from_idx(payload["labels"], payload["pool_idx"])
    obs = None
    if payload["obs"] is not None:
        from qiskit.quantum_info import PauliList
        n = len(payload["obs"][0]["l"]) if payload["obs"] else payload["nq"]
        if payload["obs"]:
            obs = PauliList([["", "-i", "-", "i"][o["p"]] + o["l"][::-1] for o in payload["obs"]])
        else:
            obs = PauliList.from_symplectic(np.zeros((0, n), bool), np.zeros((0, n), bool))
    return qc, bases, labels, obs


def _label_idx(payload, lab):
    if payload["labels"] is None:
        return lab  # automatic labels are the integers themselves
    pool = [gen.LABEL_POOL[i] for i in payload["pool_idx"]]
    for k, p in enumerate(pool):
        if p == lab and type(p) == type(lab):
            return k
    for k, p in enumerate(pool):
        if p == lab:
            return k
    raise KeyError(lab)


def _unsupported(payload):
    return ["ccx"]


def model_line(kind, payload):
    qc, bases, labels, obs = _objs(payload)
    t = canon.BasisTable()
    for b in bases:
        t.index(b)
    line = {"op": "c10." + kind, "circuit": canon.canon_circuit(qc, t), "labels": payload["labels"],
            "nbases": len(bases), "unsupported": _unsupported(payload)}
    if kind == "partition_problem":
        line["obs"] = payload["obs"]
    return line


def _wires(c):
    w = {}
    for ins in c["instrs"]:
        s = [ins["name"], ins["qubits"], ins["params"], ins["label"], ins["basis"], ins["half"], ins["basis_id"]]
        for q in ins["qubits"]:
            w.setdefault(str(q), []).append(s)
    return {"nq": c["nq"], "cregs": [list(r) for r in c["cregs"]], "count": len(c["instrs"]), "wires": w}


def _paulis(pl):
    out = []
    for p in pl:
        lab = p.to_label()
        n = p.num_qubits
        out.append({"l": lab[len(lab) - n:][::-1] if n else "", "p": int(p.phase)})
    return out


def run_real(kind, payload):
    from qiskit_addon_cutting.utils.transforms import separate_circuit
    from qiskit_addon_cutting import partition_circuit_qubits, partition_problem
    qc, bases, labels, obs = _objs(payload)
    t = canon.BasisTable()
    for b in bases:
        t.index(b)
    if kind == "separate":
        out = separate_circuit(qc, labels)
        subs = [[_label_idx(payload, l), canon.canon_circuit(c, t)] for l, c in out.subcircuits.items()]
        qm = [None if l is None and k is None else [_label_idx(payload, l), k] for l, k in out.qubit_map]
        return {"ok": {"subcircuits": subs, "qubit_map": qm}}
    if kind == "partition_circuit_qubits":
        out = partition_circuit_qubits(qc, labels)
        return {"ok": canon.canon_circuit(out, t)}
    out = partition_problem(qc, labels, obs)
    bl = [t.index(b) for b in out.bases]
    subs = [[_label_idx(payload, l), _wires(canon.canon_circuit(c, t))] for l, c in out.subcircuits.items()]
    so = None
    if out.subobservables is not None:
        so = [[_label_idx(payload, l), _paulis(v)] for l, v in out.subobservables.items()]
    return {"ok": {"subcircuits": subs, "bases": bl, "subobs": so}}


def model_canon(kind, payload, out):
    if "driver_error" in out:
        raise RuntimeError(out["driver_error"])
    if "error" in out:
        return {"error": out["error"]}
    if kind == "partition_problem":
        o = out["ok"]
        return {"ok": {"subcircuits": [[l, _wires(c)] for l, c in o["subcircuits"]], "bases": o["bases"], "subobs": o["subobs"]}}
    return out


def compare(kind, payload, real, model):
    if real != model:
        return f"real={json.dumps(real)[:500]} model={json.dumps(model)[:500]}"
    return None


def describe(kind, payload):
    return {"nq": payload["nq"], "auto": payload["labels"] is None,
            "barriers": sum(1 for i in payload["instrs"] if i["name"] == "barrier"),
            "idle_None": 0 if payload["labels"] is None else sum(1 for l in payload["labels"] if l is None),
            "preplaced": len(payload["bases"]), "obs": payload["obs"] is not None}


def nontrivial_key(kind, payload):
    labs = payload["labels"]
    if (labs is not None and len(set(l for l in labs if l is not None)) < 2) and not any(i["name"] == "barrier" for i in payload["instrs"]):
        return None
    return hash(json.dumps([kind, payload], sort_keys=True, default=str))


_MEANING = {}


def _term_sum(basis, where):
    """sum_k coeff_k * (operations of half 0 on local qubit where[0]) (x) (operations of half 1 on local qubit where[1]) as an exact
    superoperator on two qubits; a QPDMeasure contributes rho -> P0 rho P0 - P1 rho P1 (the sign the reconstruction applies)"""
    from qiskit.quantum_info import SuperOp
    meas = SuperOp(np.kron(np.diag([1.0, 0.0]), np.diag([1.0, 0.0])) - np.kron(np.diag([0.0, 1.0]), np.diag([0.0, 1.0])))
    total = np.zeros((16, 16), dtype=complex)
    for coeff, term in zip(basis.coeffs, basis.maps):
        s_ = SuperOp(np.eye(16))
        for half, ops in enumerate(term):
            for op in ops:
                s_ = s_.compose(meas if op.name == "qpd_measure" else SuperOp(op), qargs=[where[half]])
        total = total + coeff * s_.data
    return total


def _cut_meaning(qc_, pp, spanning, groups):
    """for every cut: do the terms of bases[d], placed where the two halves of cut d sit, add up to the channel of the d-th spanning gate
    acting on ITS operands in THEIR order?  (exact simulation on the two qubits of the gate; independent of the Lean model)"""
    from qiskit.quantum_info import SuperOp, Operator
    from qiskit_addon_cutting.qpd import SingleQubitQPDGate
    where = {}
    for key, sub in pp.subcircuits.items():
        for inst in sub.data:
            if isinstance(inst.operation, SingleQubitQPDGate):
                suf = (inst.operation.label or "").rsplit("_", 1)
                if len(suf) != 2 or not suf[1].isdigit():
                    return None   # reported by the label clause
                where.setdefault(int(suf[1]), {})[inst.operation.qubit_id] = groups[key][sub.find_bit(inst.qubits[0]).index]
    for d, inst in enumerate(spanning):
        q = [qc_.find_bit(x).index for x in inst.qubits]
        w = where.get(d, {})
        if sorted(w) != [0, 1]:
            return None       # reported by the pairing clause
        op = inst.operation
        what = f"cut {d} replaces {op.name}{[float(x) if isinstance(x, (int, float)) else '..' for x in op.params][:2]} written on qubits {q} (first operand first)"
        if sorted(w.values()) != sorted(q):
            return f"{what}: its placeholder halves sit on qubits {[w[0], w[1]]}, not on the gate's qubits"
        local = [q.index(w[0]), q.index(w[1])]
        try:
            if op.name == "qpd_2q":
                key_ = None
                want = _term_sum(op.basis, [0, 1])
            else:
                want = SuperOp(Operator(op)).data
                key_ = (np.round(want, 9).tobytes(), json.dumps(canon.canon_basis(pp.bases[d]), sort_keys=True, default=str), tuple(local))
            if key_ is not None and key_ in _MEANING:
                err = _MEANING[key_]
            else:
                err = float(np.max(np.abs(_term_sum(pp.bases[d], local) - want)))
                if key_ is not None and len(_MEANING) < 4096:
                    _MEANING[key_] = err
        except Exception:
            continue          # an operation without an exact superoperator: no claim
        if err > 1e-6:
            return (f"{what}: half 0 of the placeholder sits on qubit {w[0]}, half 1 on qubit {w[1]}; with the halves there the terms of "
                    f"bases[{d}] add up to a channel that differs from the gate's by {err:.3f} (largest matrix entry) -- the partitioned problem "
                    f"no longer means the original circuit (operands exchanged?)")
    return None


def _round_trip(qc, groups, subcircuits):
    """Recompose `subcircuits` (key -> circuit) through `groups` (key -> original qubit indices, in subcircuit order) into one circuit on the
    original qubits and separate THAT circuit once more with all used qubits in a single partition.  Separation preserves the order of the
    instructions of every subcircuit, so on every wire the names of the operations must come out in the original order (an instruction that
    was cut counts as "cut" on both of its wires; barrier widths are not compared: a split barrier legitimately comes back in pieces)."""
    from qiskit.circuit import QuantumCircuit
    from qiskit_addon_cutting.utils.transforms import separate_circuit
    nq = qc.num_qubits
    if any(len(groups.get(k, ())) != sub.num_qubits for k, sub in subcircuits.items()):
        return None       # reported by the width clauses
    if any(sub.num_clbits != qc.num_clbits for sub in subcircuits.values()):
        return None
    back = QuantumCircuit(nq)
    for reg in qc.cregs:
        back.add_register(reg)
    for k, sub in subcircuits.items():
        for inst in sub.data:
            back.append(inst.operation, [back.qubits[groups[k][sub.find_bit(q).index]] for q in inst.qubits],
                        [back.clbits[sub.find_bit(c).index] for c in inst.clbits])
    mapped = sorted(q for qs in groups.values() for q in qs)
    if not mapped:
        return None
    owner = {q: k for k, qs in groups.items() for q in qs}

    def tok(circ, inst, spans=False):
        n = inst.operation.name
        return "cut" if n in ("qpd_1q", "qpd_2q") or spans else n

    def wires(circ, local=None, mark=False):
        w = {}
        for inst in circ.data:
            idx = [circ.find_bit(q).index for q in inst.qubits]
            idx = idx if local is None else [local[i] for i in idx]
            spans = mark and inst.operation.name != "barrier" and len({owner.get(i) for i in idx}) > 1
            for i in idx:
                w.setdefault(i, []).append(tok(circ, inst, spans))
        return w
    try:
        again = separate_circuit(back, ["all" if q in owner else None for q in range(nq)]).subcircuits
    except Exception as e:  # noqa: BLE001
        return f"the circuit recomposed from the subcircuits through the qubit map cannot be separated again: {type(e).__name__}: {str(e)[:120]}"
    if list(again) != ["all"] or again["all"].num_qubits != len(mapped):
        return None
    want, got = wires(qc, mark=True), wires(again["all"], local=mapped)
    for q in mapped:
        if want.get(q, []) != got.get(q, []):
            tags = sorted({(inst.operation.label or "")[:12] for sub in subcircuits.values() for inst in sub.data
                           if inst.operation.name == "barrier" and (inst.operation.label or "").startswith("_uuid=")})
            return (f"recomposing the subcircuits through the qubit map and separating the result again (one partition) changes the order of "
                    f"operations on qubit {q}: {got.get(q, [])} instead of {want.get(q, [])}"
                    + (f" -- barrier pieces in the subcircuits still carry the internal tag {tags[0]}.. of the split (not re-joined into a "
                       f"plain barrier), so pieces of different partitions are fused at the place of the first one" if tags else ""))
    return None


def _oracle_partition_problem(payload, real, used):
    """is a refusal legitimate, and does an accepted request keep every used qubit and recombine its observables?"""
    nq, instrs, labs, obs = payload["nq"], payload["instrs"], payload["labels"], payload["obs"]
    nonbar = [i for i in instrs if i["name"] != "barrier"]
    if labs is None:
        # automatic labels: connectivity of the non-placeholder instructions; exactly the untouched qubits are dropped
        parent = list(range(nq))

        def find(x):
            while parent[x] != x:
                x = parent[x]
            return x
        for i in instrs:
            if i["name"] == "qpd_2q":
                continue
            for q in i["qubits"][1:]:
                a, b = find(i["qubits"][0]), find(q)
                if a != b:
                    parent[a] = b
        eff = [find(q) if q in used else None for q in range(nq)]
    else:
        eff = list(labs)
    legit = False
    if labs is not None and any(eff[q] is None for i in instrs if i["name"] == "barrier" for q in i["qubits"]):
        # a barrier is an operation too: the package documents that a qubit labelled `None` "cannot be used in the circuit" and refuses
        # with ValueError (false alarm of the thorough tier at seed 0, corrected: the clause used to look at non-barrier instructions only)
        legit = True
    for i in nonbar:
        ls = {eff[q] for q in i["qubits"]}
        if None in ls:
            legit = True  # an instruction on a None-labelled qubit
        if len(ls) > 1 and (len(i["qubits"]) > 2 or i["name"] in _unsupported(payload)):
            legit = True  # a spanning gate that cannot be cut
    if obs:
        if any(o["l"][q] != "I" for o in obs for q in range(nq) if eff[q] is None):
            legit = True  # an observable acts on a discarded qubit: refusing is the only correct answer
            if "error" not in real:
                return "an observable acts on a qubit that partitioning discards, yet a result was returned (the value would change silently)"
    if "error" in real:
        if real["error"] != "ValueError":
            return f"raised {real['error']}"
        return None if legit else "a valid partitioning request was refused"
    res = real["ok"]
    # the basis recorded for cut d must decompose the d-th gate that spans partitions (not another gate of the same name)
    try:
        from qiskit_addon_cutting import partition_problem
        from qiskit_addon_cutting.qpd import QPDBasis
        qc_, bases_, labels_, obs_ = _objs(payload)
        pp = partition_problem(qc_, labels_, obs_)
        spanning = [i for i in qc_.data if i.operation.name != "barrier" and len(i.qubits) == 2
                    and len({eff[qc_.find_bit(q).index] for q in i.qubits}) > 1]
        if len(spanning) == len(pp.bases):
            for d, (inst, b) in enumerate(zip(spanning, pp.bases)):
                want = inst.operation.basis if inst.operation.name == "qpd_2q" else QPDBasis.from_instruction(inst.operation)
                if canon.canon_basis(want) != canon.canon_basis(b):
                    return f"bases[{d}] is not the decomposition of the {d}-th spanning gate ({inst.operation.name}{list(inst.operation.params)})"
            # ... and the halves sit where the gate's operands are, so that the cut terms add up to the gate as it was written
            if labs is None:
                roots_ = []
                for q in range(nq):
                    if eff[q] is not None and eff[q] not in roots_:
                        roots_.append(eff[q])
                groups = {k: [q for q in range(nq) if eff[q] == r] for k, r in enumerate(roots_)}
            else:
                groups = {key: [q for q in range(nq) if labels_[q] is not None and labels_[q] == key] for key in pp.subcircuits}
            if all(key in groups and len(groups[key]) == sub.num_qubits for key, sub in pp.subcircuits.items()):
                why = _cut_meaning(qc_, pp, spanning, groups)
                if why:
                    return why
                # ... and the subcircuits, put together again through the partition's qubits, are a circuit that separates like the original
                why = _round_trip(qc_, groups, pp.subcircuits)
                if why:
                    return why
    except ValueError:
        pass
    # the two halves of cut d carry the label suffix _d and the basis bases[d]
    halves = {}
    for l, c in res["subcircuits"]:
        for q, seq in c["wires"].items():
            for name, qs, params, label, basis, half, bid in seq:
                if name == "qpd_1q":
                    suf = (label or "").rsplit("_", 1)
                    if len(suf) != 2 or not suf[1].isdigit():
                        return f"a placeholder half in partition {l!r} is labelled {label!r}: the cut index suffix is missing"
                    halves.setdefault(int(suf[1]), []).append((half, basis))
    if sorted(halves) != list(range(len(res["bases"]))):
        return f"cut indices on the halves {sorted(halves)} do not match the {len(res['bases'])} recorded bases"
    for d, hs in halves.items():
        if sorted(h for h, _ in hs) != [0, 1] or any(b != res["bases"][d] for _, b in hs):
            return f"cut {d}: halves {hs} do not form one pair over bases[{d}] = {res['bases'][d]}"
    keys = [l for l, _ in res["subcircuits"]]
    if res["subobs"] is not None:
        if sorted(map(repr, [l for l, _ in res["subobs"]])) != sorted(map(repr, keys)):
            return f"sub-observable keys {[l for l, _ in res['subobs']]} differ from subcircuit keys {keys}"
    if labs is None:
        # automatic labelling: the partitions are the connected components of the non-placeholder instructions (a barrier is one of them),
        # numbered by their lowest qubit; untouched qubits belong to none.  One subcircuit per component, of that component's width, and
        # sub-observables for exactly these, of the same width, recombining to the input on the component's qubits in ascending order
        roots = []
        for q in range(nq):
            if eff[q] is not None and eff[q] not in roots:
                roots.append(eff[q])
        comps = [[q for q in range(nq) if eff[q] == r] for r in roots]
        if not legit:
            got_w = {repr(l): c["nq"] for l, c in res["subcircuits"]}
            want_w = {repr(k): len(qs) for k, qs in enumerate(comps)}
            if got_w != want_w:
                return (f"automatic labelling: subcircuits (label: width) {got_w} do not match the connected groups of qubits {comps} "
                        f"(expected {want_w}); every instruction, barriers included, connects the qubits it acts on")
            if res["subobs"] is not None and obs:
                so = {repr(l): v for l, v in res["subobs"]}
                for k, o in enumerate(obs):
                    rebuilt = ["I"] * nq
                    for j, qs in enumerate(comps):
                        sub = so[repr(j)][k]
                        if len(sub["l"]) != len(qs) or sub["p"] != 0:
                            return (f"sub-observable {k} of partition {j} is {sub['l']!r}: it acts on {len(sub['l'])} qubits, "
                                    f"its subcircuit on {len(qs)} (or it carries a phase)")
                        for x, q in enumerate(qs):
                            rebuilt[q] = sub["l"][x]
                    if "".join(rebuilt) != o["l"]:
                        return f"the sub-observables of {o['l']} recombine to {''.join(rebuilt)}"
    if labs is not None and res["subobs"] is not None and obs:
        so = {repr(l): v for l, v in res["subobs"]}
        for k, o in enumerate(obs):
            rebuilt = ["I"] * nq
            for l in set(x for x in labs if x is not None):
                qs = [q for q in range(nq) if labs[q] == l]
                sub = so[repr(l)][k]["l"]
                if len(sub) != len(qs) or so[repr(l)][k]["p"] != 0:
                    return f"restriction of observable {k} to partition {l} has the wrong width or a phase"
                for j, q in enumerate(qs):
                    rebuilt[q] = sub[j]
            if "".join(rebuilt) != o["l"]:
                return f"restrictions of {o['l']} recombine to {''.join(rebuilt)}"
    return None


def oracle(kind, payload):
    """Structural re-check of the property's clauses on the real result (independent of the Lean model)."""
    real = call_real(lambda p: run_real(kind, p), payload)
    qc, bases, labels, obs = _objs(payload)
    nq = payload["nq"]
    instrs = payload["instrs"]
    labs = payload["labels"]
    if kind == "partition_circuit_qubits":
        return None  # covered through partition_problem
    # validity of the request
    if labs is not None:
        if len(labs) != nq:
            return None if real.get("error") == "ValueError" else "label count mismatch not refused"
    if kind == "partition_problem":
        if payload["cregs"]:
            return None if real.get("error") == "ValueError" else "classical bits not refused"
        if payload["obs"] is not None and any(len(o["l"]) != nq or o["p"] != 0 for o in payload["obs"]):
            return None if real.get("error") == "ValueError" else "bad observable not refused"
    used = set(q for i in instrs for q in i["qubits"])
    if kind == "partition_problem":
        why = _oracle_partition_problem(payload, real, used)
        if why is not None or "error" in real or labs is None:
            return why
    if "error" in real:
        if real["error"] != "ValueError":
            return f"raised {real['error']}"
        # a refusal is legitimate only for: spanning instruction (separate), None on a used qubit, >2-qubit gate to cut, non-identity on idle
        if labs is None and kind == "separate":
            return "automatic separation was refused"
        return None
    res = real["ok"]
    # effective labels
    if labs is None:
        eff = [None] * nq
        for l, c in res["subcircuits"]:
            pass
        if kind == "separate":
            eff = [None if e is None else e[0] for e in res["qubit_map"]]
            for q in range(nq):
                if (eff[q] is None) != (q not in used):
                    return f"automatic labelling dropped/kept the wrong qubits: {eff} used={sorted(used)}"
        else:
            return None
    else:
        eff = labs
    if kind == "separate":
        subs = dict((l, c) for l, c in res["subcircuits"])
        want_keys = []
        for l in eff:
            if l is not None and l not in want_keys:
                want_keys.append(l)
        if list(subs) != want_keys:
            return f"subcircuit keys {list(subs)} != labels in order {want_keys}"
        for l, c in subs.items():
            qs = [q for q in range(nq) if eff[q] == l]
            if c["nq"] != len(qs):
                return f"subcircuit {l} has {c['nq']} qubits, label has {len(qs)}"
        for q in range(nq):
            e = res["qubit_map"][q]
            if eff[q] is None:
                if e is not None:
                    return "qubit map entry for a None-labelled qubit"
            else:
                qs = [x for x in range(nq) if eff[x] == eff[q]]
                if e != [eff[q], qs.index(q)]:
                    return f"qubit map {e} inconsistent for qubit {q}"
        # every non-barrier instruction in exactly one subcircuit, order preserved
        t = canon.BasisTable()
        orig = canon.canon_circuit(qc, t)["instrs"]
        for l, c in subs.items():
            qs = [q for q in range(nq) if eff[q] == l]
            exp = []
            for ins in orig:
                if ins["name"] == "barrier":
                    sh = [q for q in ins["qubits"] if eff[q] == l]
                    if sh:
                        exp.append(["barrier", [qs.index(q) for q in sh]])
                elif all(eff[q] == l for q in ins["qubits"]):
                    exp.append([ins["name"], [qs.index(q) for q in ins["qubits"]]])
            got = [[i["name"], i["qubits"]] for i in c["instrs"]]
            if got != exp:
                return f"subcircuit {l}: {got} expected {exp}"
        # re-composition through the qubit map gives a circuit that separates like the original (order on every wire kept)
        from qiskit_addon_cutting.utils.transforms import separate_circuit
        try:
            sep = separate_circuit(qc, labels)
        except ValueError:
            return None
        groups = {}
        for q, (lab, loc) in enumerate(sep.qubit_map):
            if lab is not None:
                groups.setdefault(lab, []).append((loc, q))
        groups = {lab: [q for _, q in sorted(v)] for lab, v in groups.items()}
        if all(lab in groups for lab in sep.subcircuits):
            return _round_trip(qc, groups, sep.subcircuits)
    return None
