"""Structured generators shared by several properties (all choices from the caller's PRNG)."""
from __future__ import annotations

import math

LABEL_POOL = ["A", "part7", 1007, (1, 2), "xyz", -3, 2.5, frozenset([1]), "", 0]

FIXED_2Q = ["cx", "cy", "cz", "ch", "cs", "csdg", "csx", "csxdg", "ecr", "swap", "iswap", "dcx"]
PARAM_2Q = ["rxx", "ryy", "rzz", "crx", "cry", "crz", "cp", "rzx"]
PARAM2_2Q = ["xx_plus_yy", "xx_minus_yy"]
ONE_Q = ["h", "x", "y", "z", "s", "sdg", "sx", "t", "tdg"]
ONE_Q_PARAM = ["rx", "ry", "rz", "p"]

SPECIAL_ANGLES = [0.0, math.pi, -math.pi, 2 * math.pi, -4 * math.pi, 13.5, -14.25, 1e-9, math.pi / 2, -math.pi / 2,
                  math.pi / 4, 3 * math.pi / 4, 0.5, -0.25, 1.0, 2.0, 6 * math.pi + 0.125,
                  # close to, but not at, the angles where a rotation becomes trivial (|sin| of order 1e-4 .. 1e-2)
                  0.004, math.pi - 0.003, 2 * math.pi + 0.01, -4 * math.pi - 0.008, 1e-4]


def rand_angle(rng):
    if rng.random() < 0.5:
        return rng.choice(SPECIAL_ANGLES)
    return rng.uniform(-8 * math.pi, 8 * math.pi)


def rand_2q(rng, qubits, families="all"):
    r = rng.random()
    if families == "integer":
        return {"name": rng.choice(["cx", "cz", "cy", "ch", "ecr"]), "qubits": qubits}
    if r < 0.4:
        return {"name": rng.choice(FIXED_2Q), "qubits": qubits}
    if r < 0.85:
        return {"name": rng.choice(PARAM_2Q), "qubits": qubits, "params": [rand_angle(rng)]}
    if r < 0.93:
        return {"name": rng.choice(PARAM2_2Q), "qubits": qubits, "params": [rand_angle(rng), rand_angle(rng)]}
    return {"name": "unitary", "qubits": qubits, "params": [rng.randrange(10 ** 6), 2]}


def rand_1q(rng, q):
    r = rng.random()
    if r < 0.6:
        return {"name": rng.choice(ONE_Q), "qubits": [q]}
    if r < 0.9:
        return {"name": rng.choice(ONE_Q_PARAM), "qubits": [q], "params": [rand_angle(rng)]}
    return {"name": "unitary", "qubits": [q], "params": [rng.randrange(10 ** 6), 1]}


def rand_instrs(rng, nq, depth, idle=(), barriers=True, families="all", p2=0.45):
    """Random one/two-qubit gates and barriers on the non-idle qubits."""
    live = [q for q in range(nq) if q not in idle]
    out = []
    for _ in range(depth):
        r = rng.random()
        if len(live) >= 2 and r < p2:
            out.append(rand_2q(rng, rng.sample(live, 2), families))
        elif barriers and r < p2 + 0.1 and live:
            k = rng.randint(1, len(live))
            out.append({"name": "barrier", "qubits": rng.sample(live, k)})
        elif live:
            out.append(rand_1q(rng, rng.choice(live)))
    return out


def rand_regs(rng, n):
    regs, left = [], n
    while left > 0:
        c = rng.randint(1, left)
        regs.append(c)
        left -= c
    return regs


def rand_paulis(rng, n, k, letters="IIXYZ"):
    return [{"l": "".join(rng.choice(letters) for _ in range(n)), "p": 0} for _ in range(k)]


def fresh(x):
    """an object equal to `x` but (where CPython allows it) not identical to it: labels computed per qubit at run time are equal, not the
    same object (small ints, one-character and empty strings are shared by the interpreter and stay identical)"""
    if isinstance(x, bool) or x is None:
        return x
    if isinstance(x, int):
        return int(str(x))
    if isinstance(x, float):
        return float(repr(x))
    if isinstance(x, str):
        return "".join(list(x))
    if isinstance(x, tuple):
        return tuple(list(x))
    if isinstance(x, frozenset):
        return frozenset(list(x))
    return x


def labels_from_idx(idx, pool_idx):
    pool = [LABEL_POOL[i] for i in pool_idx]
    return [None if i is None else fresh(pool[i]) for i in idx]
