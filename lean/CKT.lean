import CKT.Model.Basic
import CKT.Model.Reconstruct
