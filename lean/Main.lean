import Driver.C06
import Driver.C17
import Driver.C14
import Driver.C12
import Driver.C10
import Driver.C03
import Driver.C11
import Driver.C04
import Driver.C05
import Driver.C02
import Driver.C15
import Driver.C07
import Driver.C13
import Driver.C18
import Driver.C16
import Driver.C19
open Lean CKT CKT.Driver

def dispatch (j : Json) : Except String Json := do
  let op ← (← field j "op").getStr?
  if op.startsWith "c06." then c06 op j
  else if op.startsWith "c17." then c17 op j
  else if op.startsWith "c14." then c14 op j
  else if op.startsWith "c12." then c12 op j
  else if op.startsWith "c10." then c10 op j
  else if op.startsWith "c03." then c03 op j
  else if op.startsWith "c11." then c11 op j
  else if op.startsWith "c04." then c04 op j
  else if op.startsWith "c05." then c05 op j
  else if op.startsWith "c02." then c02 op j
  else if op.startsWith "c15." then c15 op j
  else if op.startsWith "c07." then c07 op j
  else if op.startsWith "c13." then c13 op j
  else if op.startsWith "c18." then c18 op j
  else if op.startsWith "c16." then c16 op j
  else if op.startsWith "c19." then c19 op j
  else throw s!"unknown op {op}"

def handle (line : String) : String :=
  match Json.parse line with
  | .error e => (Json.mkObj [("driver_error", Json.str e)]).compress
  | .ok j => match dispatch j with
    | .ok r => r.compress
    | .error e => (Json.mkObj [("driver_error", Json.str e)]).compress

partial def loop (h : IO.FS.Stream) (out : IO.FS.Stream) : IO Unit := do
  let line ← h.getLine
  if line.isEmpty then return ()
  let t := line.trimAscii.toString
  if !t.isEmpty then out.putStrLn (handle t)
  loop h out

def main : IO Unit := do
  let out ← IO.getStdout
  loop (← IO.getStdin) out
  out.flush
