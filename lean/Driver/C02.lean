import CKT.Model.Json
import CKT.Model.Bases
namespace CKT.Driver
open Lean CKT CKT.Generated

/-- floats are exchanged as integers scaled by 1e13 (no shortest-round-trip printer for `Float` in core) -/
def jF (x : Float) : Json := jInt (Float.round (x * 1e13)).toInt64.toInt

def getF (j : Json) : Except String Float := do
  let n ← j.getNum?
  pure n.toFloat

def evalRM (env : Nat → Float) (R : Ops.RMat Poly) : Json :=
  jList (fun row => jList (fun p => jF (Poly.evalF env p)) row) R

def jSOp (env : Nat → Float) (o : SOp) : Json :=
  Json.mkObj [("name", Json.str o.name), ("ptm", evalRM env (PO.opPtm o.sem))]

def c02 (op : String) (j : Json) : Except String Json := do
  match op with
  | "c02.basis" =>
    let name ← (← field j "gate").getStr?
    let vals ← getList (← field j "env") getF
    let env : Nat → Float := fun i => vals.getD i 0.0
    match basisOf name with
    | none => pure (Json.mkObj [("error", Json.str "ValueError")])
    | some (b, tgt) =>
      let maps := jList (fun (m : List SOp × List SOp) => Json.arr #[jList (jSOp env) m.1, jList (jSOp env) m.2]) b.maps
      let coeffs := jList (fun p => jF (Poly.evalF env p)) b.coeffs
      let kappa := jF ((b.coeffs.map fun p => Float.abs (Poly.evalF env p)).foldl (· + ·) 0.0)
      pure (Json.mkObj [("ok", Json.mkObj [("maps", maps), ("coeffs", coeffs), ("kappa", kappa),
        ("target", evalRM env (PO.ptm2 tgt))])])
  | _ => throw s!"unknown op {op}"

end CKT.Driver
