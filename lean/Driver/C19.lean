import CKT.Model.Json
import CKT.Model.NoReuse
import Driver.C05
namespace CKT.Driver
open Lean CKT

/-- `c19.noreuse`: same input as `c05.generate`; for every partition the verdicts of the decidable no-re-use hypotheses
(`noReuseExpB`), one per (joint map, observable group) in the order of the generated subexperiments -/
def c19nr (op : String) (j : Json) : Except String Json := do
  match op with
  | "c19.noreuse" =>
    let basisTable ← getList (← field j "bases") getBasis
    let parts ← getList (← field j "parts") getPartIn
    let sep ← (← field j "separated").getBool?
    let ws ← getList (← field j "weights") getWeight
    let sorted := sortByWeight ws
    let perPart (p : PartIn) : Except String Json :=
      if sep then
        match mappingIds p.circuit.instrs with
        | .error e => pure (jErr e)
        | .ok (ids, ds) =>
          pure <| jList (fun (w : Weight) =>
            let mapIds : List Int := ds.map (fun d => Int.ofNat (w.key.getD d 0))
            jList (fun g => Json.bool (noReuseExpB basisTable p.circuit ids mapIds g)) p.groups) sorted
      else
        match basesOfSingle p.circuit.instrs with
        | .error e => pure (jErr e)
        | .ok (_, ids) =>
          pure <| jList (fun (w : Weight) =>
            let mapIds : List Int := w.key.map (fun (k : Nat) => Int.ofNat k)
            jList (fun g => Json.bool (noReuseExpB basisTable p.circuit ids mapIds g)) p.groups) sorted
    let out ← parts.mapM perPart
    pure <| Json.mkObj [("ok", Json.arr out.toArray)]
  | _ => throw s!"unknown op {op}"

def c19 (op : String) (j : Json) : Except String Json := do
  match op with
  | "c19.generate" =>
    -- the subexperiments (as `c05.generate`) together with the verdicts of the no-re-use hypotheses
    let g ← c05 "c05.generate" j
    let n ← c19nr "c19.noreuse" j
    pure <| g.setObjVal! "no_reuse" (n.getObjValD "ok")
  | _ => c19nr op j

end CKT.Driver
