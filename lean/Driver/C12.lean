import CKT.Model.Json
import CKT.Model.Resets
namespace CKT.Driver
open Lean CKT

def c12 (op : String) (j : Json) : Except String Json := do
  match op with
  | "c12.pass" =>
    let c ← getCircuit (← field j "circuit")
    let which ← (← field j "which").getStr?
    let out ← match which with
      | "initial" => pure (removeInitialResets c.nq c.instrs)
      | "final" => pure (removeFinalResets c.nq c.instrs)
      | "consolidate" => pure (consolidateResets c.instrs)
      | "optimize" => pure (optimizeResets c.nq c.instrs)
      | "dag_final" => pure (passRemoveFinalReset c.instrs)
      | "dag_consolidate" => pure (passConsolidateResets c.instrs)
      | w => throw s!"unknown pass {w}"
    pure (Json.mkObj [("ok", jCircuit { c with instrs := out })])
  | _ => throw s!"unknown op {op}"

end CKT.Driver
