import CKT.Model.Json
import CKT.Model.Experiments
import Driver.C11
namespace CKT.Driver
open Lean CKT

def getWeight (j : Json) : Except String Weight := do
  let key ← getNatList (← field j "key")
  let w ← getRat (← field j "w")
  let ty ← (← field j "ty").getStr?
  pure { key, w, ty := if ty == "EXACT" then .exact else .sampled }

def getPartIn (j : Json) : Except String PartIn := do
  pure { label := ← (← field j "label").getNat?, circuit := ← getCircuit (← field j "circuit"),
         groups := ← getList (← field j "groups") getGroup }

def c05 (op : String) (j : Json) : Except String Json := do
  match op with
  | "c05.generate" =>
    let bases ← getList (← field j "bases") getBasis
    let parts ← getList (← field j "parts") getPartIn
    let sep ← (← field j "separated").getBool?
    let ws ← getList (← field j "weights") getWeight
    pure <| match generateExperiments bases parts sep ws with
      | .ok o => Json.mkObj [("ok", Json.mkObj [
          ("experiments", jList (fun (e : Nat × List Circuit) => Json.arr #[jNat e.1, jList jCircuit e.2]) o.experiments),
          ("coefficients", jList (fun (c : Rat × WType) => Json.arr #[jRat c.1, Json.str (match c.2 with | .exact => "EXACT" | .sampled => "SAMPLED")]) o.coefficients)])]
      | .error e => jErr e
  | _ => throw s!"unknown op {op}"

end CKT.Driver
