import CKT.Model.Json
import CKT.Model.Partition
import Driver.C17
namespace CKT.Driver
open Lean CKT

def getLabel (j : Json) : Except String Label := getOpt j Json.getNat?

def isNumeric (s : String) : Bool :=
  !s.isEmpty && s.toList.all (fun c => c.isDigit || c == '.' || c == '-' || c == 'e' || c == '+' || c == 'i' || c == 'n' || c == 'f' || c == 'a')

def mkOracle (unsupported : List String) : CutOracle :=
  { supported := fun i => !unsupported.contains i.name && i.params.all (fun p => isNumeric p || p.startsWith "nd:") }

def jSubcircuits (l : List (Nat × Circuit)) : Json :=
  jList (fun (e : Nat × Circuit) => Json.arr #[jNat e.1, jCircuit e.2]) l

def jQubitMap (m : List (Option (Nat × Nat))) : Json :=
  jList (fun (e : Option (Nat × Nat)) => match e with
    | none => Json.null
    | some (l, k) => Json.arr #[jNat l, jNat k]) m

def c10 (op : String) (j : Json) : Except String Json := do
  let c ← getCircuit (← field j "circuit")
  let labels ← getOpt (fieldD j "labels" Json.null) (fun x => getList x getLabel)
  match op with
  | "c10.separate" =>
    pure <| match separateCircuit c labels with
      | .ok s => Json.mkObj [("ok", Json.mkObj [("subcircuits", jSubcircuits s.subcircuits), ("qubit_map", jQubitMap s.qubitMap)])]
      | .error e => jErr e
  | "c10.partition_circuit_qubits" =>
    let uns ← getStrList (fieldD j "unsupported" (Json.arr #[]))
    let nb ← (fieldD j "nbases" (jNat 0)).getNat?
    match labels with
    | none => throw "labels required"
    | some ls =>
      if ls.length != c.nq then pure (jErr (.value "length")) else
      pure <| match partitionCircuitQubitsGo (mkOracle uns) ls c.instrs nb with
        | .ok r => Json.mkObj [("ok", jCircuit { c with instrs := r })]
        | .error e => jErr e
  | "c10.partition_problem" =>
    let uns ← getStrList (fieldD j "unsupported" (Json.arr #[]))
    let nb ← (fieldD j "nbases" (jNat 0)).getNat?
    let obs ← getOpt (fieldD j "obs" Json.null) (fun x => getList x getPauliStr)
    pure <| match partitionProblem (mkOracle uns) c nb labels obs with
      | .ok p => Json.mkObj [("ok", Json.mkObj [("subcircuits", jSubcircuits p.subcircuits),
          ("bases", jList (jOpt jNat) p.bases),
          ("subobs", match p.subobservables with
            | none => Json.null
            | some so => jList (fun (e : Nat × List PauliStr) => Json.arr #[jNat e.1, jList jPauliStr e.2]) so)])]
      | .error e => jErr e
  | _ => throw s!"unknown op {op}"

end CKT.Driver
