import CKT.Model.Json
import CKT.Model.Sampler
namespace CKT.Driver
open Lean CKT CKT.Sampler

def getSInstr (j : Json) : Except String SInstr := do
  let name ← (← field j "name").getStr?
  let qubits ← getNatList (← field j "qubits")
  let clbits ← getNatList (fieldD j "clbits" (Json.arr #[]))
  let conditioned ← (fieldD j "conditioned" (Json.bool false)).getBool?
  let param ← getRat (fieldD j "t" (Json.str "0/1"))
  pure { name, qubits, clbits, conditioned, param }

def c13 (op : String) (j : Json) : Except String Json := do
  match op with
  | "c13.simulate" =>
    let n ← (← field j "nq").getNat?
    let instrs ← getList (← field j "instrs") getSInstr
    pure (jResult (jList fun (kv : Nat × Rat) => Json.arr #[jNat kv.1, jRat kv.2]) (simulate cliffordBackend 0 (cliffordInit n) instrs))
  | _ => throw s!"unknown op {op}"

end CKT.Driver
