import CKT.Model.Json
import CKT.Model.CutFinding
namespace CKT.Driver
open Lean CKT CKT.CF

def getCInstr (j : Json) : Except String (CInstr × Bool) := do
  let name ← (← field j "name").getStr?
  let qubits ← getNatList (← field j "qubits")
  match fieldD j "gamma" Json.null with
  | Json.null => pure ({ name, qubits, gamma := none }, false)
  | Json.str "error" => pure ({ name, qubits, gamma := none }, true)
  | g => pure ({ name, qubits, gamma := some (← getRat g) }, false)

def jAct (a : Act) : Json :=
  Json.mkObj [("kind", Json.str (match a.kind with | .gateCut => "CutTwoQubitGate" | .left => "CutLeftWire" | .right => "CutRightWire" | .both => "CutBothWires")),
    ("gate", jNat a.gate), ("args", jList (fun (t : Nat × Nat × Nat) => Json.arr #[jNat t.1, jNat t.2.1, jNat t.2.2]) a.args)]

def jItem : OutItem → Json
  | .orig i => Json.arr #[Json.str "orig", jNat i]
  | .cut i => Json.arr #[Json.str "cut", jNat i]
  | .marker q => Json.arr #[Json.str "marker", jNat q]

/-- `find_cuts` with the seeded generator's stream supplied by the harness -/
def c07 (op : String) (j : Json) : Except String Json := do
  match op with
  | "c07.find_cuts" =>
    let raw ← getList (← field j "instrs") getCInstr
    let nq ← (← field j "nq").getNat?
    let maxGamma ← getRat (← field j "max_gamma")
    let maxBJ ← getOpt (fieldD j "max_backjumps" Json.null) Json.getInt?
    let gateLO ← (← field j "gate_lo").getBool?
    let wireLO ← (← field j "wire_lo").getBool?
    let W ← (← field j "width").getInt?
    let rnds ← getRatList (← field j "rnds")
    let fuel ← (fieldD j "fuel" (jNat 200000)).getNat?
    -- validation order of the implementation: conversion (gamma of every two-qubit gate) first, then the settings objects
    if raw.any (·.2) then return jErr (.value "decomposition refused")
    match maxBJ with
    | some b => if b < 0 then return jErr (.value "max_backjumps must be a positive semi-definite integer.")
    | none => pure ()
    let cfg : Settings := { maxGamma, maxBackjumps := maxBJ.map Int.toNat, gateLO, wireLO }
    match validate cfg W with
    | .error e => return jErr e
    | .ok _ => pure ()
    let instrs := raw.map (·.1)
    let gates := multiqubitGates instrs nq
    let numQubits := (assignIds instrs nq).length
    match optimize cfg gates numQubits W.toNat rnds fuel with
    | .error e => pure (jErr e)
    | .ok r =>
      let out := exportCuts instrs r.best r.minReached
      pure (Json.mkObj [("ok", Json.mkObj [("items", jList jItem out.items),
        ("cuts", jList (fun (c : String × Nat) => Json.arr #[Json.str c.1, jNat c.2]) out.cuts),
        ("overhead", jRat out.overhead), ("gamma", jRat r.best.gammaUB), ("minimum_reached", Json.bool out.minReached),
        ("actions", jList jAct r.best.actions), ("visited", jNat r.visited), ("enqueued", jNat r.enqueued)])])
  | _ => throw s!"unknown op {op}"

end CKT.Driver
