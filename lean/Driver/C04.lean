import CKT.Model.Json
import CKT.Model.Weights
namespace CKT.Driver
open Lean CKT

def jY : Y → Json
  | Y.full s p => Json.mkObj [("s", jList jNat s), ("p", jRat p)]
  | Y.cond s arr => Json.mkObj [("s", jList jNat s), ("arr", jList jRat arr)]

def jWeight (w : Weight) : Json :=
  Json.mkObj [("key", jList jNat w.key), ("w", jRat w.w), ("ty", Json.str (match w.ty with | .exact => "EXACT" | .sampled => "SAMPLED"))]

def c04 (op : String) (j : Json) : Except String Json := do
  let rows ← getList (← field j "rows") getRatList
  let atol ← getRat (← field j "atol")
  match op with
  | "c04.gen_sorted" =>
    let thr ← getRat (← field j "thr")
    pure (Json.mkObj [("ok", jList jY (genSorted rows thr atol))])
  | "c04.gen_unsorted" =>
    let thr ← getRat (← field j "thr")
    pure (Json.mkObj [("ok", jList jY (genUnsorted rows thr atol))])
  | "c04.weights" =>
    let n ← getOpt (fieldD j "N" Json.null) getRat
    let draws ← getList (fieldD j "draws" (Json.arr #[])) getNatList
    pure (((jResult (jList jWeight) (generateWeights rows n atol draws)).setObjVal! "calls"
      (jList (jList jRat) (samplerCalls rows n atol draws))).setObjVal! "sampler_ok" (Json.bool (samplerOK rows n atol draws)))
  | _ => throw s!"unknown op {op}"

end CKT.Driver
