import CKT.Model.Json
import CKT.Model.Ownership
namespace CKT.Driver
open Lean CKT CKT.Own

def shareName : Share → String
  | .S1 => "S1" | .S2 => "S2" | .S3 => "S3" | .S4 => "S4"

/-- predicted frame verdict and sharing classes of one public function on an input with the given features -/
def c16 (op : String) (j : Json) : Except String Json := do
  match op with
  | "c16.predict" =>
    let fn ← (← field j "fn").getStr?
    let f : Features := { preplaced := ← (← field j "preplaced").getBool?, payload := ← (← field j "payload").getBool?,
                          mapOps := ← (← field j "map_ops").getBool?, paramOps := ← (fieldD j "param_ops" (Json.bool false)).getBool? }
    let sk := skeletonOf fn
    pure (Json.mkObj [("ok", Json.mkObj [("framed", Json.bool (framed sk)), ("known", Json.bool (!sk.isEmpty)),
      ("shares", jList (fun s => Json.str (shareName s)) (shares sk f))])])
  | _ => throw s!"unknown op {op}"

end CKT.Driver
