import CKT.Model.Json
import CKT.Model.Pauli
namespace CKT.Driver
open Lean CKT

def letterOfChar : Char → Except String P
  | 'I' => pure P.I | 'X' => pure P.X | 'Y' => pure P.Y | 'Z' => pure P.Z
  | c => throw s!"bad Pauli letter {c}"

def charOfLetter : P → Char
  | P.I => 'I' | P.X => 'X' | P.Y => 'Y' | P.Z => 'Z'

def getPauliStr (j : Json) : Except String PauliStr := do
  let l ← (← field j "l").getStr?
  let p ← (fieldD j "p" (jNat 0)).getNat?
  pure { letters := ← l.toList.mapM letterOfChar, phase := p }

def jPauliStr (o : PauliStr) : Json :=
  Json.mkObj [("l", Json.str (String.ofList (o.letters.map charOfLetter))), ("p", jNat o.phase)]

def c17 (op : String) (j : Json) : Except String Json := do
  match op with
  | "c17.restrict" =>
    let qs ← getNatList (← field j "qubits")
    let obs ← getList (← field j "obs") getPauliStr
    pure (Json.mkObj [("ok", jList jPauliStr (obs.map (restrict qs)))])
  | "c17.decompose" =>
    let labels ← getNatList (← field j "labels")
    let obs ← getList (← field j "obs") getPauliStr
    pure (Json.mkObj [("ok", jList (fun (e : Nat × List PauliStr) => Json.arr #[jNat e.1, jList jPauliStr e.2])
      (decomposeObservables labels obs))])
  | "c17.expand" =>
    let obs ← getList (← field j "obs") getPauliStr
    let k ← (← field j "obs_num_qubits").getNat?
    let orig ← getNatList (← field j "orig")
    let final ← getNatList (← field j "final")
    pure (jResult (jList jPauliStr) (expandObservables obs k orig final))
  | _ => throw s!"unknown op {op}"

end CKT.Driver
