import CKT.Model.Json
import CKT.Model.Decompose
namespace CKT.Driver
open Lean CKT

def c14 (op : String) (j : Json) : Except String Json := do
  match op with
  | "c14.decompose" =>
    let c ← getCircuit (← field j "circuit")
    let bases ← getList (← field j "bases") getBasis
    let ids ← getList (← field j "ids") getNatList
    let ms ← getOpt (fieldD j "map_ids" Json.null) (fun x => getList x Json.getInt?)
    let r := decomposeQpd c bases ids ms
    let spec : Json := match ms with
      | some m => match assignMapIds bases c.instrs ids m with
        | .ok instrs => jList jInstr (markersToMeasures c.ncl (decomposeSpec bases instrs) 0)
        | .error _ => Json.null
      | none => jList jInstr (markersToMeasures c.ncl (decomposeSpec bases c.instrs) 0)
    pure <| match r with
      | .ok out => Json.mkObj [("ok", jCircuit out), ("spec", spec)]
      | .error e => jErr e
  | _ => throw s!"unknown op {op}"

end CKT.Driver
