import CKT.Model.Json
import CKT.Model.WireCut
namespace CKT.Driver
open Lean CKT

def c03 (op : String) (j : Json) : Except String Json := do
  match op with
  | "c03.transform" =>
    let c ← getCircuit (← field j "circuit")
    let wrap ← (← field j "wrap").getBool?
    let nb ← (fieldD j "nbases" (jNat 0)).getNat?
    let qregs ← getList (fieldD j "qregs" (Json.arr #[])) (fun r => do
      let a ← r.getArr?
      if h : a.size = 2 then pure ((← a[0].getStr?), (← getNatList a[1])) else throw "bad qreg")
    let o := transformCutWires wrap c qregs nb
    pure (Json.mkObj [("ok", Json.mkObj [
      ("nq", jNat o.nq), ("layout", jList (jOpt jNat) o.layout), ("instrs", jList jInstr o.instrs),
      ("qregs", jList (fun (r : String × List Nat) => Json.arr #[Json.str r.1, jList jNat r.2]) o.qregs),
      ("cregs", jList (fun (r : String × Nat) => Json.arr #[Json.str r.1, jNat r.2]) o.cregs)])])
  | _ => throw s!"unknown op {op}"

end CKT.Driver
