import CKT.Model.Json
import CKT.Model.BasisState
namespace CKT.Driver
open Lean CKT

def jState (b : BasisState) : Json :=
  Json.mkObj [("coeffs", jList jRat b.coeffs), ("kappa", jRat b.kappa), ("probs", jList jRat b.probs), ("overhead", jRat b.overhead)]

/-- construct, then apply a history of assignments, reporting the outcome and the state after every step -/
def c15 (op : String) (j : Json) : Except String Json := do
  match op with
  | "c15.setter" =>
    let nmaps ← (← field j "nmaps").getNat?
    let init ← getRatList (← field j "init")
    let hist ← getList (← field j "hist") getRatList
    match BasisState.mk' nmaps init with
    | .error e => pure (jErr e)
    | .ok b0 =>
      let step := fun (acc : BasisState × List Json) (cs : List Rat) =>
        match acc.1.setCoeffs cs with
        | .ok b' => (b', acc.2 ++ [Json.mkObj [("ok", jState b')]])
        | .error e => (acc.1, acc.2 ++ [Json.mkObj [("error", Json.str "ValueError"), ("state", jState acc.1)]])
      let r := hist.foldl step (b0, [Json.mkObj [("ok", jState b0)]])
      pure (Json.mkObj [("ok", Json.arr r.2.toArray)])
  | _ => throw s!"unknown op {op}"

end CKT.Driver
