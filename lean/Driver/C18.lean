import CKT.Model.Json
import CKT.Model.Validation
import CKT.Model.Decompose
namespace CKT.Driver
open Lean CKT CKT.Validation

def getForm (j : Json) : Except String Form := do
  match (← j.getStr?) with
  | "single" => pure .single
  | "dict" => pure .dict
  | _ => pure .other

def getBudget (j : Json) : Except String Budget := do
  match j with
  | Json.str "nan" => pure .nan
  | Json.str "inf" => pure .inf
  | _ => pure (.fin (← getRat j))

def jUnit (r : R Unit) : Json := jResult (fun _ => Json.str "accepted") r

def c18 (op : String) (j : Json) : Except String Json := do
  match op with
  | "c18.generate_args" =>
    pure (jUnit (checkGenerateArgs (← getForm (← field j "circuits")) (← getForm (← field j "observables")) (← getBudget (← field j "n"))))
  | "c18.reconstruct_args" =>
    pure (jUnit (checkReconstructArgs (← getForm (← field j "observables")) (← getForm (← field j "results"))
      (← getNatList (← field j "phases")) (← getNatList (← field j "obs_keys")) (← getNatList (← field j "res_keys"))))
  | "c18.basis_id" =>
    let id ← getOpt (fieldD j "id" Json.null) Json.getInt?
    pure (jResult (jOpt jNat) (Validation.setBasisId (← (← field j "nmaps").getNat?) id))
  | "c18.half" =>
    pure (jResult jNat (mkSingleQubitGate (← (← field j "basis_qubits").getNat?) (← (← field j "qubit_id").getNat?)))
  | "c18.two_qubit_gate" =>
    pure (jUnit (mkTwoQubitGate (← (← field j "basis_qubits").getNat?)))
  | "c18.basis" =>
    pure (jUnit (mkBasis (← getNatList (← field j "arities")) (← (← field j "ncoeffs").getNat?)))
  | "c18.no_classical" =>
    pure (jUnit (checkNoClassical (← (← field j "nregs").getNat?) (← (← field j "nbits").getNat?)))
  | "c18.unset_basis_id" =>
    -- decompose_qpd_instructions(circuit, [[0]], map_ids=None) on a placeholder whose basis_id may be unset
    let id ← getOpt (fieldD j "id" Json.null) Json.getNat?
    let g : Instr := { name := "qpd_2q", qubits := [0, 1], basis := some 0, basisId := id }
    pure (jUnit (requireMapIds [g] [[0]]))
  | _ => throw s!"unknown op {op}"

end CKT.Driver
