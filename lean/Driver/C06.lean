import CKT.Model.Json
import CKT.Model.Reconstruct
namespace CKT.Driver
open Lean CKT

def getCog (j : Json) : Except String Cog := do
  pure { nIdx := ← (← field j "n_idx").getNat?, masks := ← getNatList (← field j "masks") }

def getPair (f : Json → Except String α) (g : Json → Except String β) (j : Json) : Except String (α × β) := do
  let a ← j.getArr?
  if h : a.size = 2 then pure ((← f a[0]), (← g a[1])) else throw "bad pair"

def getExpData (j : Json) : Except String ExpData := do
  match j.getObjVal? "v1" with
  | .ok d => pure (.v1 (← getList d (getPair Json.getNat? getRat)))
  | .error _ => pure (.v2 (← getList (← field j "v2") (getPair Json.getNat? Json.getNat?)))

def getSubsystem (j : Json) : Except String Subsystem := do
  pure { groups := ← getList (← field j "groups") getCog,
         lookup := ← getList (← field j "lookup") (fun l => getList l (getPair Json.getNat? Json.getNat?)),
         results := ← getList (← field j "results") getExpData }

def c06 (op : String) (j : Json) : Except String Json := do
  match op with
  | "c06.reconstruct" =>
    let subs ← getList (← field j "subs") getSubsystem
    let coeffs ← getRatList (← field j "coeffs")
    let nobs ← (← field j "nobs").getNat?
    let r := reconstructImpl subs coeffs nobs
    let spec := reconstructSpec subs coeffs nobs
    pure <| match r with
      | .ok v => Json.mkObj [("ok", jList jRat v), ("spec", jList jRat spec)]
      | .error e => jErr e
  | "c06.process_outcome" =>
    let cog ← getCog (← field j "cog")
    match (← field j "outcome") with
    | Json.str s => match outcomeToInt s with
      | some n => pure (Json.mkObj [("ok", jList jInt (processOutcome cog n))])
      | none => pure (jErr (.value "bad outcome"))
    | o => pure (Json.mkObj [("ok", jList jInt (processOutcome cog (← o.getNat?)))])
  | "c06.process_outcome_v2" =>
    let cog ← getCog (← field j "cog")
    pure (Json.mkObj [("ok", jList jInt (processOutcomeV2 cog (← (← field j "obs").getNat?) (← (← field j "qpd").getNat?)))])
  | _ => throw s!"unknown op {op}"

end CKT.Driver
