import CKT.Model.Json
import CKT.Model.Grouping
import Driver.C17
namespace CKT.Driver
open Lean CKT

def getGroup (j : Json) : Except String Group := do
  pure { general := ← getPauliStr (← field j "general"),
         members := ← getList (← field j "members") getPauliStr,
         indices := ← getNatList (← field j "indices"),
         masks := ← getNatList (← field j "masks") }

def c11 (op : String) (j : Json) : Except String Json := do
  match op with
  | "c11.most_general" =>
    let obs ← getList (← field j "obs") getPauliStr
    let n ← getOpt (fieldD j "num_qubits" Json.null) Json.getNat?
    pure (jResult jPauliStr (mostGeneral obs n))
  | "c11.group" =>
    let g ← getPauliStr (← field j "general")
    let ms ← getList (← field j "members") getPauliStr
    pure (jResult (fun (g : Group) => Json.mkObj [("indices", jList jNat g.indices), ("masks", jList jNat g.masks)]) (mkGroup g ms))
  | "c11.check_collection" =>
    let obs ← getList (← field j "obs") getPauliStr
    let groups ← getList (← field j "groups") getGroup
    let lookup ← getList (← field j "lookup") (fun e => do
      let a ← e.getArr?
      if h : a.size = 2 then
        let p ← getPauliStr a[0]
        let locs ← getList a[1] (fun x => do
          let b ← x.getArr?
          if h2 : b.size = 2 then pure ((← b[0].getNat?), (← b[1].getNat?)) else throw "bad loc")
        pure (p.letters, locs)
      else throw "bad lookup entry")
    -- recompute each group with the model and compare
    let regroup := groups.all (fun g => match mostGeneral g.members none with
      | .ok gen => gen.letters == g.general.letters
      | .error _ => false)
    pure (Json.mkObj [("ok", Json.mkObj [("valid", Json.bool (checkCollection obs groups lookup)), ("general_recomputed", Json.bool regroup)])])
  | "c11.append_measurement" =>
    let c ← getCircuit (← field j "circuit")
    let g ← getPauliStr (← field j "general")
    let idx ← getNatList (← field j "indices")
    let locs ← getOpt (fieldD j "locs" Json.null) getNatList
    pure (jResult jCircuit (appendMeasurementLoc c g idx locs))
  | _ => throw s!"unknown op {op}"

end CKT.Driver
