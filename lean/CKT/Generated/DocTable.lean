/-! GENERATED from docs/explanation/index.rst by harness/translate/doctable.py — do not edit -/
namespace CKT.Generated

def docTable : List (List String × String) := [
  (["CSGate", "CSdgGate", "CSXGate"], "3+2\\sqrt{2} \\approx 5.828"),
  (["CXGate", "CYGate", "CZGate", "CHGate", "ECRGate"], "3^2=9"),
  (["iSwapGate", "DCXGate"], "7^2=49"),
  (["SwapGate"], "7^2=49"),
  (["RXXGate", "RYYGate", "RZZGate", "RZXGate"], "\\left[1 + 2 \\left|\\sin(\\theta)\\right| \\right]^2"),
  (["CRXGate", "CRYGate", "CRZGate", "CPhaseGate"], "\\left[1 + 2 \\left|\\sin(\\theta/2)\\right| \\right]^2"),
  (["XXPlusYYGate", "XXMinusYYGate"], "\\left[1+4\\left|\\sin(\\theta/2)\\right|+2\\sin^2(\\theta/2)\\right]^2"),
  (["Move"], "4^2=16")
]

end CKT.Generated
