import CKT.Generated.Measure
import CKT.Props.C11Walsh
/-!
# C11 — the measurement step of the model is the translated source

`CKT.Generated.measStep` is produced on every run from the loop of `_append_measurement_circuit` (Python AST → a Lean function from the
x / z bits of the general observable, the qubit and the classical bit to the appended instructions).  The model's `measurementInstrs`, which
the C11 theorems are about, is this step mapped over the measured indices.
-/
namespace CKT.C11Gen
open CKT

/-- the symplectic bits of a Pauli letter (`general_observable.x`, `.z`) -/
def xBit : P → Bool
  | .X => true
  | .Y => true
  | _ => false

def zBit : P → Bool
  | .Y => true
  | .Z => true
  | _ => false

/-- **the model's measurement instructions are the translated loop** -/
theorem measurementInstrs_translated (general : PauliStr) (indices : List Nat) (loc : Nat → Nat) (base : Nat) :
    measurementInstrs general indices loc base =
      ((measuredIndices indices).zipIdx).flatMap fun (sq : Nat × Nat) =>
        Generated.measStep (xBit (general.letters.getD sq.1 P.I)) (zBit (general.letters.getD sq.1 P.I)) (loc sq.1) (base + sq.2) := by
  unfold measurementInstrs
  congr 1
  funext sq
  cases general.letters.getD sq.1 P.I <;> simp [Generated.measStep, xBit, zBit]

end CKT.C11Gen
