import CKT.Props.C07
/-!
# C08 — a reported minimum really is the minimum

`flag_sound` is proved for the generic best-first search (`Search.loop`/`Search.pass`, any state type, any cost
that does not decrease along edges): whenever the search reports `minReached`, the incumbent bound `ub` is a lower
bound on the cost of **every** goal state of the search tree.  The proof is the frontier invariant of Dijkstra's
algorithm (`Cover`): every goal cheaper than the incumbent has an ancestor in the queue; the queue head is the
cheapest entry; pruning only drops states that cost more than the incumbent; a state popped while a cost bound is
exceeded is put back (the `fix:` of defect D4 — without it `Cover` breaks, which is how that defect was found).
It is then instantiated with the cut-finding tree, whose costs are monotone because every gamma is at least one.
-/
namespace CKT.C08
open CKT CKT.CF CKT.C07

variable {S : Type}

def Child (f : Fns S) (s t : S) : Prop := ∃ ns, f.next s = .ok ns ∧ t ∈ ns

inductive Desc (f : Fns S) : S → S → Prop
  | refl (s : S) : Desc f s s
  | head (s c g : S) : Child f s c → Desc f c g → Desc f s g

theorem desc_trans (f : Fns S) (a b c : S) (h1 : Desc f a b) (h2 : Desc f b c) : Desc f a c := by
  induction h1 with
  | refl => exact h2
  | head s c' g hc _ ih => exact Desc.head s c' _ hc (ih h2)

theorem desc_snoc (f : Fns S) (a b c : S) (h1 : Desc f a b) (h2 : Child f b c) : Desc f a c :=
  desc_trans f a b c h1 (Desc.head b c c h2 (Desc.refl c))

/-- costs do not decrease along the edges below `start` -/
def Mono (f : Fns S) (start : S) : Prop := ∀ s t, Desc f start s → Child f s t → f.cost s ≤ f.cost t

theorem desc_cost (f : Fns S) (start : S) (hm : Mono f start) (s g : S) (hs : Desc f start s) (h : Desc f s g) : f.cost s ≤ f.cost g := by
  induction h with
  | refl => exact le_refl _
  | head s c g hc _ ih => exact le_trans (hm s c hs hc) (ih (desc_snoc f start s c hs hc))

/-- queue entries carry the cost of their state, are ordered by cost, and are states of the tree -/
structure WF (f : Fns S) (start : S) (queue : List (Key × S)) : Prop where
  key : ∀ e ∈ queue, e.1.cost = f.cost e.2
  sorted : queue.Pairwise (fun a b => a.1.cost ≤ b.1.cost)
  reach : ∀ e ∈ queue, Desc f start e.2

/-- every goal below the incumbent still has an ancestor in the frontier -/
def Cover (f : Fns S) (start : S) (queue : List (Key × S)) (ub : Option Rat) : Prop :=
  ∀ g, Desc f start g → f.goal g = true → (∀ u, ub = some u → f.cost g < u) → ∃ e ∈ queue, Desc f e.2 g

/-- the incumbent is a lower bound for every goal -/
def LB (f : Fns S) (start : S) (ub : Option Rat) : Prop :=
  ∀ g, Desc f start g → f.goal g = true → ∃ u, ub = some u ∧ u ≤ f.cost g

structure Good (f : Fns S) (start : S) (q : Search S) : Prop where
  wf : WF f start q.queue
  cover : Cover f start q.queue q.ub
  flag : q.minReached = true → LB f start q.ub

theorem key_lt_cost (a b : Key) (h : Key.lt a b = true) : a.cost ≤ b.cost := by
  unfold Key.lt at h
  split at h
  · exact le_of_lt (by simpa using h)
  · rename_i hc; simp at hc; exact le_of_eq hc

theorem key_not_lt_cost (a b : Key) (h : Key.lt a b = false) : b.cost ≤ a.cost := by
  unfold Key.lt at h
  split at h
  · simp at h; exact h
  · rename_i hc; simp at hc; exact le_of_eq hc.symm

theorem mem_insertKey (e : Key × S) (l : List (Key × S)) (x : Key × S) : x ∈ insertKey e l ↔ x = e ∨ x ∈ l := by
  induction l with
  | nil => simp [insertKey]
  | cons y ys ih =>
    simp only [insertKey]
    split
    · simp
    · simp only [List.mem_cons, ih]; tauto

theorem insertKey_sorted (e : Key × S) (l : List (Key × S)) (h : l.Pairwise (fun a b => a.1.cost ≤ b.1.cost)) :
    (insertKey e l).Pairwise (fun a b => a.1.cost ≤ b.1.cost) := by
  induction l with
  | nil => simp [insertKey]
  | cons y ys ih =>
    simp only [insertKey]
    rw [List.pairwise_cons] at h
    split
    · rename_i hlt
      rw [List.pairwise_cons]
      refine ⟨?_, List.pairwise_cons.2 h⟩
      intro b hb
      rcases List.mem_cons.1 hb with rfl | hb
      · exact key_lt_cost _ _ hlt
      · exact le_trans (key_lt_cost _ _ hlt) (h.1 b hb)
    · rename_i hlt
      rw [List.pairwise_cons]
      refine ⟨?_, ih h.2⟩
      intro b hb
      rcases (mem_insertKey e ys b).1 hb with rfl | hb
      · exact key_not_lt_cost _ _ (by simpa using hlt)
      · exact h.1 b hb

/-! ### the primitive queue operations -/

theorem push_fields (q : Search S) (s : S) (d : Nat) (c : Rat) :
    (q.push s d c).ub = q.ub ∧ (q.push s d c).minReached = q.minReached ∧
    (q.push s d c).queue = insertKey (⟨c, -(d : Int), q.rnds.headD 0, q.seq⟩, s) q.queue := ⟨rfl, rfl, rfl⟩

theorem insert_wf (f : Fns S) (start : S) (l : List (Key × S)) (k : Key) (s : S) (h : WF f start l)
    (hk : k.cost = f.cost s) (hr : Desc f start s) : WF f start (insertKey (k, s) l) := by
  refine ⟨?_, insertKey_sorted _ _ h.sorted, ?_⟩
  · intro e he
    rcases (mem_insertKey _ _ _).1 he with rfl | he
    · exact hk
    · exact h.key e he
  · intro e he
    rcases (mem_insertKey _ _ _).1 he with rfl | he
    · exact hr
    · exact h.reach e he

theorem put1_spec (f : Fns S) (start : S) (d : Nat) (q : Search S) (a : S) (h : WF f start q.queue) (ha : Desc f start a) :
    WF f start (q.put1 f.cost d a).queue ∧ (q.put1 f.cost d a).ub = q.ub ∧ (q.put1 f.cost d a).minReached = q.minReached
    ∧ (∀ x ∈ q.queue, x ∈ (q.put1 f.cost d a).queue) ∧ ((∀ u, q.ub = some u → f.cost a ≤ u) → ∃ x ∈ (q.put1 f.cost d a).queue, x.2 = a) := by
  unfold Search.put1
  split
  · rename_i u hub
    split
    · refine ⟨insert_wf f start q.queue _ a h rfl ha, rfl, rfl, ?_, ?_⟩
      · intro x hx; exact (mem_insertKey _ _ _).2 (Or.inr hx)
      · intro _; exact ⟨_, (mem_insertKey _ _ _).2 (Or.inl rfl), rfl⟩
    · rename_i hc
      exact ⟨h, rfl, rfl, fun x hx => hx, fun hh => absurd (hh u hub) hc⟩
  · refine ⟨insert_wf f start q.queue _ a h rfl ha, rfl, rfl, ?_, ?_⟩
    · intro x hx; exact (mem_insertKey _ _ _).2 (Or.inr hx)
    · intro _; exact ⟨_, (mem_insertKey _ _ _).2 (Or.inl rfl), rfl⟩

/-- `put` keeps `ub`/flag, keeps old entries, stays well-formed, and enqueues every state not above the incumbent -/
theorem put_spec (f : Fns S) (start : S) (states : List S) (d : Nat) : ∀ (q : Search S), WF f start q.queue →
    (∀ s ∈ states, Desc f start s) →
    WF f start (q.put f.cost states d).queue ∧ (q.put f.cost states d).ub = q.ub ∧ (q.put f.cost states d).minReached = q.minReached ∧
    (∀ x ∈ q.queue, x ∈ (q.put f.cost states d).queue) ∧
    (∀ s ∈ states, (∀ u, q.ub = some u → f.cost s ≤ u) → ∃ x ∈ (q.put f.cost states d).queue, x.2 = s) := by
  induction states with
  | nil => intro q h _; exact ⟨h, rfl, rfl, fun x hx => hx, fun s hs => by cases hs⟩
  | cons a rest ih =>
    intro q h hreach
    simp only [Search.put, List.foldl_cons]
    obtain ⟨w1, u1, m1, o1, n1⟩ := put1_spec f start d q a h (hreach a (by simp))
    obtain ⟨w2, u2, m2, o2, n2⟩ := ih (q.put1 f.cost d a) w1 (fun s hs => hreach s (List.mem_cons_of_mem _ hs))
    simp only [Search.put] at w2 u2 m2 o2 n2
    refine ⟨w2, by rw [u2, u1], by rw [m2, m1], fun x hx => o2 x (o1 x hx), ?_⟩
    intro s hs hle
    rcases List.mem_cons.1 hs with rfl | hs
    · obtain ⟨x, hx, hxs⟩ := n1 hle
      exact ⟨x, o2 x hx, hxs⟩
    · exact n2 s hs (fun u hu => hle u (by rw [← u1]; exact hu))

/-- if the incumbent does not exceed any frontier entry, it is a lower bound for all goals -/
theorem lb_of_head (f : Fns S) (start : S) (hm : Mono f start) (queue : List (Key × S)) (hw : WF f start queue) (u : Rat)
    (hc : Cover f start queue (some u)) (hmin : ∀ e ∈ queue, u ≤ e.1.cost) : LB f start (some u) := by
  intro g hd hg
  refine ⟨u, rfl, ?_⟩
  by_contra hlt
  have hlt' : f.cost g < u := lt_of_not_ge hlt
  obtain ⟨e, he, hde⟩ := hc g hd hg (fun u' hu' => by injection hu' with h; subst h; exact hlt')
  have h1 : u ≤ e.1.cost := hmin e he
  have h2 : e.1.cost = f.cost e.2 := hw.key e he
  have h3 := desc_cost f start hm e.2 g (hw.reach e he) hde
  linarith

/-- an exhausted frontier: the incumbent (if any) is a lower bound, and without incumbent there is no goal at all -/
theorem lb_of_empty (f : Fns S) (start : S) (ub : Option Rat) (hc : Cover f start [] ub) : LB f start ub := by
  intro g hd hg
  cases hub : ub with
  | none =>
    subst hub
    obtain ⟨e, he, _⟩ := hc g hd hg (fun u hu => by cases hu)
    cases he
  | some u =>
    subst hub
    refine ⟨u, rfl, ?_⟩
    by_contra hlt
    obtain ⟨e, he, _⟩ := hc g hd hg (fun u' hu' => by injection hu' with h; subst h; exact lt_of_not_ge hlt)
    cases he

theorem lb_mono_ub (f : Fns S) (start : S) (ub ub' : Option Rat) (h : LB f start ub)
    (hub : ∀ u, ub = some u → ∃ u', ub' = some u' ∧ u' ≤ u) : LB f start ub' := by
  intro g hd hg
  obtain ⟨u, hu, hle⟩ := h g hd hg
  obtain ⟨u', hu', hle'⟩ := hub u hu
  exact ⟨u', hu', le_trans hle' hle⟩

theorem updMin_fields (q : Search S) (c : Rat) : (q.updMin c).queue = q.queue ∧ (q.updMin c).ub = q.ub ∧
    ((q.updMin c).minReached = true → q.minReached = true ∨ ∃ u, q.ub = some u ∧ u ≤ c) := by
  unfold Search.updMin
  split
  · rename_i u hub
    split
    · rename_i hle; exact ⟨rfl, rfl, fun _ => Or.inr ⟨u, hub, hle⟩⟩
    · exact ⟨rfl, rfl, fun h => Or.inl h⟩
  · exact ⟨rfl, rfl, fun h => Or.inl h⟩

theorem updUb_fields (q : Search S) (b : Rat) : (q.updUb b).queue = q.queue ∧ (q.updUb b).minReached = q.minReached ∧
    (∃ u', (q.updUb b).ub = some u' ∧ u' ≤ b ∧ (∀ u, q.ub = some u → u' ≤ u) ∧ (u' = b ∨ q.ub = some u')) := by
  unfold Search.updUb
  split
  · rename_i u hub
    split
    · rename_i hlt
      exact ⟨rfl, rfl, b, rfl, le_refl _, fun u' hu' => by rw [hub] at hu'; injection hu' with e; subst e; exact le_of_lt hlt, Or.inl rfl⟩
    · rename_i hlt
      exact ⟨rfl, rfl, u, hub, not_lt.mp hlt, fun u' hu' => by rw [hub] at hu'; injection hu' with e; subst e; exact le_refl _, Or.inr hub⟩
  · rename_i hub
    refine ⟨rfl, rfl, b, rfl, le_refl _, ?_, Or.inl rfl⟩
    intro u hu; rw [hub] at hu; cases hu

theorem good_flag_of_popped (f : Fns S) (start : S) (hm : Mono f start) (q : Search S) (k : Key) (s : S) (rest : List (Key × S))
    (hg : Good f start q) (hq : q.queue = (k, s) :: rest)
    (hflag : ((q.withQueue rest).updMin k.cost).minReached = true) : LB f start q.ub := by
  rcases (updMin_fields (q.withQueue rest) k.cost).2.2 hflag with h | ⟨u, hu, hle⟩
  · exact hg.flag h
  · have hu' : q.ub = some u := hu
    have hw := hg.wf
    have hc := hg.cover
    rw [hu'] at hc ⊢
    apply lb_of_head f start hm q.queue hw u hc
    intro e he
    have hs := hw.sorted
    rw [hq] at hs he
    rw [List.pairwise_cons] at hs
    rcases List.mem_cons.1 he with rfl | he
    · exact hle
    · exact le_trans hle (hs.1 e he)

theorem loop_good (f : Fns S) (start : S) (hm : Mono f start) (mincost : Option Rat) (maxBJ : Option Nat) :
    ∀ (fuel : Nat) (q : Search S) (prev : Option Nat) (q' : Search S) (r : Option (S × Rat)),
      Good f start q → Search.loop f mincost maxBJ fuel q prev = .ok (q', r) →
      Good f start q' ∧ (∀ u, q.ub = some u → ∃ u', q'.ub = some u' ∧ u' ≤ u) ∧
      (∀ s c, r = some (s, c) → c = f.cost s ∧ f.goal s = true ∧ Desc f start s ∧ q'.ub = some c) ∧
      (r = none → q'.ub = q.ub) := by
  intro fuel
  induction fuel with
  | zero =>
    intro q prev q' r hg h
    simp only [Search.loop] at h
    injection h with h; injection h with h1 h2; subst h1; subst h2
    exact ⟨hg, fun u hu => ⟨u, hu, le_refl _⟩, (fun s c hh => by cases hh), fun _ => rfl⟩
  | succ fuel ih =>
    intro q prev q' r hg h
    unfold Search.loop at h
    split at h
    · rename_i hq
      injection h with h; injection h with h1 h2; subst h1; subst h2
      refine ⟨⟨hg.wf, hg.cover, ?_⟩, fun u hu => ⟨u, hu, le_refl _⟩, (fun s c hh => by cases hh), fun _ => rfl⟩
      intro _
      have hc := hg.cover
      rw [hq] at hc
      exact lb_of_empty f start q.ub hc
    · rename_i k s rest hq
      by_cases hstop : (q.minReached || bjExceeded maxBJ q.backjumps) = true
      · rw [if_pos hstop] at h
        injection h with h; injection h with h1 h2; subst h1; subst h2
        exact ⟨hg, fun u hu => ⟨u, hu, le_refl _⟩, (fun s c hh => by cases hh), fun _ => rfl⟩
      · rw [if_neg hstop] at h
        simp only at h
        -- facts about the popped entry
        have hmem : (k, s) ∈ q.queue := by rw [hq]; simp
        have hk : k.cost = f.cost s := hg.wf.key _ hmem
        have hsr : Desc f start s := hg.wf.reach _ hmem
        have hrestsub : ∀ e ∈ rest, e ∈ q.queue := fun e he => by rw [hq]; exact List.mem_cons_of_mem _ he
        have hsorted := hg.wf.sorted
        rw [hq, List.pairwise_cons] at hsorted
        have hwrest : WF f start rest :=
          ⟨fun e he => hg.wf.key e (hrestsub e he), hsorted.2, fun e he => hg.wf.reach e (hrestsub e he)⟩
        obtain ⟨hbq, hbu, _⟩ := updMin_fields (q.withQueue rest) k.cost
        have hbq' : ((q.withQueue rest).updMin k.cost).queue = rest := hbq
        have hbu' : ((q.withQueue rest).updMin k.cost).ub = q.ub := hbu
        have hflagB : ((q.withQueue rest).updMin k.cost).minReached = true → LB f start q.ub :=
          good_flag_of_popped f start hm q k s rest hg hq
        by_cases hex : boundsExceeded mincost ((q.withQueue rest).updMin k.cost).ub k.cost = true
        · -- bounds exceeded: the state is put back
          rw [if_pos hex] at h
          injection h with h; injection h with h1 h2; subst h1; subst h2
          refine ⟨⟨?_, ?_, ?_⟩, fun u hu => ⟨u, by rw [(push_fields _ _ _ _).1, hbu']; exact hu, le_refl _⟩, (fun s c hh => by cases hh),
            fun _ => by rw [(push_fields _ _ _ _).1, hbu']⟩
          · rw [(push_fields _ _ _ _).2.2, hbq']
            exact insert_wf f start rest _ s hwrest hk hsr
          · rw [(push_fields _ _ _ _).2.2, (push_fields _ _ _ _).1, hbq', hbu']
            intro g hd hgoal hlt
            obtain ⟨e, he, hde⟩ := hg.cover g hd hgoal hlt
            rw [hq] at he
            rcases List.mem_cons.1 he with rfl | he
            · exact ⟨_, (mem_insertKey _ _ _).2 (Or.inl rfl), hde⟩
            · exact ⟨e, (mem_insertKey _ _ _).2 (Or.inr he), hde⟩
          · rw [(push_fields _ _ _ _).2.1, (push_fields _ _ _ _).1, hbu']
            exact hflagB
        · rw [if_neg hex] at h
          -- not exceeded: k.cost ≤ ub
          have hle_ub : ∀ u, q.ub = some u → k.cost ≤ u := by
            intro u hu
            by_contra hgt
            apply hex
            unfold boundsExceeded
            rw [hbu', hu]
            simp only [Bool.or_eq_true, decide_eq_true_eq]
            right; exact lt_of_not_ge hgt
          by_cases hgoal : f.goal s = true
          · rw [if_pos hgoal] at h
            injection h with h; injection h with h1 h2; subst h1; subst h2
            -- the new incumbent is exactly k.cost
            obtain ⟨huq, hum, u', hu', hu'le, hu'old, hu'or⟩ :=
              updUb_fields (((q.withQueue rest).updMin k.cost).visit prev (depthOf k)) (f.cost s)
            have hvis_ub : (((q.withQueue rest).updMin k.cost).visit prev (depthOf k)).ub = q.ub := hbu'
            have hvis_q : (((q.withQueue rest).updMin k.cost).visit prev (depthOf k)).queue = rest := hbq'
            have hu'eq : u' = k.cost := by
              rcases hu'or with h1 | h1
              · rw [h1, hk]
              · rw [hvis_ub] at h1
                have := hle_ub u' h1
                rw [hk] at this ⊢
                exact le_antisymm hu'le this
            obtain ⟨hfq, hfu, _⟩ := updMin_fields ((((q.withQueue rest).updMin k.cost).visit prev (depthOf k)).updUb (f.cost s)) k.cost
            have hfinal_ub : (((((q.withQueue rest).updMin k.cost).visit prev (depthOf k)).updUb (f.cost s)).updMin k.cost).ub = some k.cost := by
              rw [hfu, hu', hu'eq]
            have hfinal_q : (((((q.withQueue rest).updMin k.cost).visit prev (depthOf k)).updUb (f.cost s)).updMin k.cost).queue = rest := by
              rw [hfq, huq, hvis_q]
            have hcover : Cover f start rest (some k.cost) := by
              intro g hd hgl hlt
              have hlt' : f.cost g < k.cost := hlt _ rfl
              obtain ⟨e, he, hde⟩ := hg.cover g hd hgl (fun u hu => lt_of_lt_of_le hlt' (hle_ub u hu))
              rw [hq] at he
              rcases List.mem_cons.1 he with rfl | he
              · exfalso
                have := desc_cost f start hm s g hsr hde
                rw [hk] at hlt'; linarith
              · exact ⟨e, he, hde⟩
            refine ⟨⟨?_, ?_, ?_⟩, ?_, ?_, (fun hh => by cases hh)⟩
            · rw [hfinal_q]; exact hwrest
            · rw [hfinal_q, hfinal_ub]; exact hcover
            · intro _
              rw [hfinal_ub]
              exact lb_of_head f start hm rest hwrest k.cost hcover (fun e he => hsorted.1 e he)
            · intro u hu
              exact ⟨k.cost, hfinal_ub, hle_ub u hu⟩
            · intro s' c hh
              injection hh with hh; injection hh with e1 e2; subst e1; subst e2
              exact ⟨hk, hgoal, hsr, hfinal_ub⟩
          · rw [if_neg hgoal] at h
            -- expansion
            cases hnext : f.next s with
            | error e => rw [hnext] at h; cases h
            | ok ns =>
              rw [hnext] at h
              simp only [bind, Except.bind] at h
              have hchild : ∀ c ∈ ns, Desc f start c := fun c hc => desc_snoc f start s c hsr ⟨ns, hnext, hc⟩
              have hvis_ub : (((q.withQueue rest).updMin k.cost).visit prev (depthOf k)).ub = q.ub := hbu'
              have hvis_q : (((q.withQueue rest).updMin k.cost).visit prev (depthOf k)).queue = rest := hbq'
              have hvis_m : (((q.withQueue rest).updMin k.cost).visit prev (depthOf k)).minReached
                  = ((q.withQueue rest).updMin k.cost).minReached := rfl
              obtain ⟨w2, u2, m2, o2, n2⟩ := put_spec f start ns (depthOf k + 1)
                (((q.withQueue rest).updMin k.cost).visit prev (depthOf k)) (by rw [hvis_q]; exact hwrest) hchild
              have hgood : Good f start ((((q.withQueue rest).updMin k.cost).visit prev (depthOf k)).put f.cost ns (depthOf k + 1)) := by
                refine ⟨w2, ?_, ?_⟩
                · rw [u2, hvis_ub]
                  intro g hd hgl hlt
                  obtain ⟨e, he, hde⟩ := hg.cover g hd hgl hlt
                  rw [hq] at he
                  rcases List.mem_cons.1 he with rfl | he
                  · -- the ancestor was the expanded state: one of its children takes over
                    cases hde with
                    | refl => exact absurd hgl hgoal
                    | head _ c _ hc hcg =>
                      obtain ⟨ns', hns', hcns⟩ := hc
                      rw [hnext] at hns'; injection hns' with hns'; subst hns'
                      have hcr := hchild c hcns
                      have hcost : ∀ u, q.ub = some u → f.cost c ≤ u := fun u hu =>
                        le_of_lt (lt_of_le_of_lt (desc_cost f start hm c g hcr hcg) (hlt u hu))
                      obtain ⟨x, hx, hxc⟩ := n2 c hcns (by rw [hvis_ub]; exact hcost)
                      exact ⟨x, hx, by rw [hxc]; exact hcg⟩
                  · exact ⟨e, o2 e (by rw [hvis_q]; exact he), hde⟩
                · rw [m2, hvis_m, u2, hvis_ub]; exact hflagB
              obtain ⟨g1, g2, g3, g4⟩ := ih _ _ _ _ hgood h
              refine ⟨g1, ?_, g3, fun hr => by rw [g4 hr, u2, hvis_ub]⟩
              intro u hu
              exact g2 u (by rw [u2, hvis_ub]; exact hu)


/-- one `optimization_pass` -/
theorem pass_good (f : Fns S) (start : S) (hm : Mono f start) (mincost : Option Rat) (maxBJ : Option Nat) (fuel : Nat)
    (q q' : Search S) (r : Option (S × Rat)) (hg : Good f start q) (h : Search.pass f mincost maxBJ fuel q = .ok (q', r)) :
    Good f start q' ∧ (∀ s c, r = some (s, c) → c = f.cost s ∧ f.goal s = true ∧ Desc f start s ∧ q'.ub = some c) ∧
    (r = none → q'.ub = q.ub) := by
  unfold Search.pass at h
  cases hl : Search.loop f mincost maxBJ fuel q none with
  | error e => rw [hl] at h; cases h
  | ok qr =>
    obtain ⟨q1, r1⟩ := qr
    rw [hl] at h
    simp only [bind, Except.bind] at h
    obtain ⟨g1, _, g3, g4⟩ := loop_good f start hm mincost maxBJ fuel q none q1 r1 hg hl
    cases r1 with
    | some x =>
      simp only at h
      injection h with h; injection h with h1 h2; subst h1; subst h2
      exact ⟨g1, g3, (fun hh => by cases hh)⟩
    | none =>
      simp only at h
      injection h with h; injection h with h1 h2; subst h2
      by_cases he : q1.queue.isEmpty = true
      · rw [if_pos he] at h1; subst h1
        refine ⟨⟨g1.wf, g1.cover, ?_⟩, (fun s c hh => by cases hh), fun _ => g4 rfl⟩
        intro _
        have hc := g1.cover
        have : q1.queue = [] := List.isEmpty_iff.1 he
        rw [this] at hc
        exact lb_of_empty f start q1.ub hc
      · rw [if_neg he] at h1; subst h1
        exact ⟨g1, (fun s c hh => by cases hh), fun _ => g4 rfl⟩

/-- **flag soundness of the generic search**: whatever sequence of passes was run from a well-formed start, a set flag
means that the incumbent bound is a lower bound on the cost of every goal of the tree -/
theorem flag_sound (f : Fns S) (start : S) (q : Search S) (hg : Good f start q) (hflag : q.minReached = true) :
    ∀ g, Desc f start g → f.goal g = true → ∃ u, q.ub = some u ∧ u ≤ f.cost g :=
  hg.flag hflag

/-! ### the cut-finding instance -/

abbrev cutFns (cfg : Settings) (gates : List Gate) (W : Nat) : Fns St := searchFns cfg gates W

theorem actCost_ge_one (gates : List Gate) (hγ : ∀ g ∈ gates, ∀ x, g.gamma = some x → 1 ≤ x) (a : Act) : 1 ≤ actCost gates a := by
  unfold actCost
  cases a.kind with
  | gateCut =>
    simp only [gammaOfIdx]
    cases hf : gates.find? (fun g => g.idx = a.gate) with
    | none => simp
    | some g =>
      simp only
      have hmem : g ∈ gates := List.mem_of_find?_eq_some hf
      cases hx : g.gamma with
      | none => simp
      | some x => simpa using hγ g hmem x hx
  | left => norm_num
  | right => norm_num
  | both => norm_num

theorem child_cost (cfg : Settings) (gates : List Gate) (W : Nat) (hn : (gates.map (·.idx)).Nodup)
    (hγ : ∀ g ∈ gates, ∀ x, g.gamma = some x → 1 ≤ x) (s t : St) (h0 : 0 ≤ s.gammaUB) (hc : Child (cutFns cfg gates W) s t) :
    s.gammaUB ≤ t.gammaUB ∧ 0 ≤ t.gammaUB := by
  obtain ⟨ns, hns, ht⟩ := hc
  obtain ⟨hacc, _⟩ := step_accounting cfg gates W hn s t ns hns ht
  rcases hacc with ⟨_, hg⟩ | ⟨a, _, hg⟩
  · rw [hg]; exact ⟨le_refl _, h0⟩
  · have := actCost_ge_one gates hγ a
    rw [hg]
    constructor
    · nlinarith
    · nlinarith

theorem desc_nonneg (cfg : Settings) (gates : List Gate) (W : Nat) (hn : (gates.map (·.idx)).Nodup)
    (hγ : ∀ g ∈ gates, ∀ x, g.gamma = some x → 1 ≤ x) (s t : St) (h0 : 0 ≤ s.gammaUB) (h : Desc (cutFns cfg gates W) s t) :
    0 ≤ t.gammaUB := by
  induction h with
  | refl => exact h0
  | head s c g hc _ ih => exact ih (child_cost cfg gates W hn hγ s c h0 hc).2

/-- costs never decrease along the edges of the cut-finding tree, because every gamma is at least one -/
theorem cut_mono (cfg : Settings) (gates : List Gate) (W : Nat) (hn : (gates.map (·.idx)).Nodup)
    (hγ : ∀ g ∈ gates, ∀ x, g.gamma = some x → 1 ≤ x) (start : St) (h0 : 0 ≤ start.gammaUB) :
    Mono (cutFns cfg gates W) start := by
  intro s t hs hc
  exact (child_cost cfg gates W hn hγ s t (desc_nonneg cfg gates W hn hγ start s h0 hs) hc).1

/-! ### the multi-pass driver -/

theorem firstMin_spec : ∀ (out : List (Rat × St)) (b : Rat × St), firstMin out = some b → b ∈ out ∧ ∀ x ∈ out, b.1 ≤ x.1 := by
  intro out
  induction out with
  | nil => intro b h; cases h
  | cons x rest ih =>
    intro b h
    simp only [firstMin] at h
    cases hr : firstMin rest with
    | none =>
      rw [hr] at h; injection h with h; subst h
      cases rest with
      | nil => exact ⟨by simp, fun y hy => by simp at hy; rw [hy]⟩
      | cons y ys =>
        exfalso
        simp only [firstMin] at hr
        cases h2 : firstMin ys <;> rw [h2] at hr <;> simp at hr
        split at hr <;> cases hr
    | some y =>
      rw [hr] at h
      obtain ⟨hy, hmin⟩ := ih y hr
      simp only at h
      split at h
      · rename_i hlt
        injection h with h; subst h
        refine ⟨List.mem_cons_of_mem _ hy, ?_⟩
        intro z hz
        rcases List.mem_cons.1 hz with rfl | hz
        · exact le_of_lt hlt
        · exact hmin z hz
      · rename_i hlt
        injection h with h; subst h
        refine ⟨by simp, ?_⟩
        intro z hz
        rcases List.mem_cons.1 hz with rfl | hz
        · exact le_refl _
        · exact le_trans (not_lt.mp hlt) (hmin z hz)

structure DriverInv (f : Fns St) (start : St) (greedyState : Option St) (q : Search St) (returned : Bool) (out : List (Rat × St)) : Prop where
  good : Good f start q
  costs : ∀ x ∈ out, x.1 = x.2.gammaUB
  witness : out ≠ [] → ∃ x ∈ out, ∃ u, q.ub = some u ∧ x.1 ≤ u
  fresh : returned = false → out = [] ∧ ∀ gs, greedyState = some gs → q.ub = some gs.gammaUB

theorem passes_inv (f : Fns St) (hf : ∀ s, f.cost s = s.gammaUB) (start : St) (hm : Mono f start) (cfg : Settings)
    (greedyState : Option St) (fuel : Nat) :
    ∀ (n : Nat) (q : Search St) (returned : Bool) (out : List (Rat × St)) (q' : Search St) (out' : List (Rat × St)),
      DriverInv f start greedyState q returned out →
      passes f cfg greedyState fuel n q returned out = .ok (q', out') →
      Good f start q' ∧ (∀ x ∈ out', x.1 = x.2.gammaUB) ∧ (out' ≠ [] → ∃ x ∈ out', ∃ u, q'.ub = some u ∧ x.1 ≤ u) := by
  intro n
  induction n with
  | zero =>
    intro q returned out q' out' hi h
    simp only [passes] at h
    injection h with h; injection h with h1 h2; subst h1; subst h2
    exact ⟨hi.good, hi.costs, hi.witness⟩
  | succ n ih =>
    intro q returned out q' out' hi h
    simp only [passes] at h
    cases hp : Search.pass f (some cfg.maxGamma) cfg.maxBackjumps fuel q with
    | error e => rw [hp] at h; cases h
    | ok qr =>
      obtain ⟨q1, r1⟩ := qr
      rw [hp] at h
      simp only [bind, Except.bind] at h
      obtain ⟨g1, g2, g3⟩ := pass_good f start hm _ _ fuel q q1 r1 hi.good hp
      cases r1 with
      | some sc =>
        obtain ⟨s, c⟩ := sc
        simp only at h
        obtain ⟨hc, _, _, hub⟩ := g2 s c rfl
        apply ih q1 true (out ++ [(c, s)]) q' out' _ h
        refine ⟨g1, ?_, ?_, (fun hh => by cases hh)⟩
        · intro x hx
          rcases List.mem_append.1 hx with hx | hx
          · exact hi.costs x hx
          · simp at hx; subst hx; simp only; rw [hc, hf]
        · intro _
          exact ⟨(c, s), by simp, c, hub, le_refl _⟩
      | none =>
        simp only at h
        have hub : q1.ub = q.ub := g3 rfl
        cases hret : returned with
        | true =>
          rw [hret] at h
          simp only [Bool.not_true, Bool.false_eq_true, if_false] at h
          injection h with h; injection h with h1 h2; subst h1; subst h2
          refine ⟨g1, hi.costs, ?_⟩
          intro hne
          obtain ⟨x, hx, u, hu, hle⟩ := hi.witness hne
          exact ⟨x, hx, u, by rw [hub]; exact hu, hle⟩
        | false =>
          rw [hret] at h
          simp only [Bool.not_false, if_true] at h
          obtain ⟨hout, hgs⟩ := hi.fresh hret
          cases hgr : greedyState with
          | none => rw [hgr] at h; cases h
          | some gs =>
            rw [hgr] at h
            simp only at h
            rw [← hgr] at h
            apply ih q1 true (out ++ [(gs.gammaUB, gs)]) q' out' _ h
            refine ⟨g1, ?_, ?_, (fun hh => by cases hh)⟩
            · intro x hx
              rcases List.mem_append.1 hx with hx | hx
              · exact hi.costs x hx
              · simp at hx; subst hx; rfl
            · intro _
              exact ⟨(gs.gammaUB, gs), by simp, gs.gammaUB, by rw [hub]; exact hgs gs hgr, le_refl _⟩


theorem startSearch_good (f : Fns St) (start : St) (g : Option St) (rnds : List Rat) :
    Good f start (startSearch f start g rnds) ∧
    (∀ gs, g = some gs → (startSearch f start g rnds).ub = some gs.gammaUB) := by
  have hw0 : WF f start (emptySearch rnds).queue := ⟨(fun e he => by cases he), List.Pairwise.nil, (fun e he => by cases he)⟩
  obtain ⟨w, u, m, _, n⟩ := put_spec f start [start] 0 (emptySearch rnds) hw0 (fun s hs => by simp at hs; subst hs; exact Desc.refl _)
  obtain ⟨x, hx, hxs⟩ := n start (by simp) (fun u hu => by cases hu)
  have strong : ∀ ub, Cover f start ((emptySearch rnds).put f.cost [start] 0).queue ub :=
    fun ub g hd _ _ => ⟨x, hx, by rw [hxs]; exact hd⟩
  have hm' : ((emptySearch rnds).put f.cost [start] 0).minReached = false := by rw [m]; rfl
  unfold startSearch
  cases g with
  | none =>
    exact ⟨⟨w, strong _, (fun hh => by rw [hm'] at hh; cases hh)⟩, (fun gs hh => by cases hh)⟩
  | some gs =>
    obtain ⟨hq, hmr, u', hu', _, _, hor⟩ := updUb_fields ((emptySearch rnds).put f.cost [start] 0) gs.gammaUB
    refine ⟨⟨by rw [hq]; exact w, by rw [hq]; exact strong _, (fun hh => by rw [hmr, hm'] at hh; cases hh)⟩, ?_⟩
    intro gs' hh
    injection hh with hh; subst hh
    rcases hor with h1 | h1
    · rw [hu', h1]
    · rw [u] at h1; cases h1

/-- **C08, flag soundness for the cut finder**: if `optimize` reports that the minimum was reached, no goal state of the
search tree (every per-gate choice of apply / gate cut / left, right or both wires that passes the guards within the wire
budget) costs less than the returned state -/
theorem optimize_flag_sound (cfg : Settings) (gates : List Gate) (numQubits W : Nat) (rnds : List Rat) (fuel : Nat) (r : Result)
    (hn : (gates.map (·.idx)).Nodup) (hγ : ∀ g ∈ gates, ∀ x, g.gamma = some x → 1 ≤ x)
    (h : optimize cfg gates numQubits W rnds fuel = .ok r) (hflag : r.minReached = true) :
    ∃ g0, greedy cfg gates W (gates.length + 1) (St.init numQubits (gates.map (·.qubits.length)).sum) = .ok g0 ∧
      ∀ t, Desc (cutFns cfg gates W) (St.init numQubits (wireBudget cfg (gates.map (·.qubits.length)).sum g0)) t →
        isGoal gates t = true → r.best.gammaUB ≤ t.gammaUB := by
  unfold optimize at h
  simp only [bind, Except.bind] at h
  cases hgr : greedy cfg gates W (gates.length + 1) (St.init numQubits (gates.map (·.qubits.length)).sum) with
  | error e => rw [hgr] at h; cases h
  | ok g0 =>
    rw [hgr] at h
    simp only at h
    refine ⟨g0, rfl, ?_⟩
    set start := St.init numQubits (wireBudget cfg (gates.map (·.qubits.length)).sum g0) with hstart
    set f := searchFns cfg gates W with hfdef
    have hmono : Mono f start := cut_mono cfg gates W hn hγ start (by simp [hstart, St.init])
    obtain ⟨hgood, hub0⟩ := startSearch_good f start g0 rnds
    cases hp : passes f cfg g0 fuel fuel (startSearch f start g0 rnds) false [] with
    | error e => rw [hp] at h; cases h
    | ok qo =>
      obtain ⟨q, out⟩ := qo
      rw [hp] at h
      simp only at h
      have hinv : DriverInv f start g0 (startSearch f start g0 rnds) false [] :=
        ⟨hgood, (fun x hx => by cases hx), fun hh => absurd rfl hh, fun _ => ⟨rfl, hub0⟩⟩
      obtain ⟨gq, hcosts, hwit⟩ := passes_inv f (fun s => rfl) start hmono cfg g0 fuel fuel _ false [] q out hinv hp
      cases hfm : firstMin out with
      | none => rw [hfm] at h; cases h
      | some cb =>
        obtain ⟨c, best⟩ := cb
        rw [hfm] at h
        simp only at h
        injection h with h; subst h
        simp only at hflag ⊢
        intro t hd hgoal
        obtain ⟨u, hu, hle⟩ := gq.flag hflag t hd hgoal
        obtain ⟨hbmem, hbmin⟩ := firstMin_spec out (c, best) hfm
        have hne : out ≠ [] := fun hh => by rw [hh] at hbmem; cases hbmem
        obtain ⟨x, hx, u', hu', hxle⟩ := hwit hne
        rw [hu] at hu'; injection hu' with hu'; subst hu'
        have h1 := hbmin x hx
        have h2 := hcosts (c, best) hbmem
        simp only at h1 h2
        calc best.gammaUB = c := h2.symm
          _ ≤ x.1 := h1
          _ ≤ u := hxle
          _ ≤ t.gammaUB := hle

/-- non-vacuity: a two-gate instance where the flag is set and a cheaper-looking alternative exists in the tree -/
example : (optimize ⟨1024, none, true, true⟩ [⟨0, [0, 1], some 3⟩, ⟨1, [1, 2], some 3⟩] 3 2 [] 1000).toOption.map
    (fun r => (r.minReached, r.best.gammaUB)) = some (true, 3) := by decide +kernel

end CKT.C08
