import CKT.Model.Grouping
import Mathlib.Data.List.Basic
import Mathlib.Data.Nat.Bitwise
/-!
# C11 — observable grouping and measurement circuits (structure)
(decoding = true expectation, T11.4, is in `CKT.Props.C11Sem`)
-/
namespace CKT.C11
open CKT

private abbrev at' (l : List P) (i : Nat) : P := l.getD i P.I

private theorem getD_cons_succ' (a : P) (l : List P) (i : Nat) : at' (a :: l) (i + 1) = at' l i := by
  simp [at', List.getD_eq_getElem?_getD]
private theorem getD_cons_zero' (a : P) (l : List P) : at' (a :: l) 0 = a := by
  simp [at', List.getD_eq_getElem?_getD]

/-- one merge step: the result dominates both inputs letter-wise and is the identity only where both are -/
theorem mergeLetters_spec : ∀ (g o r : List P), mergeLetters g o = some r →
    ∀ i, (at' o i = P.I ∨ at' o i = at' r i) ∧ (at' g i = P.I ∨ at' g i = at' r i) ∧
         (at' r i = P.I ↔ at' g i = P.I ∧ at' o i = P.I) := by
  intro g
  induction g with
  | nil =>
    intro o r h i
    cases o with
    | nil => simp [mergeLetters] at h; subst h; simp [at']
    | cons _ _ => simp [mergeLetters] at h
  | cons a g ih =>
    intro o r h i
    cases o with
    | nil => simp [mergeLetters] at h
    | cons b o =>
      simp only [mergeLetters] at h
      cases hm : mergeLetters g o with
      | none => rw [hm] at h; cases h
      | some r' =>
        rw [hm] at h
        have ihr := ih o r' hm
        by_cases hb : b = P.I
        · simp only [hb, if_true, Option.some.injEq] at h; subst h
          cases i with
          | zero => simp [getD_cons_zero', hb]
          | succ i => simpa [getD_cons_succ'] using ihr i
        · simp only [hb, if_false] at h
          by_cases hab : a = b
          · simp only [hab, if_true, Option.some.injEq] at h; subst h
            cases i with
            | zero => simp [getD_cons_zero', hab, hb]
            | succ i => simpa [getD_cons_succ'] using ihr i
          · simp only [hab, if_false] at h
            by_cases ha : a = P.I
            · simp only [ha, ne_eq, not_true_eq_false, if_false, Option.some.injEq] at h; subst h
              cases i with
              | zero => simp [getD_cons_zero', ha, hb]
              | succ i => simpa [getD_cons_succ'] using ihr i
            · simp [ha] at h

theorem go_spec (n : Nat) : ∀ (rest : List PauliStr) (g gf : List P), mostGeneral.go n rest g = .ok gf →
    (∀ o ∈ rest, ∀ i, at' o.letters i = P.I ∨ at' o.letters i = at' gf i) ∧
    (∀ i, at' g i = P.I ∨ at' g i = at' gf i) ∧
    (∀ i, at' gf i ≠ P.I → at' g i ≠ P.I ∨ ∃ o ∈ rest, at' o.letters i ≠ P.I) := by
  intro rest
  induction rest with
  | nil =>
    intro g gf h
    simp [mostGeneral.go] at h; subst h
    exact ⟨by simp, fun i => Or.inr rfl, fun i hi => Or.inl hi⟩
  | cons o rest ih =>
    intro g gf h
    simp only [mostGeneral.go] at h
    split at h
    · cases h
    · cases hm : mergeLetters g o.letters with
      | none => rw [hm] at h; cases h
      | some g' =>
        rw [hm] at h
        obtain ⟨h1, h2, h3⟩ := ih g' gf h
        have hs := mergeLetters_spec g o.letters g' hm
        refine ⟨?_, ?_, ?_⟩
        · intro o' ho' i
          rcases List.mem_cons.1 ho' with rfl | ho'
          · rcases (hs i).1 with h | h
            · exact Or.inl h
            · rcases h2 i with h' | h'
              · left; rw [h, h']
              · right; rw [h, h']
          · exact h1 o' ho' i
        · intro i
          rcases (hs i).2.1 with h | h
          · exact Or.inl h
          · rcases h2 i with h' | h'
            · left; rw [h, h']
            · right; rw [h, h']
        · intro i hi
          rcases h3 i hi with h | ⟨o', ho', h⟩
          · have := (hs i).2.2
            by_cases hg : at' g i = P.I
            · right; exact ⟨o, by simp, fun hc => h (this.2 ⟨hg, hc⟩)⟩
            · exact Or.inl hg
          · exact Or.inr ⟨o', by simp [ho'], h⟩

/-- **T11.1** if a general observable is produced, every member is letter-wise `I` or equal to it, and it is
non-identity exactly where some member is. -/
theorem mostGeneral_spec (obs : List PauliStr) (n : Option Nat) (g : PauliStr) (h : mostGeneral obs n = .ok g) :
    (∀ o ∈ obs, ∀ i, at' o.letters i = P.I ∨ at' o.letters i = at' g.letters i) ∧
    (∀ i, at' g.letters i ≠ P.I ↔ ∃ o ∈ obs, at' o.letters i ≠ P.I) ∧ g.phase = 0 := by
  unfold mostGeneral at h
  cases obs with
  | nil => simp at h
  | cons o0 rest =>
    simp only at h
    split at h
    · rename_i gl hgo
      injection h with h; subst h
      obtain ⟨h1, _, h3⟩ := go_spec _ _ _ _ hgo
      refine ⟨h1, ?_, rfl⟩
      intro i
      constructor
      · intro hi
        rcases h3 i hi with h | h
        · exfalso; apply h; simp [at', List.getD_eq_getElem?_getD, List.getElem?_replicate]; split <;> rfl
        · exact h
      · rintro ⟨o, ho, hne⟩ hc
        rcases h1 o ho i with h | h
        · exact hne h
        · exact hne (h.trans hc)
    · cases h

theorem mostGeneral_refuses_empty (n : Option Nat) : ∃ e, mostGeneral [] n = .error (.value e) := ⟨_, rfl⟩

/-- incompatible input (two members with different non-identity letters at one position) is refused -/
theorem mergeLetters_incompatible (g o : List P) (i : Nat) (h1 : at' g i ≠ P.I) (h2 : at' o i ≠ P.I)
    (hne : at' g i ≠ at' o i) : mergeLetters g o = none := by
  cases hm : mergeLetters g o with
  | none => rfl
  | some r =>
    exfalso
    have := mergeLetters_spec g o r hm i
    rcases this.1 with h | h
    · exact h2 h
    · rcases this.2.1 with h' | h'
      · exact h1 h'
      · exact hne (h'.trans h.symm)

/-! ## T11.2 bitmasks -/

/-- is member `m` non-identity on qubit `j`? -/
def actsOn (m : PauliStr) (j : Nat) : Bool := m.letters.getD j P.I != P.I

private theorem ite_shift_testBit (c : Bool) (k b : Nat) :
    ((if c = true then 1 <<< k else 0) : Nat).testBit b = (c && decide (k = b)) := by
  cases c
  · simp
  · simp [Nat.one_shiftLeft, Nat.testBit_two_pow]

theorem maskGo_testBit (m : PauliStr) : ∀ (idx : List Nat) (k b : Nat),
    (maskGo m idx k).testBit b = (decide (k ≤ b) && match idx[b - k]? with
      | some j => actsOn m j
      | none => false) := by
  intro idx
  induction idx with
  | nil => intro k b; simp [maskGo]
  | cons j rest ih =>
    intro k b
    have hm : maskGo m (j :: rest) k = ((if actsOn m j = true then 1 <<< k else 0) ||| maskGo m rest (k + 1)) := rfl
    rw [hm, Nat.testBit_or, ih, ite_shift_testBit]
    rcases Nat.lt_trichotomy k b with hlt | heq | hgt
    · have e : b - k = (b - (k + 1)) + 1 := by omega
      have h1 : decide (k = b) = false := by simp; omega
      have h2 : decide (k + 1 ≤ b) = true := by simp; omega
      have h3 : decide (k ≤ b) = true := by simp; omega
      rw [h1, h2, h3, e, List.getElem?_cons_succ]; simp
    · subst heq
      have h2 : decide (k + 1 ≤ k) = false := by simp
      rw [h2]; simp
    · have h1 : decide (k = b) = false := by simp; omega
      have h2 : decide (k + 1 ≤ b) = false := by simp; omega
      have h3 : decide (k ≤ b) = false := by simp; omega
      rw [h1, h2, h3]; simp

/-- **T11.2** bit `b` of a member's mask is set iff `b` is a valid position in `pauli_indices` and the member is
non-identity on that qubit. -/
theorem maskOf_testBit (m : PauliStr) (idx : List Nat) (b : Nat) :
    (maskOf m idx).testBit b = match idx[b]? with
      | some j => actsOn m j
      | none => false := by
  simp [maskOf, maskGo_testBit]

theorem mem_pauliIndices (g : PauliStr) (i : Nat) :
    i ∈ pauliIndices g ↔ i < g.letters.length ∧ at' g.letters i ≠ P.I := by
  simp [pauliIndices, List.mem_filter, at']

/-! ## T11.3 soundness of the collection checker -/

theorem checkCollection_sound (obs : List PauliStr) (groups : List Group) (lookup : List (List P × List (Nat × Nat)))
    (h : checkCollection obs groups lookup = true) :
    (∀ o ∈ obs, ∃ e ∈ lookup, e.1 = o.letters ∧ e.2 ≠ [] ∧
        ∀ mn ∈ e.2, ∃ g m, groups[mn.1]? = some g ∧ g.members[mn.2]? = some m ∧ m.letters = o.letters) ∧
    (∀ g ∈ groups, (∀ m ∈ g.members, compatible g.general m = true) ∧ g.indices = pauliIndices g.general ∧
        g.masks = g.members.map (fun m => maskOf m g.indices)) := by
  unfold checkCollection at h
  rw [Bool.and_eq_true] at h
  obtain ⟨h1, h2⟩ := h
  constructor
  · intro o ho
    rw [List.all_eq_true] at h1
    have := h1 o ho
    split at this
    · cases this
    · rename_i e he
      have hmem := List.mem_of_find?_eq_some he
      have hp := List.find?_some he
      rw [Bool.and_eq_true] at this
      refine ⟨e, hmem, by simpa using hp, by simpa using this.1, ?_⟩
      intro mn hmn
      have h3 := this.2
      rw [List.all_eq_true] at h3
      have := h3 mn hmn
      split at this
      · rename_i g hg
        split at this
        · rename_i m hm
          exact ⟨g, m, hg, hm, by simpa using this⟩
        · cases this
      · cases this
  · intro g hg
    rw [List.all_eq_true] at h2
    have := h2 g hg
    simp only [Bool.and_eq_true] at this
    obtain ⟨⟨a, b⟩, c⟩ := this
    rw [List.all_eq_true] at a
    exact ⟨a, by simpa using b, by simpa using c⟩

theorem mkGroup_spec (general : PauliStr) (members : List PauliStr) (g : Group) (h : mkGroup general members = .ok g) :
    g.indices = pauliIndices general ∧ g.masks = members.map (fun m => maskOf m (pauliIndices general)) ∧
    ∀ m ∈ members, m.phase = 0 := by
  unfold mkGroup at h
  split at h
  · cases h
  · rename_i hp
    injection h with h; subst h
    refine ⟨rfl, rfl, ?_⟩
    intro m hm
    simp only [List.any_eq_true, not_exists, not_and] at hp
    simpa using hp m hm

/-- the appended measurement block: one measurement per measured index (a dummy one when nothing needs measuring),
preceded by `h` for X and `sx` for Y; register size = number of measurements -/
theorem measuredIndices_spec (idx : List Nat) :
    (idx = [] → measuredIndices idx = [0]) ∧ (idx ≠ [] → measuredIndices idx = idx) := by
  constructor
  · intro h; simp [measuredIndices, h]
  · intro h; cases idx <;> simp_all [measuredIndices]

/-! non-vacuity -/
private def exObs : List PauliStr := [⟨[P.Z, P.I, P.I, P.I], 0⟩, ⟨[P.Z, P.Z, P.I, P.I], 0⟩, ⟨[P.I, P.I, P.I, P.X], 0⟩]
example : mostGeneral exObs none = .ok ⟨[P.Z, P.Z, P.I, P.X], 0⟩ := by decide
example : (mkGroup ⟨[P.Z, P.Z, P.I, P.X], 0⟩ exObs).toOption.map (fun g => (g.indices, g.masks)) = some ([0, 1, 3], [1, 3, 4]) := by decide

end CKT.C11
