import CKT.Props.C08Link
/-!
# C08 — gate cuts only: the reported minimum **is** the minimum over all width-feasible plans

Converse of `C08Link`: when wire cuts are not permitted, every state of the model's search tree *is* a plan prefix — its union-find
classes are exactly the connected components of the gates applied so far, its recorded widths are the component sizes and its cost is
the product of the γ of the gates cut so far (`child_link`, `desc_link`).  Hence every goal state, in particular the state `optimize`
returns (a goal of the tree or the greedy incumbent, `C08.optimize_origin`), is a width-feasible plan with exactly the reported
overhead (`optimize_result_is_plan`), and with `C08Link.optimize_min_over_gate_plans`:

  `optimize_is_minimum` — flag set ⇒ the reported overhead is attained by a width-feasible plan and no width-feasible plan costs less.
-/
namespace CKT.C08Link
open CKT CKT.CF CKT.C07 CKT.C08

/-- connectivity through the gates the plan applies among the first `m` -/
def ConnUpTo (gates : List Gate) (a : Nat → Bool) (m : Nat) : Nat → Nat → Prop :=
  Relation.EqvGen fun x y => ∃ i g, i < m ∧ gates[i]? = some g ∧ a i = false ∧ g.qubits.getD 0 0 = x ∧ g.qubits.getD 1 0 = y

theorem connUpTo_mono (gates : List Gate) (a a' : Nat → Bool) (m m' : Nat) (hm : m ≤ m') (hag : ∀ i, i < m → a' i = a i) (x y : Nat)
    (h : ConnUpTo gates a m x y) : ConnUpTo gates a' m' x y := by
  induction h with
  | rel x y hxy =>
    obtain ⟨i, g, hi, hg, ha, h1, h2⟩ := hxy
    exact Relation.EqvGen.rel _ _ ⟨i, g, by omega, hg, by rw [hag i hi]; exact ha, h1, h2⟩
  | refl x => exact Relation.EqvGen.refl x
  | symm x y _ ih => exact Relation.EqvGen.symm _ _ ih
  | trans x y z _ _ ih1 ih2 => exact Relation.EqvGen.trans _ _ _ ih1 ih2

theorem connUpTo_full (gates : List Gate) (a : Nat → Bool) (m : Nat) (hm : gates.length ≤ m) (x y : Nat) :
    ConnUpTo gates a m x y ↔ Conn gates a x y := by
  constructor
  · intro h
    induction h with
    | rel x y hxy =>
      obtain ⟨i, g, _, hg, ha, h1, h2⟩ := hxy
      exact Relation.EqvGen.rel _ _ ⟨i, g, hg, ha, h1, h2⟩
    | refl x => exact Relation.EqvGen.refl x
    | symm x y _ ih => exact Relation.EqvGen.symm _ _ ih
    | trans x y z _ _ ih1 ih2 => exact Relation.EqvGen.trans _ _ _ ih1 ih2
  · intro h
    induction h with
    | rel x y hxy =>
      obtain ⟨i, g, hg, ha, h1, h2⟩ := hxy
      have hi : i < gates.length := by
        by_contra hh
        rw [List.getElem?_eq_none (not_lt.mp hh)] at hg
        cases hg
      exact Relation.EqvGen.rel _ _ ⟨i, g, by omega, hg, ha, h1, h2⟩
    | refl x => exact Relation.EqvGen.refl x
    | symm x y _ ih => exact Relation.EqvGen.symm _ _ ih
    | trans x y z _ _ ih1 ih2 => exact Relation.EqvGen.trans _ _ _ ih1 ih2

theorem cost_congr (gs : List C08Spec.G) (a a' : Nat → Bool) (m : Nat) (hag : ∀ i, i < m → a' i = a i) :
    C08Spec.cost (gs.take m) a' = C08Spec.cost (gs.take m) a := by
  unfold C08Spec.cost
  congr 2
  apply List.filter_congr
  intro x hx
  obtain ⟨g, i⟩ := x
  have := List.mem_zipIdx_iff_getElem?.1 hx
  simp only [Nat.sub_zero] at this
  have hi : i < m := by
    by_contra hh
    have hnone : (gs.take m)[i]? = none := List.getElem?_eq_none (by rw [List.length_take]; omega)
    rw [hnone] at this
    simp at this
  simp [hag i hi]

/-- the state is the plan prefix of its level -/
structure Link2 (gates : List Gate) (a : Nat → Bool) (W n : Nat) (s : St) : Prop where
  wm : s.wiremap = List.range n
  nw : s.numWires = n
  inv : Inv W n s
  inv2 : Inv2 s
  cnt : CntS s
  fwd : ∀ w1 w2, w1 < n → w2 < n → rootL s.root w1 = rootL s.root w2 → ConnUpTo gates a s.level w1 w2
  bwd : ∀ w1 w2, ConnUpTo gates a s.level w1 w2 → rootL s.root w1 = rootL s.root w2
  cost : s.gammaUB = C08Spec.cost ((gates.map toG).take s.level) a

theorem link2_init (gates : List Gate) (a : Nat → Bool) (W n k : Nat) (hW : 1 ≤ W) : Link2 gates a W n (St.init n k) := by
  refine ⟨rfl, rfl, init_inv W n k hW, init_inv2 n k, init_cnt n k, ?_, ?_, by simp [C08Spec.cost, St.init]⟩
  · intro w1 w2 _ _ h
    simp only [St.init, rootL_range] at h
    subst h
    exact Relation.EqvGen.refl _
  · intro w1 w2 h
    induction h with
    | rel x y hxy =>
      obtain ⟨i, g, hi, _⟩ := hxy
      simp [St.init] at hi
    | refl x => rfl
    | symm x y _ ih => exact ih.symm
    | trans x y z _ _ ih1 ih2 => exact ih1.trans ih2

theorem Link2.wire {gates : List Gate} {a : Nat → Bool} {W n : Nat} (s : St) (hl : Link2 gates a W n s) (q : Nat) (hq : q < n) :
    s.wire q = q := by
  simp [St.wire, hl.wm, List.getD_eq_getElem?_getD, List.getElem?_range hq]

theorem Link2.qroot {gates : List Gate} {a : Nat → Bool} {W n : Nat} (s : St) (hl : Link2 gates a W n s) (q : Nat) (hq : q < n) :
    s.qroot q = rootL s.root q := by
  simp [St.qroot, hl.wire s q hq, rootOf_eq]

/-- **one step, converse direction** (gate cuts only): a child of a plan prefix is the plan prefix extended by one decision -/
theorem child_link (cfg : Settings) (hwl : cfg.wireLO = false) (gates : List Gate) (a : Nat → Bool) (W n : Nat) (hc : CircOK gates n)
    (s t : St) (ns : List St) (hl : Link2 gates a W n s) (hns : nextStates cfg gates W s = .ok ns) (ht : t ∈ ns) :
    ∃ b : Bool, Link2 gates (Function.update a s.level b) W n t := by
  have hi' := step_inv cfg gates W n hc.lt s t ns hl.inv hns ht
  have hi2' := step_inv2 cfg gates W n hc.lt s t ns hl.inv hl.inv2 hns ht
  have hc' := step_cnt cfg gates W n hc.lt s t ns hl.inv hl.inv2 hl.cnt hns ht
  unfold nextStates at hns
  cases hg : gates[s.level]? with
  | none => rw [hg] at hns; injection hns with hns; subst hns; cases ht
  | some g =>
    rw [hg] at hns
    have hmem : g ∈ gates := List.mem_of_getElem? hg
    have htwo := hc.two g hmem
    obtain ⟨hq1, hq2⟩ := hc.lt g hmem
    simp only [htwo, ne_eq, not_true_eq_false, if_false] at hns
    injection hns with hns
    subst hns
    simp only [List.mem_filterMap] at ht
    obtain ⟨act, hact, hat⟩ := ht
    have hr1 : s.qroot (g.qubits.getD 0 0) = rootL s.root (g.qubits.getD 0 0) := hl.qroot s _ hq1
    have hr2 : s.qroot (g.qubits.getD 1 0) = rootL s.root (g.qubits.getD 1 0) := hl.qroot s _ hq2
    have hgG : (gates.map toG)[s.level]? = some (toG g) := by simp [List.getElem?_map, hg]
    simp only [actionList, hwl, Bool.false_eq_true, if_false, List.append_nil, List.mem_append, List.mem_singleton] at hact
    rcases hact with rfl | hcutm
    · -- the gate was applied
      refine ⟨false, ?_⟩
      unfold applyGate at hat
      simp only at hat
      split at hat
      · cases hat
      · split at hat
        · cases hat
        · injection hat with hat
          have hta : t = appSt s g := hat.symm
          have hagree : ∀ i, i < s.level → Function.update a s.level false i = a i := fun i hi => Function.update_of_ne (by omega) _ _
          have hedge : ConnUpTo gates (Function.update a s.level false) (s.level + 1) (g.qubits.getD 0 0) (g.qubits.getD 1 0) :=
            Relation.EqvGen.rel _ _ ⟨s.level, g, by omega, hg, by simp, rfl, rfl⟩
          by_cases hne : s.qroot (g.qubits.getD 0 0) ≠ s.qroot (g.qubits.getD 1 0)
          · rw [hta, appSt_ne s g hne] at hi' hi2' hc' ⊢
            have hmax : max (s.qroot (g.qubits.getD 0 0)) (s.qroot (g.qubits.getD 1 0)) < s.numWires := by
              rw [hr1, hr2, hl.nw]
              exact max_lt (lt_of_le_of_lt (hl.inv2.root_le _) hq1) (lt_of_le_of_lt (hl.inv2.root_le _) hq2)
            have hroot : ∀ w, rootL ({ s.merge (s.qroot (g.qubits.getD 0 0)) (s.qroot (g.qubits.getD 1 0)) with level := s.level + 1 } : St).root w
                = if rootL s.root w = max (s.qroot (g.qubits.getD 0 0)) (s.qroot (g.qubits.getD 1 0))
                  then min (s.qroot (g.qubits.getD 0 0)) (s.qroot (g.qubits.getD 1 0)) else rootL s.root w :=
              fun w => rootL_merge s.root s.maxWires s.numWires s.noMerge hl.inv2 _ _ w hmax
            have up : ∀ x y, ConnUpTo gates a s.level x y → ConnUpTo gates (Function.update a s.level false) (s.level + 1) x y :=
              fun x y h => connUpTo_mono gates a _ s.level (s.level + 1) (by omega) hagree x y h
            have toroot : ∀ w, w < n → ConnUpTo gates a s.level w (rootL s.root w) := fun w hw =>
              hl.fwd w (rootL s.root w) hw (lt_of_le_of_lt (hl.inv2.root_le w) hw) (hl.inv2.root_idem w).symm
            have hr12 : ConnUpTo gates (Function.update a s.level false) (s.level + 1) (s.qroot (g.qubits.getD 0 0)) (s.qroot (g.qubits.getD 1 0)) := by
              rw [hr1, hr2]
              exact Relation.EqvGen.trans _ _ _ (Relation.EqvGen.symm _ _ (up _ _ (toroot _ hq1)))
                (Relation.EqvGen.trans _ _ _ hedge (up _ _ (toroot _ hq2)))
            have hmm : ConnUpTo gates (Function.update a s.level false) (s.level + 1)
                (max (s.qroot (g.qubits.getD 0 0)) (s.qroot (g.qubits.getD 1 0))) (min (s.qroot (g.qubits.getD 0 0)) (s.qroot (g.qubits.getD 1 0))) := by
              rcases le_total (s.qroot (g.qubits.getD 0 0)) (s.qroot (g.qubits.getD 1 0)) with h | h
              · rw [max_eq_right h, min_eq_left h]; exact Relation.EqvGen.symm _ _ hr12
              · rw [max_eq_left h, min_eq_right h]; exact hr12
            refine ⟨by simpa [St.merge] using hl.wm, by simpa [St.merge] using hl.nw, hi', hi2', hc', ?_, ?_, ?_⟩
            · intro w1 w2 hw1 hw2 heq
              rw [hroot w1, hroot w2] at heq
              have t1 := up _ _ (toroot w1 hw1)
              have t2 := up _ _ (toroot w2 hw2)
              by_cases c1 : rootL s.root w1 = max (s.qroot (g.qubits.getD 0 0)) (s.qroot (g.qubits.getD 1 0)) <;>
                by_cases c2 : rootL s.root w2 = max (s.qroot (g.qubits.getD 0 0)) (s.qroot (g.qubits.getD 1 0))
              · exact Relation.EqvGen.trans _ _ _ t1 (by rw [c1, ← c2]; exact Relation.EqvGen.symm _ _ t2)
              · simp only [c1, c2, if_true, if_false] at heq
                exact Relation.EqvGen.trans _ _ _ t1 (by rw [c1]; exact Relation.EqvGen.trans _ _ _ hmm (by rw [heq]; exact Relation.EqvGen.symm _ _ t2))
              · simp only [c1, c2, if_true, if_false] at heq
                exact Relation.EqvGen.trans _ _ _ t1 (by rw [heq]; exact Relation.EqvGen.trans _ _ _ (Relation.EqvGen.symm _ _ hmm) (by rw [← c2]; exact Relation.EqvGen.symm _ _ t2))
              · simp only [c1, c2, if_false] at heq
                exact Relation.EqvGen.trans _ _ _ t1 (by rw [heq]; exact Relation.EqvGen.symm _ _ t2)
            · intro w1 w2 h
              induction h with
              | rel x y hxy =>
                obtain ⟨i, g', hi, hg', ha', rfl, rfl⟩ := hxy
                have hi : i < s.level + 1 := hi
                rw [hroot, hroot]
                by_cases him : i = s.level
                · subst him
                  rw [hg] at hg'
                  injection hg' with hg'
                  subst hg'
                  rw [← hr1, ← hr2]
                  rcases le_total (s.qroot (g.qubits.getD 0 0)) (s.qroot (g.qubits.getD 1 0)) with h | h
                  · rw [max_eq_right h, min_eq_left h]
                    have : s.qroot (g.qubits.getD 0 0) ≠ s.qroot (g.qubits.getD 1 0) := hne
                    simp [this]
                  · rw [max_eq_left h, min_eq_right h]
                    have : s.qroot (g.qubits.getD 1 0) ≠ s.qroot (g.qubits.getD 0 0) := fun e => hne e.symm
                    simp [this]
                · have hlt : i < s.level := by omega
                  have hold : rootL s.root (g'.qubits.getD 0 0) = rootL s.root (g'.qubits.getD 1 0) :=
                    hl.bwd _ _ (Relation.EqvGen.rel _ _ ⟨i, g', hlt, hg', by rw [← hagree i hlt]; exact ha', rfl, rfl⟩)
                  rw [hold]
              | refl x => rfl
              | symm x y _ ih => exact ih.symm
              | trans x y z _ _ ih1 ih2 => exact ih1.trans ih2
            · show s.gammaUB = C08Spec.cost ((gates.map toG).take (s.level + 1)) _
              rw [cost_take_succ (gates.map toG) _ s.level (toG g) hgG, cost_congr _ a _ s.level hagree, ← hl.cost]
              simp
          · rw [hta, appSt_eq s g hne] at hi' hi2' hc' ⊢
            have heqr : rootL s.root (g.qubits.getD 0 0) = rootL s.root (g.qubits.getD 1 0) := by
              rw [← hr1, ← hr2]; exact not_not.mp hne
            refine ⟨hl.wm, hl.nw, hi', hi2', hc', ?_, ?_, ?_⟩
            · intro w1 w2 hw1 hw2 heq
              exact connUpTo_mono gates a _ s.level (s.level + 1) (by omega) hagree _ _ (hl.fwd w1 w2 hw1 hw2 heq)
            · intro w1 w2 h
              show rootL s.root w1 = rootL s.root w2
              induction h with
              | rel x y hxy =>
                obtain ⟨i, g', hi, hg', ha', rfl, rfl⟩ := hxy
                have hi : i < s.level + 1 := hi
                by_cases him : i = s.level
                · subst him
                  rw [hg] at hg'
                  injection hg' with hg'
                  subst hg'
                  exact heqr
                · have hlt : i < s.level := by omega
                  exact hl.bwd _ _ (Relation.EqvGen.rel _ _ ⟨i, g', hlt, hg', by rw [← hagree i hlt]; exact ha', rfl, rfl⟩)
              | refl x => rfl
              | symm x y _ ih => exact ih.symm
              | trans x y z _ _ ih1 ih2 => exact ih1.trans ih2
            · show s.gammaUB = C08Spec.cost ((gates.map toG).take (s.level + 1)) _
              rw [cost_take_succ (gates.map toG) _ s.level (toG g) hgG, cost_congr _ a _ s.level hagree, ← hl.cost]
              simp
    · -- the gate was cut
      have hcg : cfg.gateLO = true ∧ act = cutGate := by
        by_cases hglo : cfg.gateLO = true
        · simp only [hglo, if_true, List.mem_singleton] at hcutm
          exact ⟨hglo, hcutm⟩
        · simp [hglo] at hcutm
      obtain ⟨_, rfl⟩ := hcg
      refine ⟨true, ?_⟩
      unfold cutGate at hat
      cases hγ : g.gamma with
      | none => rw [hγ] at hat; cases hat
      | some γ =>
        rw [hγ] at hat
        simp only at hat
        split at hat
        · cases hat
        · injection hat with hat
          have hta : t = cutSt s g γ := hat.symm
          have hagree : ∀ i, i < s.level → Function.update a s.level true i = a i := fun i hi => Function.update_of_ne (by omega) _ _
          rw [hta] at hi' hi2' hc' ⊢
          refine ⟨hl.wm, hl.nw, hi', hi2', hc', ?_, ?_, ?_⟩
          · intro w1 w2 hw1 hw2 heq
            exact connUpTo_mono gates a _ s.level (s.level + 1) (by omega) hagree _ _ (hl.fwd w1 w2 hw1 hw2 heq)
          · intro w1 w2 h
            show rootL s.root w1 = rootL s.root w2
            induction h with
            | rel x y hxy =>
              obtain ⟨i, g', hi, hg', ha', rfl, rfl⟩ := hxy
              have hi : i < s.level + 1 := hi
              by_cases him : i = s.level
              · subst him
                simp at ha'
              · have hlt : i < s.level := by omega
                exact hl.bwd _ _ (Relation.EqvGen.rel _ _ ⟨i, g', hlt, hg', by rw [← hagree i hlt]; exact ha', rfl, rfl⟩)
            | refl x => rfl
            | symm x y _ ih => exact ih.symm
            | trans x y z _ _ ih1 ih2 => exact ih1.trans ih2
          · show s.gammaUB * γ = C08Spec.cost ((gates.map toG).take (s.level + 1)) _
            rw [cost_take_succ (gates.map toG) _ s.level (toG g) hgG, cost_congr _ a _ s.level hagree, ← hl.cost]
            simp [toG, hγ]

/-- every state of the tree is a plan prefix -/
theorem desc_link (cfg : Settings) (hwl : cfg.wireLO = false) (gates : List Gate) (W n : Nat) (hc : CircOK gates n)
    (s t : St) (hd : Desc (cutFns cfg gates W) s t) : ∀ a, Link2 gates a W n s → ∃ a', Link2 gates a' W n t := by
  induction hd with
  | refl s => exact fun a h => ⟨a, h⟩
  | head s c g hch _ ih =>
    intro a hl
    obtain ⟨ns, hns, hmem⟩ := hch
    obtain ⟨b, hl'⟩ := child_link cfg hwl gates a W n hc s c ns hl hns hmem
    exact ih _ hl'

/-- a goal state that is a plan prefix is a width-feasible plan with the state's cost -/
theorem goal_feasible (gates : List Gate) (a : Nat → Bool) (W n : Nat) (t : St) (hl : Link2 gates a W n t) (hgoal : isGoal gates t = true) :
    (∀ q, q < n → compSize gates a n q ≤ W) ∧ C08Spec.cost (gates.map toG) a = t.gammaUB := by
  have hlev : gates.length ≤ t.level := by simpa [isGoal] using hgoal
  constructor
  · intro q hq
    have hrt : rootL t.root q < t.numWires := by rw [hl.nw]; exact lt_of_le_of_lt (hl.inv2.root_le q) hq
    have e := hl.cnt.size _ hrt (hl.inv2.root_idem q)
    have hw := hl.inv.width_le (rootL t.root q)
    simp only [St.widthOf] at hw
    rw [e, classSize, hl.nw] at hw
    refine le_trans (le_of_eq ?_) hw
    unfold compSize
    apply List.countP_congr
    intro w hwm
    have hwn : w < n := List.mem_range.1 hwm
    simp only [decide_eq_true_eq]
    constructor
    · intro h
      exact (hl.bwd q w ((connUpTo_full gates a t.level hlev q w).2 h)).symm
    · intro h
      exact (connUpTo_full gates a t.level hlev q w).1 (hl.fwd q w hq hwn h.symm)
  · rw [hl.cost, List.take_of_length_le (by rw [List.length_map]; exact hlev)]

theorem greedy_desc (cfg : Settings) (gates : List Gate) (W : Nat) : ∀ (fuel : Nat) (s t : St),
    greedy cfg gates W fuel s = .ok (some t) → Desc (cutFns cfg gates W) s t ∧ isGoal gates t = true
  | 0, s, t, h => by
    unfold greedy at h
    by_cases hg : isGoal gates s = true
    · simp only [hg, if_true] at h
      injection h with h; injection h with h; subst h
      exact ⟨Desc.refl _, hg⟩
    · simp [hg] at h
  | fuel + 1, s, t, h => by
    unfold greedy at h
    by_cases hg : isGoal gates s = true
    · simp only [hg, if_true] at h
      injection h with h; injection h with h; subst h
      exact ⟨Desc.refl _, hg⟩
    · simp only [hg, Bool.false_eq_true, if_false, bind, Except.bind] at h
      cases hns : nextStates cfg gates W s with
      | error e => rw [hns] at h; cases h
      | ok ns =>
        rw [hns] at h
        simp only at h
        cases ham : argminCost ns with
        | none => rw [ham] at h; simp at h
        | some c =>
          rw [ham] at h
          simp only at h
          obtain ⟨hd, hgoal⟩ := greedy_desc cfg gates W fuel c t h
          exact ⟨Desc.head _ _ _ ⟨ns, hns, argminCost_mem ns c ham⟩ hd, hgoal⟩

/-- **the returned state is a plan** (gate cuts only): whatever the limits and the random stream, what `optimize` returns is a
width-feasible plan whose overhead is the reported one -/
theorem optimize_result_is_plan (cfg : Settings) (hwl : cfg.wireLO = false) (gates : List Gate) (n W : Nat) (hW : 1 ≤ W)
    (rnds : List Rat) (fuel : Nat) (r : Result) (hc : CircOK gates n) (h : optimize cfg gates n W rnds fuel = .ok r) :
    ∃ a, (∀ q, q < n → compSize gates a n q ≤ W) ∧ C08Spec.cost (gates.map toG) a = r.best.gammaUB := by
  obtain ⟨g0, hgr, hor, _⟩ := optimize_origin cfg gates n W rnds fuel r hc.nodup hc.ge h
  rcases hor with ⟨hd, hgoal⟩ | hg0
  · obtain ⟨a, hl⟩ := desc_link cfg hwl gates W n hc _ _ hd (fun _ => false) (link2_init gates _ W n _ hW)
    exact ⟨a, goal_feasible gates a W n _ hl hgoal⟩
  · rw [hg0] at hgr
    obtain ⟨hd, hgoal⟩ := greedy_desc cfg gates W _ _ _ hgr
    obtain ⟨a, hl⟩ := desc_link cfg hwl gates W n hc _ _ hd (fun _ => false) (link2_init gates _ W n _ hW)
    exact ⟨a, goal_feasible gates a W n _ hl hgoal⟩

/-- **C08 for gate-cut searches, in full**: if the minimum is reported as reached, the reported overhead is the overhead of a
width-feasible plan, and no width-feasible plan — any choice of gates to cut whose subcircuits have at most `W` qubits — costs less -/
theorem optimize_is_minimum (cfg : Settings) (hlo : cfg.gateLO = true) (hwl : cfg.wireLO = false) (gates : List Gate) (n W : Nat)
    (hW : 1 ≤ W) (rnds : List Rat) (fuel : Nat) (r : Result) (hc : CircOK gates n)
    (h : optimize cfg gates n W rnds fuel = .ok r) (hflag : r.minReached = true) :
    (∃ a, (∀ q, q < n → compSize gates a n q ≤ W) ∧ C08Spec.cost (gates.map toG) a = r.best.gammaUB) ∧
    ∀ a, (∀ q, q < n → compSize gates a n q ≤ W) → r.best.gammaUB ≤ C08Spec.cost (gates.map toG) a :=
  ⟨optimize_result_is_plan cfg hwl gates n W hW rnds fuel r hc h,
   fun a ha => optimize_min_over_gate_plans cfg hlo gates n W hW rnds fuel r hc h hflag a ha⟩

/-- non-vacuity: a concrete gate-cut search (two gates of γ = 3 on three qubits, two qubits per subcircuit) that ends with the flag set
and overhead 3 — the hypotheses `h`, `hflag` of `optimize_is_minimum` are met (`CircOK` for this circuit: see `C08Link`) -/
example : (optimize { maxGamma := 1024, maxBackjumps := none, gateLO := true, wireLO := false } [⟨0, [0, 1], some 3⟩, ⟨1, [1, 2], some 3⟩] 3 2
    [1/2, 1/3, 1/5, 1/7, 1/2, 1/3, 1/5, 1/7] 50).toOption.map (fun r => (r.minReached, r.best.gammaUB)) = some (true, 3) := by
  decide +kernel

end CKT.C08Link
