import CKT.Model.Pauli
import Mathlib.Data.List.Basic
import Mathlib.Data.List.Nodup
/-!
# C17 — restricting and expanding observables is faithful to qubit identity
-/
namespace CKT.C17
open CKT

/-- T17.1 restriction keeps exactly the chosen qubits' letters, in the given order, and drops the phase. -/
theorem restrict_letters (qs : List Nat) (o : PauliStr) :
    (restrict qs o).letters = qs.map (fun q => o.letters.getD q P.I) ∧ (restrict qs o).phase = 0 := ⟨rfl, rfl⟩

theorem restrict_letter_at (qs : List Nat) (o : PauliStr) (k : Nat) (hk : k < qs.length) :
    (restrict qs o).letters[k]? = some (o.letters.getD qs[k] P.I) := by
  simp [restrict, List.getElem?_map, List.getElem?_eq_getElem hk]

/-- the blocks `indicesOf labels l` partition the positions: `i` lies in block `l` iff its label is `l` -/
theorem mem_indicesOf (labels : List Nat) (l i : Nat) :
    i ∈ indicesOf labels l ↔ i < labels.length ∧ labels.getD i 0 = l := by
  simp [indicesOf, List.mem_filter]

theorem indicesOf_nodup (labels : List Nat) (l : Nat) : (indicesOf labels l).Nodup :=
  (List.nodup_range).filter _

theorem label_mem_uniqueLabels (labels : List Nat) (i : Nat) (h : i < labels.length) :
    labels.getD i 0 ∈ uniqueLabels labels := by
  unfold uniqueLabels
  rw [List.mem_eraseDups]
  simp [List.getD_eq_getElem?_getD, List.getElem?_eq_getElem h]

/-- T17.2 the restrictions over the partition recombine to the original string:
every position `i` is found in the block of its own label, at some rank `k`, and the restricted
observable of that block has the original letter at rank `k`. -/
theorem restrictions_recombine (labels : List Nat) (o : PauliStr) (i : Nat) (h : i < labels.length) :
    ∃ k : Nat, (indicesOf labels (labels.getD i 0))[k]? = some i ∧
         (restrict (indicesOf labels (labels.getD i 0)) o).letters[k]? = some (o.letters.getD i P.I) := by
  have hm : i ∈ indicesOf labels (labels.getD i 0) := (mem_indicesOf _ _ _).2 ⟨h, rfl⟩
  obtain ⟨k, hk, hki⟩ := List.mem_iff_getElem.1 hm
  refine ⟨k, by rw [List.getElem?_eq_getElem hk, hki], ?_⟩
  rw [restrict_letter_at _ _ _ hk, hki]

/-- `decompose_observables` returns one entry per distinct label, in order of first occurrence,
holding exactly the restrictions to that label's positions. -/
theorem decomposeObservables_spec (labels : List Nat) (obs : List PauliStr) :
    (decomposeObservables labels obs).map (·.1) = uniqueLabels labels ∧
    ∀ e ∈ decomposeObservables labels obs, e.2 = obs.map (restrict (indicesOf labels e.1)) := by
  constructor
  · simp [decomposeObservables, Function.comp_def]
  · intro e he
    simp only [decomposeObservables, List.mem_map] at he
    obtain ⟨l, _, rfl⟩ := he
    rfl

/-! ### expansion -/

private theorem scatter_length (n : Nat) : ∀ (ml : List (Nat × P)) (acc : List P), acc.length = n →
    (ml.foldl (fun acc ml => acc.set ml.1 ml.2) acc).length = n := by
  intro ml
  induction ml with
  | nil => intro acc h; simpa
  | cons a ml ih => intro acc h; simp only [List.foldl_cons]; exact ih _ (by simpa)

theorem scatterLetters_length (n : Nat) (m : List Nat) (ls : List P) : (scatterLetters n m ls).length = n :=
  scatter_length n _ _ (by simp)

private theorem scatter_get (n : Nat) : ∀ (ml : List (Nat × P)) (acc : List P) (p : Nat),
    (∀ e ∈ ml, e.1 ≠ p) → (ml.foldl (fun acc ml => acc.set ml.1 ml.2) acc)[p]? = acc[p]? := by
  intro ml
  induction ml with
  | nil => intro acc p _; rfl
  | cons a ml ih =>
    intro acc p h
    simp only [List.foldl_cons]
    rw [ih _ p (fun e he => h e (by simp [he]))]
    have : a.1 ≠ p := h a (by simp)
    simp [List.getElem?_set, this]

private theorem scatter_hit (n : Nat) : ∀ (ml : List (Nat × P)) (acc : List P) (i : Nat) (hi : i < ml.length),
    acc.length = n → ml[i].1 < n → (ml.map (·.1)).Nodup →
    (ml.foldl (fun acc ml => acc.set ml.1 ml.2) acc)[ml[i].1]? = some ml[i].2 := by
  intro ml
  induction ml with
  | nil => intro acc i hi; simp at hi
  | cons a ml ih =>
    intro acc i hi hlen hlt hnd
    simp only [List.map_cons, List.nodup_cons] at hnd
    cases i with
    | zero =>
      simp only [List.foldl_cons, List.getElem_cons_zero]
      rw [scatter_get n ml _ a.1 (fun e he hc => hnd.1 (by rw [← hc]; exact List.mem_map_of_mem he))]
      simp only [List.getElem_cons_zero] at hlt
      simp [List.getElem?_set, hlen, hlt]
    | succ j =>
      simp only [List.foldl_cons, List.getElem_cons_succ]
      exact ih _ j (by simpa using hi) (by simpa) (by simpa using hlt) hnd.2

/-- T17.3 (hit): the letter of original qubit `i` lands at the position of the same qubit object. -/
theorem scatterLetters_at_mapping (n : Nat) (m : List Nat) (ls : List P) (i : Nat)
    (hm : m.Nodup) (hlen : m.length = ls.length) (hi : i < m.length) (hlt : m[i] < n) :
    (scatterLetters n m ls)[m[i]]? = some (ls[i]'(hlen ▸ hi)) := by
  unfold scatterLetters
  have hz : i < (m.zip ls).length := by simp [List.length_zip, hlen]; omega
  have h1 : (m.zip ls)[i] = (m[i], ls[i]'(hlen ▸ hi)) := by simp
  have hnd : ((m.zip ls).map (·.1)).Nodup := by
    rw [List.map_fst_zip (by omega)]; exact hm
  have := scatter_hit n (m.zip ls) (List.replicate n P.I) i hz (by simp) (by rw [h1]; exact hlt) hnd
  rw [h1] at this
  exact this

/-- T17.3 (miss): every position that is not the image of an original qubit carries the identity. -/
theorem scatterLetters_elsewhere (n : Nat) (m : List Nat) (ls : List P) (p : Nat) (hp : p < n) (hnot : p ∉ m) :
    (scatterLetters n m ls)[p]? = some P.I := by
  unfold scatterLetters
  rw [scatter_get n _ _ p]
  · simp [List.getElem?_replicate, hp]
  · intro e he hc
    have := (List.of_mem_zip he).1
    exact hnot (hc ▸ this)

/-- `find_bit` returns the position of the same qubit object -/
theorem findBit_some (final : List Nat) (q i : Nat) (h : findBit final q = some i) :
    i < final.length ∧ final[i]? = some q := by
  unfold findBit at h
  simp only at h
  split at h
  · rename_i hlt
    injection h with h; subst h
    exact ⟨hlt, by rw [List.getElem?_eq_getElem hlt]; simp [List.getElem_idxOf]⟩
  · cases h

/-- T17.3/T17.4 as a whole: `expand_observables` either refuses (count mismatch, qubit missing) or returns,
for every observable, a string of the final circuit's width with the phase kept. -/
theorem expandObservables_ok (obs : List PauliStr) (k : Nat) (orig final : List Nat) (out : List PauliStr)
    (h : expandObservables obs k orig final = .ok out) :
    k = orig.length ∧ ∃ m, expandMapping orig final = some m ∧
      out = obs.map (fun o => { letters := scatterLetters final.length m o.letters, phase := o.phase }) := by
  unfold expandObservables at h
  split at h
  · cases h
  · rename_i hk
    have hk' : k = orig.length := by simpa using hk
    split at h
    · cases h
    · rename_i m hm
      injection h with h
      exact ⟨hk', m, hm, h.symm⟩

theorem expandObservables_refuses_count (obs : List PauliStr) (k : Nat) (orig final : List Nat) (h : k ≠ orig.length) :
    ∃ e, expandObservables obs k orig final = .error (.value e) := by
  unfold expandObservables; simp [h]

/-- the mapping used by expansion sends original qubit `i` to the position of the same qubit object -/
theorem expandMapping_spec : ∀ (orig final m : List Nat), expandMapping orig final = some m →
    m.length = orig.length ∧ ∀ i (h : i < orig.length) (h' : i < m.length), findBit final orig[i] = some m[i] := by
  intro orig
  induction orig with
  | nil => intro final m h; simp [expandMapping] at h; subst h; simp
  | cons q qs ih =>
    intro final m h
    simp only [expandMapping] at h
    cases hq : findBit final q with
    | none => simp [hq] at h
    | some a =>
      cases hr : expandMapping qs final with
      | none => simp [hq, hr] at h
      | some r =>
        simp only [hq, hr, Option.some.injEq] at h
        subst h
        obtain ⟨h1, h2⟩ := ih final r hr
        refine ⟨by simp [h1], ?_⟩
        intro i hi hi'
        cases i with
        | zero => simpa using hq
        | succ j => simpa using h2 j (by simpa using hi) (by simpa using hi')

theorem expandObservables_refuses_missing (obs : List PauliStr) (orig final : List Nat)
    (q : Nat) (hq : q ∈ orig) (hnot : q ∉ final) :
    ∃ e, expandObservables obs orig.length orig final = .error (.value e) := by
  unfold expandObservables
  have hfb : findBit final q = none := by
    unfold findBit
    simp only
    split
    · rename_i hlt; exact absurd (List.idxOf_lt_length_iff.mp hlt) hnot
    · rfl
  have : expandMapping orig final = none := by
    induction orig with
    | nil => cases hq
    | cons a qs ih =>
      simp only [expandMapping]
      rcases List.mem_cons.1 hq with rfl | hq'
      · simp [hfb]
      · rw [ih hq']; cases findBit final a <;> rfl
  simp [this]

/-- non-vacuity: a concrete two-block partition and a 3-qubit observable -/
example : decomposeObservables [5, 7, 5] [{ letters := [P.X, P.Y, P.Z], phase := 3 }]
    = [(5, [{ letters := [P.X, P.Z], phase := 0 }]), (7, [{ letters := [P.Y], phase := 0 }])] := by decide

example : expandObservables [{ letters := [P.X, P.Z], phase := 1 }] 2 [10, 11] [11, 99, 10]
    = .ok [{ letters := [P.Z, P.I, P.X], phase := 1 }] := by decide

end CKT.C17
