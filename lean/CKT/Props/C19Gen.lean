import CKT.Props.C19PTM
import CKT.Props.C12Gen
/-!
# C19 — the reset optimisations the C19 theorems are about are the translated source

`C12Gen.passes_translated` / `optimizeResets_translated`: the model passes `removeInitialResets`, `removeFinalResets`, `consolidateResets` are what
`harness/translate/resets.py` reads off `cutting_experiments.py` on every run.
-/
namespace CKT.C19Gen
open CKT CKT.Generated

/-- the pipeline of `generate_cutting_experiments`, in terms of the translated scans -/
theorem optimizeResets_translated (nq : Nat) (l : List Instr) :
    optimizeResets nq l = scan consolidateSpec nq (scan removeFinalSpec nq (scan removeInitialSpec nq l)) :=
  C12Gen.optimizeResets_translated nq l

end CKT.C19Gen
