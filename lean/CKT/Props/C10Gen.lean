import CKT.Generated.PartitionDecision
import CKT.Props.C10PTM
/-!
# C10 — the per-instruction decision of the model's `partition_circuit_qubits` is the translated source

`CKT.Generated.partitionDecision` is produced on every run from the loop of `partition_circuit_qubits` (Python AST → a Lean decision function).
For every instruction the model's `partitionCircuitQubitsGo` — which the C10 (and C18) theorems are about — skips, refuses, keeps or wraps exactly
as that function says.
-/
namespace CKT.C10Gen
open CKT CKT.Generated

/-- the decision of the translated source for instruction `i` under the labelling `labels` -/
def decision (labels : List Label) (i : Instr) : Decision :=
  partitionDecision i.qubits.length (uniq (i.qubits.map (fun q => labels.getD q none))).length (isBarrier i) (i.name == "qpd_2q")

theorem decision_logic (b k : Bool) (nq np : Nat) :
    (partitionDecision nq np b k = .skip ↔ (!b && decide (nq > 1) && (np != 1)) = false) ∧
    ((!b && decide (nq > 1) && (np != 1)) = true →
      partitionDecision nq np b k = if nq > 2 then .refuse else if k then .keep else .cut) := by
  unfold partitionDecision
  cases b <;> cases k <;> by_cases h1 : nq ≤ 1 <;> by_cases h2 : np = 1 <;> by_cases h3 : nq > 2 <;> simp [h1, h2, h3] <;> omega

/-- the translated decision is "skip" exactly when the model says the instruction does not span a cut -/
theorem skip_iff (labels : List Label) (i : Instr) : decision labels i = .skip ↔ spansCut labels i = false :=
  (decision_logic (isBarrier i) (i.name == "qpd_2q") i.qubits.length (uniq (i.qubits.map (fun q => labels.getD q none))).length).1

theorem decision_of_spans (labels : List Label) (i : Instr) (h : spansCut labels i = true) :
    decision labels i = if i.qubits.length > 2 then .refuse else if (i.name == "qpd_2q") then .keep else .cut :=
  (decision_logic (isBarrier i) (i.name == "qpd_2q") i.qubits.length (uniq (i.qubits.map (fun q => labels.getD q none))).length).2 h

/-- **one step of the model takes the translated decision** -/
theorem go_translated (o : CutOracle) (labels : List Label) (i : Instr) (rest : List Instr) (nb : Nat) :
    partitionCircuitQubitsGo o labels (i :: rest) nb =
      match decision labels i with
      | .skip | .keep => (match partitionCircuitQubitsGo o labels rest nb with
          | .ok r => .ok (i :: r)
          | .error e => .error e)
      | .refuse => .error (.value "decomposition only supported for two-qubit gates")
      | .cut =>
        if !o.supported i then .error (.value "instruction not supported")
        else match partitionCircuitQubitsGo o labels rest (nb + 1) with
          | .ok r => .ok ({ name := "qpd_2q", qubits := i.qubits, label := some ("cut_" ++ i.name), basis := some nb, params := [] } :: r)
          | .error e => .error e := by
  by_cases hs : spansCut labels i = true
  · rw [decision_of_spans labels i hs]
    conv_lhs => unfold partitionCircuitQubitsGo
    simp only [hs, if_true, partitionCircuitQubitsGo.isQpd2']
    by_cases h3 : i.qubits.length > 2
    · simp only [h3, if_true]
    · by_cases h4 : (i.name == "qpd_2q") = true
      · simp only [h3, h4, if_true, if_false]
        cases partitionCircuitQubitsGo o labels rest nb <;> rfl
      · simp only [h3, h4, if_false, Bool.false_eq_true]
        by_cases h5 : (!o.supported i) = true
        · simp only [h5, if_true]
        · simp only [h5, if_false]
          cases partitionCircuitQubitsGo o labels rest (nb + 1) <;> rfl
  · have hs' : spansCut labels i = false := by simpa using hs
    rw [(skip_iff labels i).2 hs']
    conv_lhs => unfold partitionCircuitQubitsGo
    simp only [hs', Bool.false_eq_true, if_false]
    cases partitionCircuitQubitsGo o labels rest nb <;> rfl

end CKT.C10Gen
