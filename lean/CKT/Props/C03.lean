import CKT.Model.WireCut
import Mathlib.Data.List.Basic
import Mathlib.Data.List.Range
import Mathlib.Algebra.BigOperators.Group.List.Basic
/-!
# C03 — wire-cut markers → Moves: structure
(semantic preservation with Move = reset;swap is `CKT.Props.C03Sem`)
-/
namespace CKT.C03
open CKT

/-- all markers sit on existing qubits -/
def MarkersInRange (nq : Nat) (l : List Instr) : Prop := ∀ i ∈ l, isCutWire i = true → i.qubits.headD 0 < nq

private theorem sum_indicator_range (n q0 : Nat) (h : q0 < n) :
    ((List.range n).map (fun q => if q0 = q then 1 else 0)).sum = 1 := by
  induction n with
  | zero => omega
  | succ n ih =>
    rw [List.range_succ, List.map_append, List.sum_append]
    by_cases hq : q0 = n
    · subst hq
      have : ((List.range q0).map (fun q => if q0 = q then 1 else 0)).sum = 0 := by
        apply List.sum_eq_zero
        intro x hx
        simp only [List.mem_map, List.mem_range] at hx
        obtain ⟨q, hq, rfl⟩ := hx
        have : q0 ≠ q := by omega
        simp [this]
      simp [this]
    · have := ih (by omega)
      simp [this, hq]

theorem markerFreq_cons (i : Instr) (l : List Instr) (q : Nat) :
    markerFreq (i :: l) q = (if isCutWire i && i.qubits.headD 0 == q then 1 else 0) + markerFreq l q := by
  simp only [markerFreq, List.filter_cons]
  split <;> simp <;> omega

/-- Σ_q freq q = number of markers -/
theorem sum_markerFreq (nq : Nat) : ∀ (l : List Instr), MarkersInRange nq l →
    ((List.range nq).map (markerFreq l)).sum = (l.filter isCutWire).length := by
  intro l
  induction l with
  | nil =>
    intro _
    have : (List.range nq).map (markerFreq []) = (List.range nq).map (fun _ => 0) :=
      List.map_congr_left (fun q _ => by simp [markerFreq])
    rw [this]; simp
  | cons i rest ih =>
    intro h
    have hrest : MarkersInRange nq rest := fun j hj => h j (List.mem_cons_of_mem _ hj)
    have : (List.range nq).map (markerFreq (i :: rest)) =
        (List.range nq).map (fun q => (if isCutWire i && i.qubits.headD 0 == q then 1 else 0) + markerFreq rest q) := by
      apply List.map_congr_left; intro q _; exact markerFreq_cons i rest q
    rw [this, List.sum_map_add, ih hrest, List.filter_cons]
    by_cases hc : isCutWire i = true
    · have hlt := h i (by simp) hc
      have : (List.range nq).map (fun q => if (isCutWire i && i.qubits.headD 0 == q) = true then 1 else 0)
          = (List.range nq).map (fun q => if i.qubits.headD 0 = q then 1 else 0) := by
        apply List.map_congr_left; intro q _; simp [hc]
      rw [this, sum_indicator_range nq _ hlt]
      simp [hc]; omega
    · have hc' : isCutWire i = false := by simpa using hc
      simp [hc']

theorem layout_succ (n : Nat) (l : List Instr) :
    layout (n + 1) l = layout n l ++ (List.replicate (markerFreq l n) none ++ [some n]) := by
  simp [layout, List.range_succ, List.flatMap_append]

theorem layout_length (n : Nat) (l : List Instr) : (layout n l).length = basePos l n := by
  induction n with
  | zero => simp [layout, basePos, freshBefore]
  | succ n ih =>
    rw [layout_succ, List.length_append, ih]
    simp [basePos, freshBefore, List.range_succ]; omega

/-- **T03.1 (width)** the new circuit has exactly one additional qubit per marker -/
theorem width_eq (nq : Nat) (l : List Instr) (h : MarkersInRange nq l) :
    (layout nq l).length = nq + (l.filter isCutWire).length := by
  rw [layout_length, basePos, freshBefore, sum_markerFreq nq l h]

/-- **T03.1 (qubit objects)** original qubit object `i` sits at `finalPos i`; every other position is fresh -/
theorem layout_at_finalPos (nq : Nat) (l : List Instr) (i : Nat) (hi : i < nq) :
    (layout nq l)[finalPos l i]? = some (some i) := by
  induction nq with
  | zero => omega
  | succ n ih =>
    rw [layout_succ]
    by_cases h : i = n
    · subst h
      rw [List.getElem?_append_right (by rw [layout_length]; simp [finalPos])]
      rw [layout_length]
      simp [finalPos, List.getElem?_append_right]
    · have hlt : finalPos l i < (layout n l).length := by
        have := ih (by omega)
        by_contra hc
        rw [List.getElem?_eq_none (by omega)] at this
        cases this
      rw [List.getElem?_append_left hlt]
      exact ih (by omega)

theorem layout_only_finalPos (nq : Nat) (l : List Instr) (p i : Nat) (h : (layout nq l)[p]? = some (some i)) :
    i < nq ∧ p = finalPos l i := by
  induction nq with
  | zero => simp [layout] at h
  | succ n ih =>
    rw [layout_succ] at h
    by_cases hp : p < (layout n l).length
    · rw [List.getElem?_append_left hp] at h
      have := ih h
      exact ⟨by omega, this.2⟩
    · rw [List.getElem?_append_right (by omega), layout_length] at h
      have hp' : basePos l n ≤ p := by rw [← layout_length]; omega
      by_cases hk : p - basePos l n < markerFreq l n
      · rw [List.getElem?_append_left (by simpa using hk)] at h
        simp [List.getElem?_replicate, hk] at h
      · rw [List.getElem?_append_right (by simpa using hk)] at h
        simp only [List.length_replicate] at h
        have : p - basePos l n - markerFreq l n = 0 := by
          by_contra hc
          rw [List.getElem?_eq_none (by simp; omega)] at h
          cases h
        rw [this] at h
        simp at h
        subst h
        exact ⟨by omega, by simp [finalPos]; omega⟩

/-- consecutive logical qubits occupy adjacent, disjoint position ranges `[basePos i, finalPos i]` -/
theorem basePos_succ (l : List Instr) (i : Nat) : basePos l (i + 1) = finalPos l i + 1 := by
  simp [basePos, finalPos, freshBefore, List.range_succ]; omega

theorem basePos_mono (l : List Instr) : ∀ (i j : Nat), i < j → finalPos l i < basePos l j := by
  intro i j h
  induction j with
  | zero => omega
  | succ j ih =>
    rw [basePos_succ]
    by_cases hij : i = j
    · subst hij; omega
    · have := ih (by omega)
      simp [finalPos] at *; omega

/-! ## the instruction loop in closed form -/

/-- where logical qubit `q` lives after the prefix `pre` has been processed -/
def posAfter (all pre : List Instr) (q : Nat) : Nat := basePos all q + markerFreq pre q

/-- what instruction `i` becomes when it is met after prefix `pre`; `k` = number of markers in `pre` -/
def closedForm (wrap : Bool) (all pre : List Instr) (nb : Nat) (i : Instr) : Instr :=
  if isCutWire i then
    let p := posAfter all pre (i.qubits.headD 0)
    if wrap then { name := "qpd_2q", qubits := [p, p + 1], label := some "cut_move", basis := some (nb + (pre.filter isCutWire).length) }
    else { name := "move", qubits := [p, p + 1] }
  else { i with qubits := i.qubits.map (posAfter all pre) }

def QubitsInRange (nq : Nat) (l : List Instr) : Prop := ∀ i ∈ l, ∀ q ∈ i.qubits, q < nq

private theorem markerFreq_append_single (pre : List Instr) (i : Instr) (q : Nat) :
    markerFreq (pre ++ [i]) q = markerFreq pre q + (if isCutWire i && i.qubits.headD 0 == q then 1 else 0) := by
  simp only [markerFreq, List.filter_append, List.length_append, List.filter_cons, List.filter_nil]
  split <;> simp

private theorem mappingAfter_getD (all pre : List Instr) (nq q : Nat) (hq : q < nq) :
    (mappingAfter all pre nq).getD q 0 = posAfter all pre q := by
  simp [mappingAfter, posAfter, List.getD_eq_getElem?_getD, List.getElem?_map, List.getElem?_range hq]

/-- **T03.1 (instructions)** the stateful loop equals the closed form: the `j`-th output instruction depends only on
the `j`-th input instruction and on how many markers each qubit has seen before it. -/
theorem transformGo_closed (wrap : Bool) (all : List Instr) (nq : Nat) :
    ∀ (suf pre : List Instr) (nb : Nat), all = pre ++ suf → QubitsInRange nq suf → MarkersInRange nq suf →
      (∀ i ∈ suf, isCutWire i = true → i.qubits ≠ []) →
      transformGo wrap suf (mappingAfter all pre nq) (nb + (pre.filter isCutWire).length) =
        (List.range suf.length).map (fun j => closedForm wrap all (pre ++ suf.take j) nb (suf.getD j default)) := by
  intro suf
  induction suf with
  | nil => intro pre nb _ _ _ _; simp [transformGo]
  | cons i rest ih =>
    intro pre nb hall hq hm hne
    have hall' : all = (pre ++ [i]) ++ rest := by simp [hall]
    have hq' : QubitsInRange nq rest := fun j hj => hq j (List.mem_cons_of_mem _ hj)
    have hm' : MarkersInRange nq rest := fun j hj => hm j (List.mem_cons_of_mem _ hj)
    have hne' : ∀ j ∈ rest, isCutWire j = true → j.qubits ≠ [] := fun j hj => hne j (List.mem_cons_of_mem _ hj)
    have hrange : List.range (i :: rest).length = 0 :: (List.range rest.length).map (· + 1) := by
      simp [List.range_succ_eq_map]
    rw [hrange, List.map_cons, List.map_map]
    have htail : ∀ (m : List Nat) (k : Nat), m = mappingAfter all (pre ++ [i]) nq → k = nb + ((pre ++ [i]).filter isCutWire).length →
        transformGo wrap rest m k =
          (List.range rest.length).map ((fun j => closedForm wrap all (pre ++ (i :: rest).take j) nb ((i :: rest).getD j default)) ∘ (· + 1)) := by
      intro m k hm1 hk
      rw [hm1, hk, ih (pre ++ [i]) nb hall' hq' hm' hne']
      apply List.map_congr_left
      intro j _
      simp [List.take_succ_cons, List.append_assoc]
    by_cases hc : isCutWire i = true
    · have hlt := hm i (by simp) hc
      simp only [transformGo, hc, if_true]
      rw [mappingAfter_getD all pre nq _ hlt]
      congr 1
      · simp [closedForm, hc]
      · apply htail
        · -- mapping update
          apply List.ext_getElem
          · simp [mappingAfter]
          · intro n h1 h2
            have hn : n < nq := by simpa [mappingAfter] using h2
            simp only [mappingAfter, List.getElem_set, List.getElem_map, List.getElem_range, List.length_map, List.length_range]
            rw [markerFreq_append_single]
            generalize i.qubits.headD 0 = q0
            by_cases hnq : q0 = n
            · subst hnq; simp [hc, posAfter]; omega
            · simp [hnq, hc]
        · simp [List.filter_append, hc]; omega
    · have hc' : isCutWire i = false := by simpa using hc
      simp only [transformGo, hc', Bool.false_eq_true, if_false]
      congr 1
      · simp only [closedForm, hc', Bool.false_eq_true, if_false, List.take_zero, List.append_nil, List.getD_cons_zero]
        congr 1
        apply List.map_congr_left
        intro q hqm
        exact mappingAfter_getD all pre nq q (hq i (by simp) q hqm)
      · apply htail
        · apply List.ext_getElem
          · simp [mappingAfter]
          · intro n h1 h2
            simp only [mappingAfter, List.getElem_map, List.getElem_range]
            rw [markerFreq_append_single]; simp [hc']
        · simp [List.filter_append, hc']

/-- positions used for a logical qubit always stay inside its own range, so two logical qubits never collide
(the defect fixed by D1 violated exactly this) -/
theorem posAfter_in_range (all pre suf : List Instr) (h : all = pre ++ suf) (q : Nat) :
    basePos all q ≤ posAfter all pre q ∧ posAfter all pre q ≤ finalPos all q := by
  subst h
  simp only [posAfter, finalPos, markerFreq, List.filter_append, List.length_append]
  omega

theorem posAfter_injective (all pre suf : List Instr) (h : all = pre ++ suf) (q q' : Nat) (hne : q ≠ q') :
    posAfter all pre q ≠ posAfter all pre q' := by
  have h1 := posAfter_in_range all pre suf h q
  have h2 := posAfter_in_range all pre suf h q'
  rcases Nat.lt_or_gt_of_ne hne with hlt | hlt
  · have := basePos_mono all q q' hlt; omega
  · have := basePos_mono all q' q hlt; omega

/-- a marker met after `pre` moves the state to the next position, which is still inside the qubit's range -/
theorem move_target_in_range (all pre suf : List Instr) (i : Instr) (h : all = pre ++ i :: suf) (hc : isCutWire i = true) :
    posAfter all pre (i.qubits.headD 0) + 1 ≤ finalPos all (i.qubits.headD 0) := by
  subst h
  simp only [posAfter, finalPos, markerFreq, List.filter_append, List.length_append, List.filter_cons, hc]
  simp; omega

/-! non-vacuity: the D1 input (markers on one qubit interleaved with a marker on another) -/
private def d1 : List Instr := [
  { name := "h", qubits := [0] }, { name := "cut_wire", qubits := [0] }, { name := "cx", qubits := [0, 1] },
  { name := "cut_wire", qubits := [1] }, { name := "cx", qubits := [0, 1] }, { name := "cut_wire", qubits := [0] },
  { name := "h", qubits := [0] } ]

example : (layout 2 d1).length = 5 ∧ layout 2 d1 = [none, none, some 0, none, some 1] := by decide
example : (transformGo false d1 ((List.range 2).map (basePos d1)) 0).map (fun i => (i.name, i.qubits)) =
    [("h", [0]), ("move", [0, 1]), ("cx", [1, 3]), ("move", [3, 4]), ("cx", [1, 4]), ("move", [1, 2]), ("h", [2])] := by decide
example : MarkersInRange 2 d1 := by
  intro i hi hc; simp [d1] at hi
  rcases hi with rfl | rfl | rfl | rfl | rfl | rfl | rfl <;> simp_all [isCutWire]

end CKT.C03
