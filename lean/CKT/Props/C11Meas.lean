import CKT.Props.C11
namespace CKT.C11
open CKT

/-- what is appended for the `j`-th measured qubit `i` of the group -/
def measBlock (general : PauliStr) (loc : Nat → Nat) (base : Nat) (i j : Nat) : List Instr :=
  (match general.letters.getD i P.I with
    | P.X => [({ name := "h", qubits := [loc i] } : Instr)]
    | P.Y => [{ name := "sx", qubits := [loc i] }]
    | _ => []) ++ [{ name := "measure", qubits := [loc i], clbits := [base + j] }]

theorem measurementInstrs_eq (general : PauliStr) (indices : List Nat) (loc : Nat → Nat) (base : Nat) :
    measurementInstrs general indices loc base =
      ((measuredIndices indices).zipIdx).flatMap (fun sq => measBlock general loc base sq.1 sq.2) := rfl

/-- every block ends with the measurement of its qubit into its own bit; whatever precedes it in the block is one basis rotation
on that same qubit (`h` for X, `sx` for Y, nothing for Z / I) -/
theorem measBlock_spec (general : PauliStr) (loc : Nat → Nat) (base i j : Nat) :
    ∃ rot, measBlock general loc base i j = rot ++ [{ name := "measure", qubits := [loc i], clbits := [base + j] }] ∧
      (∀ r ∈ rot, r.qubits = [loc i] ∧ r.clbits = []) ∧
      ((general.letters.getD i P.I = P.X → rot.map (·.name) = ["h"]) ∧ (general.letters.getD i P.I = P.Y → rot.map (·.name) = ["sx"]) ∧
       (general.letters.getD i P.I ≠ P.X → general.letters.getD i P.I ≠ P.Y → rot = [])) := by
  unfold measBlock
  cases h : general.letters.getD i P.I <;> simp

/-- one measurement per measured index, writing consecutive bits of the observable register in the order of the indices -/
theorem measurementInstrs_measures (general : PauliStr) (indices : List Nat) (loc : Nat → Nat) (base : Nat) :
    ((measurementInstrs general indices loc base).filter (fun i => i.name == "measure")).map (fun i => (i.qubits, i.clbits)) =
      ((measuredIndices indices).zipIdx).map (fun sq => ([loc sq.1], [base + sq.2])) := by
  rw [measurementInstrs_eq]
  generalize (measuredIndices indices).zipIdx = l
  induction l with
  | nil => rfl
  | cons sq l ih =>
    simp only [List.flatMap_cons, List.filter_append, List.map_append, ih, List.map_cons]
    congr 1
    unfold measBlock
    cases general.letters.getD sq.1 P.I <;> simp

/-- with the identity map as `qubit_locations` the explicit form is the default form -/
theorem appendMeasurementLoc_identity (c : Circuit) (general : PauliStr) (indices : List Nat)
    (h : c.nq = general.letters.length) (hidx : ∀ i ∈ measuredIndices indices, i < c.nq) :
    appendMeasurementLoc c general indices (some (List.range c.nq)) = appendMeasurement c general indices := by
  unfold appendMeasurementLoc appendMeasurement
  simp only [List.length_range, h, bne_self_eq_false, Bool.false_eq_true, if_false]
  congr 2
  rw [measurementInstrs_eq, measurementInstrs_eq]
  congr 1
  apply List.flatMap_congr
  intro sq hsq
  have hlt : sq.1 < general.letters.length := by
    rw [← h]; exact hidx sq.1 (List.fst_mem_of_mem_zipIdx (x := sq) hsq)
  have : (List.range general.letters.length)[sq.1]?.getD 0 = sq.1 := by
    simp [List.getElem?_range hlt]
  unfold measBlock
  simp [List.getD_eq_getElem?_getD, this]

end CKT.C11
