import CKT.Generated.Outcome
import CKT.Props.C06Sem
/-!
# C06 — the outcome arithmetic of the model is the translated source

`CKT.Generated.processOutcome` is produced on every run from `_process_outcome` / `_process_outcome_v2` in `cutting_reconstruction.py`
(Python AST → Lean expressions over `Nat` / `Int`).  The hand-written model functions the C06 theorems are about are exactly this code.
-/
namespace CKT.C06Gen
open CKT

theorem processOutcomeV2_translated (c : Cog) (obs qpd : Nat) :
    processOutcomeV2 c obs qpd = Generated.processOutcomeV2 c.masks obs qpd := by
  simp only [processOutcomeV2, Generated.processOutcomeV2, Generated.entry, Generated.qpdFactor, Generated.obsSign, paritySign]

/-- **the model's `_process_outcome` is the translated source** -/
theorem processOutcome_translated (c : Cog) (outcome : Nat) :
    processOutcome c outcome = Generated.processOutcome c.masks c.numMeasBits outcome := by
  simp only [processOutcome, Generated.processOutcome, Generated.obsOutcomes, Generated.qpdOutcomes, processOutcomeV2_translated]

end CKT.C06Gen
