import CKT.Proofs.Channel
import CKT.Proofs.C02CheckA
import CKT.Proofs.C02CheckB
import CKT.Proofs.C02CheckC
import CKT.Proofs.C02CheckD
import CKT.Proofs.C02CheckE
import CKT.Proofs.C02CheckF
import CKT.Proofs.C02CheckG
import Mathlib.Analysis.SpecialFunctions.Trigonometric.Basic
import Mathlib.LinearAlgebra.Matrix.Kronecker
/-!
# C02 — every quasi-probability basis is an exact decomposition of its instruction

`ExactAt ρ target b` (see `CKT/Proofs/Channel.lean`) says, over the real numbers: for all Pauli indices
`a, c < 16`, the two-qubit transfer matrix `¼ Σₖ sₖ Tr(P_a Kₖ P_c Kₖ†)` of the target channel equals
`Σᵢ cᵢ · PTM(Aᵢ)[a₀][c₀] · PTM(Bᵢ)[a₁][c₁]`, where `Aᵢ, Bᵢ` are the two one-qubit operation sequences of map `i`
(measurement marker = `+Π₀, −Π₁`, reset = reset channel) and `cᵢ` its coefficient — with every symbolic entry
evaluated at the environment `ρ`.  Equality of transfer matrices is equality of the linear maps on density
operators, because the Pauli products are a basis.

The theorems below hold for **every** real angle (`exact_rxx … exact_cp`), for the fixed gates, for the Move, and
for the 58-row table at **every** complex vector `u` (`exact_kak`: no constraint on `u` is needed).
-/
namespace CKT.C02
open CKT Real

/-- the environment of an angle θ' (`x0 = cos θ'`, `x1 = sin θ'`, `x2 = √2/2`) -/
noncomputable def envAngle (t : ℝ) : Nat → ℝ := fun i =>
  if i = 0 then cos t else if i = 1 then sin t else if i = 2 then √2 / 2 else 0

/-- the environment of a vector `u ∈ ℂ⁴` given by real and imaginary parts (`x_{3+2k} = Re u_k`, `x_{4+2k} = Im u_k`) -/
noncomputable def envU (re im : Fin 4 → ℝ) : Nat → ℝ := fun i =>
  if i = 0 then 1 else if i = 1 then 0 else if i = 2 then √2 / 2
  else if i = 3 then re 0 else if i = 4 then im 0 else if i = 5 then re 1 else if i = 6 then im 1
  else if i = 7 then re 2 else if i = 8 then im 2 else if i = 9 then re 3 else if i = 10 then im 3 else 0

theorem half_sqrt_two_sq : (√2 / 2 : ℝ) ^ 2 = 1 / 2 := by
  rw [div_pow, Real.sq_sqrt (by norm_num : (0:ℝ) ≤ 2)]; norm_num

theorem sat_angle (t : ℝ) : Poly.Sat (envAngle t) stdRules := by
  intro r hr
  simp only [stdRules, List.mem_cons, List.not_mem_nil, or_false] at hr
  rcases hr with rfl | rfl
  · simp only [pc, Poly.eval_const]
    show (envAngle t 2) ^ 2 = _
    simp only [envAngle]; norm_num [half_sqrt_two_sq]
  · simp only [Poly.eval_sub, Poly.eval_mul, pc, Poly.eval_const, X0, pv, Poly.eval_var]
    show (envAngle t 1) ^ 2 = _
    simp only [envAngle]
    norm_num
    nlinarith [Real.sin_sq_add_cos_sq t]

theorem sat_u (re im : Fin 4 → ℝ) : Poly.Sat (envU re im) stdRules := by
  intro r hr
  simp only [stdRules, List.mem_cons, List.not_mem_nil, or_false] at hr
  rcases hr with rfl | rfl
  · simp only [pc, Poly.eval_const]
    show (envU re im 2) ^ 2 = _
    simp only [envU]; norm_num [half_sqrt_two_sq]
  · simp only [Poly.eval_sub, Poly.eval_mul, pc, Poly.eval_const, X0, pv, Poly.eval_var]
    show (envU re im 1) ^ 2 = _
    simp only [envU]
    norm_num

/-- restatement of the soundness theorem for a supported name -/
theorem checkBasis_sound' (ρ : Nat → ℝ) (hs : Poly.Sat ρ stdRules) (name : String) (b : SBasis) (t : Ops.Kraus Poly)
    (hb : basisOf name = some (b, t)) (hc : checkName name = true) : ExactAt ρ t b := by
  unfold checkName at hc
  rw [hb] at hc
  exact checkBasis_sound ρ hs t b hc

/-! ### the parametrised families: every real angle -/

theorem exact_rxx (t : ℝ) : ExactAt (envAngle t) (targetRot2 1) (rotFamilyBasis "rxx" genericAngle) :=
  checkBasis_sound' _ (sat_angle t) "rxx" _ _ rfl check_rxx
theorem exact_ryy (t : ℝ) : ExactAt (envAngle t) (targetRot2 2) (rotFamilyBasis "ryy" genericAngle) :=
  checkBasis_sound' _ (sat_angle t) "ryy" _ _ rfl check_ryy
theorem exact_rzz (t : ℝ) : ExactAt (envAngle t) (targetRot2 3) (rotFamilyBasis "rzz" genericAngle) :=
  checkBasis_sound' _ (sat_angle t) "rzz" _ _ rfl check_rzz
theorem exact_crx (t : ℝ) : ExactAt (envAngle t) (targetCRot 1 genericAngle) (rotFamilyBasis "crx" genericAngle) :=
  checkBasis_sound' _ (sat_angle t) "crx" _ _ rfl check_crx
theorem exact_cry (t : ℝ) : ExactAt (envAngle t) (targetCRot 2 genericAngle) (rotFamilyBasis "cry" genericAngle) :=
  checkBasis_sound' _ (sat_angle t) "cry" _ _ rfl check_cry
theorem exact_crz (t : ℝ) : ExactAt (envAngle t) (targetCRot 3 genericAngle) (rotFamilyBasis "crz" genericAngle) :=
  checkBasis_sound' _ (sat_angle t) "crz" _ _ rfl check_crz
theorem exact_cp (t : ℝ) : ExactAt (envAngle t) (targetCP genericAngle)
    (rotFamilyBasis "crz" genericAngle (some (rotOp "p" 3 genericAngle.rc genericAngle.rs))) :=
  checkBasis_sound' _ (sat_angle t) "cp" _ _ rfl check_cp

/-! ### fixed gates and the Move -/

theorem exact_cs : ExactAt (envAngle 0) [(false, ctrl uS)] (rotFamilyBasis "crz" (piOver8 false) (some (g "t"))) :=
  checkBasis_sound' _ (sat_angle 0) "cs" _ _ rfl check_cs
theorem exact_csdg : ExactAt (envAngle 0) [(false, ctrl uSdg)] (rotFamilyBasis "crz" (piOver8 true) (some (g "tdg"))) :=
  checkBasis_sound' _ (sat_angle 0) "csdg" _ _ rfl check_csdg
theorem exact_csx : ExactAt (envAngle 0) [(false, ctrl uSX)] (rotFamilyBasis "crx" (piOver8 false) (some (g "t"))) :=
  checkBasis_sound' _ (sat_angle 0) "csx" _ _ rfl check_csx
theorem exact_csxdg : ExactAt (envAngle 0) [(false, ctrl uSXdg)] (rotFamilyBasis "crx" (piOver8 true) (some (g "tdg"))) :=
  checkBasis_sound' _ (sat_angle 0) "csxdg" _ _ rfl check_csxdg
theorem exact_cx : ExactAt (envAngle 0) [(false, ctrl uX)] (cxFamilyBasis "cx") :=
  checkBasis_sound' _ (sat_angle 0) "cx" _ _ rfl check_cx
theorem exact_cy : ExactAt (envAngle 0) [(false, ctrl uY)] (cxFamilyBasis "cy") :=
  checkBasis_sound' _ (sat_angle 0) "cy" _ _ rfl check_cy
theorem exact_cz : ExactAt (envAngle 0) [(false, ctrl uZ)] (cxFamilyBasis "cz") :=
  checkBasis_sound' _ (sat_angle 0) "cz" _ _ rfl check_cz
theorem exact_ch : ExactAt (envAngle 0) [(false, ctrl uH)] (cxFamilyBasis "ch") :=
  checkBasis_sound' _ (sat_angle 0) "ch" _ _ rfl check_ch
theorem exact_ecr : ExactAt (envAngle 0) [(false, uECR)] ecrBasis :=
  checkBasis_sound' _ (sat_angle 0) "ecr" _ _ rfl check_ecr
theorem exact_swap : ExactAt (envAngle 0) [(false, uSwap)] (kakTableBasis swapU) :=
  checkBasis_sound' _ (sat_angle 0) "swap" _ _ rfl check_swap
theorem exact_iswap : ExactAt (envAngle 0) [(false, uISwap)] (kakTableBasis iswapU) :=
  checkBasis_sound' _ (sat_angle 0) "iswap" _ _ rfl check_iswap
theorem exact_dcx : ExactAt (envAngle 0) [(false, uDCX)] (dcxDress (kakTableBasis iswapU)) :=
  checkBasis_sound' _ (sat_angle 0) "dcx" _ _ rfl check_dcx
theorem exact_move : ExactAt (envAngle 0) targetMove moveBasis :=
  checkBasis_sound' _ (sat_angle 0) "move" _ _ rfl check_move

/-! ### the KAK table: every `u ∈ ℂ⁴` -/

theorem exact_kak (re im : Fin 4 → ℝ) : ExactAt (envU re im) [(false, uKak uVars)] (kakTableBasis uVars) :=
  checkBasis_sound' _ (sat_u re im) "kak" _ _ rfl check_kak

/-- Local dressing (the `K1/K2` factors of the Weyl decomposition, or the fixed pre/post rotations of dcx, ecr, …)
turns an exact basis into an exact basis: if `Σ cᵢ Aᵢ ⊗ Bᵢ = T` for transfer matrices, then
`Σ cᵢ (L₀AᵢR₀) ⊗ (L₁BᵢR₁) = (L₀⊗L₁) T (R₀⊗R₁)`. -/
theorem dressing {ι : Type} (s : Finset ι) (c : ι → ℝ) (A B : ι → Matrix (Fin 4) (Fin 4) ℝ)
    (L0 L1 R0 R1 : Matrix (Fin 4) (Fin 4) ℝ) (T2 : Matrix (Fin 4 × Fin 4) (Fin 4 × Fin 4) ℝ)
    (h : ∑ i ∈ s, c i • Matrix.kroneckerMap (· * ·) (A i) (B i) = T2) :
    ∑ i ∈ s, c i • Matrix.kroneckerMap (· * ·) (L0 * A i * R0) (L1 * B i * R1)
      = Matrix.kroneckerMap (· * ·) L0 L1 * T2 * Matrix.kroneckerMap (· * ·) R0 R1 := by
  rw [← h, Finset.mul_sum, Finset.sum_mul]
  apply Finset.sum_congr rfl
  intro i _
  rw [Matrix.mul_smul, Matrix.smul_mul]
  congr 1
  rw [← Matrix.mul_kronecker_mul, ← Matrix.mul_kronecker_mul]

/-- dressing never touches the coefficients: locally equivalent gates share `coeffs` (hence kappa) -/
theorem kak_coeffs_local_invariant (b : SBasis) : (dcxDress b).coeffs = b.coeffs := rfl

/-- anything outside the supported names is refused -/
theorem unsupported_refused (name : String) (h : name ∉ supportedNames) : basisOf name = none := by
  unfold basisOf
  simp only [supportedNames, List.mem_cons, List.not_mem_nil, or_false, not_or] at h
  obtain ⟨h1, h2, h3, h4, h5, h6, h7, h8, h9, h10, h11, h12, h13, h14, h15, h16, h17, h18, h19, h20, h21⟩ := h
  split <;> first | rfl | contradiction

/-- non-vacuity: the angle environment is a genuine model of the rules at a non-trivial angle, and the table has 58 rows -/
example : (kakTableBasis uVars).maps.length = 58 := by decide +kernel

end CKT.C02
