import Mathlib.Logic.Relation
import Mathlib.Algebra.BigOperators.Group.List.Basic
import Mathlib.Algebra.Order.Field.Rat
import Mathlib.Algebra.Order.BigOperators.GroupWithZero.List
import Mathlib.Tactic.Linarith
/-!
# C08 — T08.4, specification level, gate cuts: useless cuts can be removed

A *plan* says for every two-qubit gate whether it is cut.  The subcircuits of a plan are the connected components of the
graph of its applied (uncut) gates; a plan is feasible when those components satisfy the width limit — any property of the
connectivity relation.  The cut finder's search tree only contains plans without *useless* cuts (it never cuts a gate
inside one subcircuit, and a cut's no-merge clause forbids re-joining what it separated).  `prune`: cut exactly the gates
whose endpoints lie in different components.  Then

* `conn_prune` — the components are unchanged (so feasibility, whatever the width limit, is unchanged);
* `cost_prune_le` — the overhead does not grow (every γ ≥ 1, C15);
* `prune_no_useless` — no cut gate of the pruned plan has both endpoints in one component, i.e. the pruned plan is of the
  kind the search tree contains.
Hence the minimum over all feasible plans is attained on plans without useless cuts — the premise under which
`C08.optimize_flag_sound` (minimum over the search tree) is the minimum over all plans.  (Wire cuts and the identification
of "plans without useless cuts" with the goals of the model's tree are not covered here; the brute force over `5^g` plans in
the correspondence run validates both.)
-/
namespace CKT.C08Spec

structure G where
  q1 : Nat
  q2 : Nat
  gamma : ℚ

/-- the gates a plan applies (`a i = true`: gate `i` is cut) -/
def applied (gs : List G) (a : Nat → Bool) : List G := (gs.zipIdx.filter fun gi => !a gi.2).map (·.1)

/-- overhead factor of a plan: the product of the γ of its cut gates -/
def cost (gs : List G) (a : Nat → Bool) : ℚ := ((gs.zipIdx.filter fun gi => a gi.2).map (·.1.gamma)).prod

/-- two qubits are in the same subcircuit: connected through applied gates -/
def Conn (gs : List G) (a : Nat → Bool) : Nat → Nat → Prop :=
  Relation.EqvGen fun x y => ∃ g ∈ applied gs a, g.q1 = x ∧ g.q2 = y

open Classical in
/-- cut exactly the gates whose endpoints the plan leaves in different subcircuits -/
noncomputable def prune (gs : List G) (a : Nat → Bool) : Nat → Bool :=
  fun i => match gs[i]? with
    | some g => decide (¬ Conn gs a g.q1 g.q2)
    | none => a i

theorem mem_applied (gs : List G) (a : Nat → Bool) (g : G) : g ∈ applied gs a ↔ ∃ i, gs[i]? = some g ∧ a i = false := by
  simp only [applied, List.mem_map, List.mem_filter, List.mem_zipIdx_iff_getElem?, Prod.exists]
  constructor
  · rintro ⟨g', i, ⟨h1, h2⟩, rfl⟩
    exact ⟨i, by simpa using h1, by simpa using h2⟩
  · rintro ⟨i, h1, h2⟩
    exact ⟨g, i, ⟨by simpa using h1, by simpa using h2⟩, rfl⟩

/-- a cut of the pruned plan was a cut of the original plan -/
theorem prune_le (gs : List G) (a : Nat → Bool) (i : Nat) (g : G) (hg : gs[i]? = some g) (h : prune gs a i = true) : a i = true := by
  by_contra hne
  have hfalse : a i = false := by simpa using hne
  simp only [prune, hg, decide_eq_true_eq] at h
  exact h (Relation.EqvGen.rel _ _ ⟨g, (mem_applied gs a g).2 ⟨i, hg, hfalse⟩, rfl, rfl⟩)

/-- **the subcircuits are unchanged** -/
theorem conn_prune (gs : List G) (a : Nat → Bool) : Conn gs (prune gs a) = Conn gs a := by
  funext x y
  apply propext
  constructor
  · intro h
    induction h with
    | rel x y hxy =>
      obtain ⟨g, hg, rfl, rfl⟩ := hxy
      obtain ⟨i, hi, hp⟩ := (mem_applied gs _ g).1 hg
      simp only [prune, hi, decide_eq_false_iff_not, not_not] at hp
      exact hp
    | refl x => exact Relation.EqvGen.refl x
    | symm x y _ ih => exact Relation.EqvGen.symm _ _ ih
    | trans x y z _ _ ih1 ih2 => exact Relation.EqvGen.trans _ _ _ ih1 ih2
  · intro h
    induction h with
    | rel x y hxy =>
      obtain ⟨g, hg, rfl, rfl⟩ := hxy
      obtain ⟨i, hi, ha⟩ := (mem_applied gs a g).1 hg
      apply Relation.EqvGen.rel
      refine ⟨g, (mem_applied gs _ g).2 ⟨i, hi, ?_⟩, rfl, rfl⟩
      simp only [prune, hi, decide_eq_false_iff_not, not_not]
      exact Relation.EqvGen.rel _ _ ⟨g, hg, rfl, rfl⟩
    | refl x => exact Relation.EqvGen.refl x
    | symm x y _ ih => exact Relation.EqvGen.symm _ _ ih
    | trans x y z _ _ ih1 ih2 => exact Relation.EqvGen.trans _ _ _ ih1 ih2

/-- every property of the subcircuit structure — in particular "no subcircuit exceeds the width limit" — is kept -/
theorem feasible_prune (gs : List G) (a : Nat → Bool) (Feasible : (Nat → Nat → Prop) → Prop) (h : Feasible (Conn gs a)) :
    Feasible (Conn gs (prune gs a)) := by
  rw [conn_prune]; exact h

/-- **no useless cut is left**: a gate the pruned plan cuts joins two different subcircuits -/
theorem prune_no_useless (gs : List G) (a : Nat → Bool) (i : Nat) (g : G) (hg : gs[i]? = some g) (h : prune gs a i = true) :
    ¬ Conn gs (prune gs a) g.q1 g.q2 := by
  rw [conn_prune]
  simpa [prune, hg] using h

theorem prod_filter_le (l : List (G × Nat)) (p q : G × Nat → Bool) (hpq : ∀ x ∈ l, p x = true → q x = true)
    (hge : ∀ x ∈ l, 1 ≤ x.1.gamma) : ((l.filter p).map (·.1.gamma)).prod ≤ ((l.filter q).map (·.1.gamma)).prod := by
  induction l with
  | nil => simp
  | cons x rest ih =>
    have ih' := ih (fun y hy => hpq y (List.mem_cons_of_mem _ hy)) (fun y hy => hge y (List.mem_cons_of_mem _ hy))
    have hx := hge x (by simp)
    have hpos : 0 ≤ ((rest.filter p).map (·.1.gamma)).prod := by
      apply List.prod_nonneg
      intro v hv
      simp only [List.mem_map, List.mem_filter] at hv
      obtain ⟨y, ⟨hy, _⟩, rfl⟩ := hv
      linarith [hge y (List.mem_cons_of_mem _ hy)]
    by_cases hp : p x = true
    · have hq := hpq x (by simp) hp
      simp only [List.filter_cons, hp, hq, if_true, List.map_cons, List.prod_cons]
      exact mul_le_mul_of_nonneg_left ih' (by linarith)
    · have hp' : p x = false := by simpa using hp
      by_cases hq : q x = true
      · simp only [List.filter_cons, hp', hq, if_true, Bool.false_eq_true, if_false, List.map_cons, List.prod_cons]
        calc ((rest.filter p).map (·.1.gamma)).prod ≤ ((rest.filter q).map (·.1.gamma)).prod := ih'
          _ ≤ x.1.gamma * ((rest.filter q).map (·.1.gamma)).prod := by
            have : 0 ≤ ((rest.filter q).map (·.1.gamma)).prod := le_trans hpos ih'
            nlinarith
      · have hq' : q x = false := by simpa using hq
        simp only [List.filter_cons, hp', hq', Bool.false_eq_true, if_false]
        exact ih'

/-- **the overhead does not grow** (every γ is at least 1) -/
theorem cost_prune_le (gs : List G) (a : Nat → Bool) (hge : ∀ g ∈ gs, 1 ≤ g.gamma) : cost gs (prune gs a) ≤ cost gs a := by
  unfold cost
  apply prod_filter_le
  · intro x hx hp
    obtain ⟨g, i⟩ := x
    have hi : gs[i]? = some g := by
      have := List.mem_zipIdx_iff_getElem?.1 hx
      simpa using this
    exact prune_le gs a i g hi hp
  · intro x hx
    obtain ⟨g, i⟩ := x
    have : gs[i]? = some g := by
      have := List.mem_zipIdx_iff_getElem?.1 hx
      simpa using this
    exact hge g (List.mem_of_getElem? this)

/-- **T08.4 (gate cuts, specification level)**: for every feasible plan there is a feasible plan without useless cuts that
costs no more and has the same subcircuits -/
theorem useless_cuts_removable (gs : List G) (a : Nat → Bool) (hge : ∀ g ∈ gs, 1 ≤ g.gamma)
    (Feasible : (Nat → Nat → Prop) → Prop) (h : Feasible (Conn gs a)) :
    ∃ a', Feasible (Conn gs a') ∧ cost gs a' ≤ cost gs a ∧ Conn gs a' = Conn gs a ∧
      ∀ i g, gs[i]? = some g → a' i = true → ¬ Conn gs a' g.q1 g.q2 :=
  ⟨prune gs a, feasible_prune gs a Feasible h, cost_prune_le gs a hge, conn_prune gs a, prune_no_useless gs a⟩

end CKT.C08Spec
