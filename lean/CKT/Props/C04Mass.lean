import CKT.Props.C04
/-!
# C04 — T04.3: mass balance of the exact-weight enumeration ("the weights sum to N")

`dfs_mass`: at every node of the depth-first walk over probability rows (cut-off 0), the probability of the joint maps emitted
as exact weights beneath the node plus the node's share of the residual mass it reports upwards equals the node's own
probability — for every threshold, every number of bases and every row length, including the bookkeeping through `zipIdx`,
`takeWhile`, the index lookups `find?` and the conditional tables.  Consequences: `genSorted_mass` / `genUnsorted_mass` (top level:
exact mass + mass of the top-level table = 1, also through the sorting permutations of the wrapper), `top_table` (that mass is the
sum of the last item yielded) and `exact_plus_tail` (`Σ exact weights + N·w₀ = N`).  What is *not* proved: that the sampler hands
back exactly `⌈N·w₀⌉` samples (`populate`; checked by the correspondence and by the oracle's sum clause) and the unbiasedness of
the tail (the oracle enumerates the complete output law of small cases).
-/
namespace CKT.C04
open CKT

/-- total probability of the joint maps emitted as exact weights -/
def fullMass (ys : List Y) : Rat := (ys.map fun y => match y with | Y.full _ q => q | Y.cond _ _ => 0).sum

/-- residual (conditional) mass reported by a node; a node without exact weights beneath keeps all of its mass -/
def resid : Option Rat → Rat
  | some n => n
  | none => 1

theorem zeroSmall_zero (l : List Rat) : zeroSmall 0 l = l := by
  unfold zeroSmall
  conv_rhs => rw [← List.map_id l]
  apply List.map_congr_left
  intro x _
  by_cases h : absR x ≤ 0
  · have : x = 0 := by
      unfold absR at h
      split at h <;> linarith
    simp [h, this]
  · simp [h]

theorem fullMass_append (a b : List Y) : fullMass (a ++ b) = fullMass a + fullMass b := by
  simp [fullMass, List.map_append, List.sum_append]

theorem fullMass_cond (s : List Nat) (arr : List Rat) : fullMass [Y.cond s arr] = 0 := by simp [fullMass]

theorem finish_mass (top : Bool) (pre : List Nat) (arr : List Rat) (ys : List Y) :
    fullMass (finish top pre arr ys).1 = fullMass ys ∧ (finish top pre arr ys).2 = some arr.sum := by
  unfold finish
  simp only
  split
  · simp [fullMass_append, fullMass_cond]
  · split
    · simp [fullMass_append, fullMass_cond]
    · simp

/-- the entries visited at one level are the first `v` entries of the row -/
theorem visited_eq (thr p : Rat) (row : List Rat) :
    ∃ v, v ≤ row.length ∧ visited thr p row = (List.range v).map (fun j => (j, row.getD j 0)) := by
  unfold visited
  set l := row.zipIdx.map (fun (x : Rat × Nat) => (x.2, x.1)) with hl
  set tw := l.takeWhile (fun jx => !(p * jx.2 < thr)) with htw
  have hpre : tw <+: l := List.takeWhile_prefix _
  have htake : tw = l.take tw.length := (List.prefix_iff_eq_take.1 hpre)
  have hlen : tw.length ≤ row.length := by
    have := hpre.length_le
    simpa [hl] using this
  refine ⟨tw.length, hlen, ?_⟩
  rw [htake]
  apply List.ext_getElem
  · simp [hl]
  · intro n h1 h2
    have hn : n < tw.length := by
      have : n < tw.length ∧ n < l.length := by simpa using h2
      exact this.1
    have hn' : n < row.length := lt_of_lt_of_le hn hlen
    simp [hl, List.getElem_take, List.getD_eq_getElem?_getD, List.getElem?_eq_getElem hn']

theorem zipIdx_map_range (row : List Rat) {β : Type} (G : Rat × Nat → β) :
    row.zipIdx.map G = (List.range row.length).map (fun j => G (row.getD j 0, j)) := by
  apply List.ext_getElem
  · simp
  · intro n h1 h2
    have hn : n < row.length := by simpa using h1
    simp [List.getD_eq_getElem?_getD, List.getElem?_eq_getElem hn]

theorem drop_eq_range (row : List Rat) (v : Nat) (hv : v ≤ row.length) :
    row.drop v = (List.range (row.length - v)).map (fun i => row.getD (v + i) 0) := by
  apply List.ext_getElem
  · simp
  · intro n h1 h2
    have hn : v + n < row.length := by simp at h1; omega
    simp [List.getD_eq_getElem?_getD, List.getElem?_eq_getElem hn]

/-- a weighted sum over a row in which the first `v` entries carry weights `c j` and the rest weight one -/
theorem sum_weighted_split (row : List Rat) (v : Nat) (hv : v ≤ row.length) (c : Nat → Rat) :
    (row.zipIdx.map (fun (x : Rat × Nat) => x.1 * (if x.2 < v then c x.2 else 1))).sum =
      ((List.range v).map (fun j => row.getD j 0 * c j)).sum + (row.drop v).sum := by
  rw [zipIdx_map_range]
  have hsplit : List.range row.length = List.range v ++ (List.range (row.length - v)).map (fun i => v + i) := by
    have : row.length = v + (row.length - v) := by omega
    conv_lhs => rw [this, List.range_add]
  rw [hsplit, List.map_append, List.sum_append, drop_eq_range row v hv]
  congr 1
  · apply congrArg
    apply List.map_congr_left
    intro j hj
    have := List.mem_range.1 hj
    simp [this]
  · apply congrArg
    rw [List.map_map]
    apply List.map_congr_left
    intro i _
    have : ¬ (v + i < v) := by omega
    simp [this]

theorem sum_row_split (row : List Rat) (v : Nat) (hv : v ≤ row.length) :
    row.sum = ((List.range v).map (fun j => row.getD j 0)).sum + (row.drop v).sum := by
  have := sum_weighted_split row v hv (fun _ => 1)
  simp only [mul_one, ite_self] at this
  rw [← this]
  have : row.zipIdx.map (fun (x : Rat × Nat) => x.1) = row := by
    rw [zipIdx_map_range]
    apply List.ext_getElem
    · simp
    · intro n h1 h2
      have hn : n < row.length := by simpa using h1
      simp [List.getD_eq_getElem?_getD, List.getElem?_eq_getElem hn]
  rw [this]

theorem find_kids {β : Type} (v : Nat) (D : Nat → β) (j : Nat) :
    ((List.range v).map (fun i => (i, D i))).find? (fun k => k.1 == j) = if j < v then some (j, D j) else none := by
  induction v with
  | zero => simp
  | succ v ih =>
    rw [List.range_succ, List.map_append, List.find?_append, ih]
    by_cases h : j < v
    · have : j < v + 1 := by omega
      simp [h, this]
    · by_cases h2 : j = v
      · subst h2; simp
      · have : ¬ j < v + 1 := by omega
        have h3 : ¬ v = j := fun e => h2 e.symm
        simp [h, this, h3]

theorem fullMass_flatMap_range (v : Nat) (f : Nat → List Y) :
    fullMass ((List.range v).flatMap f) = ((List.range v).map (fun j => fullMass (f j))).sum := by
  induction v with
  | zero => simp [fullMass]
  | succ v ih =>
    rw [List.range_succ, List.flatMap_append, fullMass_append, ih]
    simp

theorem sum_mul_left_range (v : Nat) (r : Rat) (f : Nat → Rat) :
    ((List.range v).map (fun j => r * f j)).sum = r * ((List.range v).map f).sum := by
  induction v with
  | zero => simp
  | succ v ih => rw [List.range_succ]; simp [List.sum_append, ih, mul_add]

theorem sum_map_add_range (v : Nat) (f g : Nat → Rat) :
    ((List.range v).map (fun j => f j + g j)).sum = ((List.range v).map f).sum + ((List.range v).map g).sum := by
  rw [← List.sum_map_add]

/-- **mass balance of the depth-first walk** (cut-off 0, probability rows): at every node, the probability of the joint maps emitted
as exact weights beneath it plus the node's share of the residual mass reported upwards equals the node's own probability. -/
theorem dfs_mass (thr : Rat) : ∀ (rows : List (List Rat)) (top : Bool) (pre : List Nat) (p : Rat),
    (∀ r ∈ rows, r.sum = 1) →
    fullMass (dfs thr 0 rows top pre p).1 + p * resid (dfs thr 0 rows top pre p).2 = p := by
  intro rows
  induction rows with
  | nil => intro top pre p _; simp [dfs, fullMass, resid]
  | cons row rest ih =>
    intro top pre p hsum
    have hrow : row.sum = 1 := hsum row (by simp)
    obtain ⟨v, hv, hvis⟩ := visited_eq thr p row
    cases rest with
    | nil =>
      simp only [dfs, hvis]
      have hys : fullMass (((List.range v).map (fun j => (j, row.getD j 0))).map fun jx => Y.full (pre ++ [jx.1]) (p * jx.2)) =
          p * ((List.range v).map (fun j => row.getD j 0)).sum := by
        simp only [fullMass, List.map_map, Function.comp_def]
        exact sum_mul_left_range v p (fun j => row.getD j 0)
      by_cases hv0 : v = 0
      · subst hv0
        simp [fullMass, resid]
      · have hne : ((List.range v).map (fun j => (j, row.getD j 0))).isEmpty = false := by
          cases v with
          | zero => exact absurd rfl hv0
          | succ n => simp [List.range_succ]
        simp only [hne, Bool.false_eq_true, if_false, List.length_map, List.length_range]
        rw [(finish_mass top pre _ _).1, (finish_mass top pre _ _).2, hys, zeroSmall_zero]
        have harr : (row.zipIdx.map fun (x : Rat × Nat) => if x.2 < v then (0 : Rat) else x.1) =
            row.zipIdx.map (fun (x : Rat × Nat) => x.1 * (if x.2 < v then (0 : Rat) else 1)) := by
          apply List.map_congr_left
          intro x _
          by_cases h : x.2 < v <;> simp [h]
        have hw := sum_weighted_split row v hv (fun _ => (0 : Rat))
        have hz : ((List.range v).map (fun j => row.getD j 0 * (0 : Rat))).sum = 0 := by
          apply List.sum_eq_zero
          intro x hx
          obtain ⟨j, _, rfl⟩ := List.mem_map.1 hx
          ring
        rw [harr, hw, hz]
        have hsplit := sum_row_split row v hv
        simp only [resid]
        rw [hrow] at hsplit
        have : p * (0 + (row.drop v).sum) = p * (row.drop v).sum := by ring
        rw [this]
        have e : p * ((List.range v).map (fun j => row.getD j 0)).sum + p * (row.drop v).sum =
            p * (((List.range v).map (fun j => row.getD j 0)).sum + (row.drop v).sum) := by ring
        rw [e, ← hsplit]; ring
    | cons r2 rest' =>
      have hsum' : ∀ r ∈ r2 :: rest', r.sum = 1 := fun r hr => hsum r (List.mem_cons_of_mem _ hr)
      simp only [dfs, hvis, List.map_map, Function.comp_def]
      set D : Nat → List Y × Option Rat := fun j => dfs thr 0 (r2 :: rest') false (pre ++ [j]) (p * row.getD j 0) with hD
      have hkids : (List.range v).map (fun j => (j, dfs thr 0 (r2 :: rest') false (pre ++ [j]) (p * row.getD j 0))) =
          (List.range v).map (fun j => (j, D j)) := rfl
      have hIH : ∀ j, fullMass (D j).1 + (p * row.getD j 0) * resid (D j).2 = p * row.getD j 0 :=
        fun j => ih false (pre ++ [j]) (p * row.getD j 0) hsum'
      have hys : fullMass (((List.range v).map (fun j => (j, D j))).flatMap fun k => k.2.1) =
          ((List.range v).map (fun j => fullMass (D j).1)).sum := by
        rw [List.flatMap_map]
        exact fullMass_flatMap_range v (fun j => (D j).1)
      rw [hkids]
      by_cases hall : ((List.range v).map (fun j => (j, D j))).all (fun k => k.2.2.isNone) = true
      · simp only [hall, if_true, resid, mul_one]
        rw [hys]
        have : ((List.range v).map (fun j => fullMass (D j).1)).sum = 0 := by
          apply List.sum_eq_zero
          intro x hx
          obtain ⟨j, hj, rfl⟩ := List.mem_map.1 hx
          have hn : (D j).2.isNone = true := by
            rw [List.all_eq_true] at hall
            exact hall (j, D j) (List.mem_map.2 ⟨j, hj, rfl⟩)
          have := hIH j
          have hnone : (D j).2 = none := by simpa using hn
          rw [hnone] at this
          simp only [resid, mul_one] at this
          linarith
        rw [this]; ring
      · have hall' : ((List.range v).map (fun j => (j, D j))).all (fun k => k.2.2.isNone) = false := by simpa using hall
        simp only [hall', Bool.false_eq_true, if_false]
        rw [(finish_mass top pre _ _).1, (finish_mass top pre _ _).2, hys, zeroSmall_zero]
        have key : ∀ (L : List Rat), L = row.zipIdx.map (fun (x : Rat × Nat) => x.1 * (if x.2 < v then resid (D x.2).2 else 1)) →
            ((List.range v).map (fun j => fullMass (D j).1)).sum + p * resid (some L.sum) = p := by
          intro L hL
          subst hL
          have hw := sum_weighted_split row v hv (fun j => resid (D j).2)
          rw [hw]
          have hsplit := sum_row_split row v hv
          rw [hrow] at hsplit
          have hres : ∀ x : Rat, resid (some x) = x := fun _ => rfl
          rw [hres]
          have hsumIH : ((List.range v).map (fun j => fullMass (D j).1)).sum + p * ((List.range v).map (fun j => row.getD j 0 * resid (D j).2)).sum =
              p * ((List.range v).map (fun j => row.getD j 0)).sum := by
            rw [← sum_mul_left_range, ← sum_mul_left_range, ← sum_map_add_range]
            apply congrArg
            apply List.map_congr_left
            intro j _
            have := hIH j
            linarith
          rw [mul_add]
          have e : p * ((List.range v).map (fun j => row.getD j 0)).sum + p * (row.drop v).sum =
              p * (((List.range v).map (fun j => row.getD j 0)).sum + (row.drop v).sum) := by ring
          rw [← hsplit] at e
          linarith
        apply key
        apply List.map_congr_left
        intro x _
        rw [find_kids v D x.2]
        by_cases h : x.2 < v
        · simp only [h, if_true]
          cases (D x.2).2 <;> simp [resid]
        · simp [h]

/-- top level, sorted rows: exact mass + residual mass of the top-level table = 1 -/
theorem genSorted_mass (rows : List (List Rat)) (thr : Rat) (h : ∀ r ∈ rows, r.sum = 1) :
    fullMass (genSorted rows thr 0) + resid (dfs thr 0 rows true [] 1).2 = 1 := by
  have := dfs_mass thr rows true [] 1 h
  simpa [genSorted] using this

theorem insertDesc_perm (x : Nat × Rat) : ∀ l : List (Nat × Rat), (insertDesc x l).Perm (x :: l) := by
  intro l
  induction l with
  | nil => exact List.Perm.refl _
  | cons y ys ih =>
    unfold insertDesc
    split
    · exact List.Perm.refl _
    · exact (List.Perm.cons y ih).trans (List.Perm.swap x y ys)

theorem sortPerm_perm (row : List Rat) : (sortPerm row).Perm (List.range row.length) := by
  unfold sortPerm
  have h1 : ∀ (l : List (Nat × Rat)), (l.foldr insertDesc []).Perm l := by
    intro l
    induction l with
    | nil => exact List.Perm.refl _
    | cons x l ih => simp only [List.foldr_cons]; exact (insertDesc_perm x _).trans (List.Perm.cons x ih)
  have h2 := (h1 (row.zipIdx.map (fun (x : Rat × Nat) => (x.2, x.1)))).map (·.1)
  refine h2.trans ?_
  rw [List.map_map]
  have : (row.zipIdx.map ((fun (x : Nat × Rat) => x.1) ∘ fun (x : Rat × Nat) => (x.2, x.1))) = List.range row.length := by
    rw [zipIdx_map_range]
    simp [Function.comp_def]
  rw [this]

theorem applyPerm_sum (row : List Rat) : (applyPerm (sortPerm row) row).sum = row.sum := by
  unfold applyPerm
  have hp := (sortPerm_perm row).map (fun i => row.getD i 0)
  rw [hp.sum_eq]
  have : (List.range row.length).map (fun i => row.getD i 0) = row := by
    apply List.ext_getElem
    · simp
    · intro n h1 h2
      have hn : n < row.length := by simpa using h1
      simp [List.getD_eq_getElem?_getD, List.getElem?_eq_getElem hn]
  rw [this]

theorem fullMass_map_keys (ys : List Y) (f : List Nat → List Nat) (g : List Nat → List Rat → List Rat) :
    fullMass (ys.map fun y => match y with | Y.full s p => Y.full (f s) p | Y.cond s arr => Y.cond (f s) (g s arr)) = fullMass ys := by
  unfold fullMass
  rw [List.map_map]
  apply congrArg
  apply List.map_congr_left
  intro y _
  cases y <;> rfl

theorem zip_map_self {α β : Type} (f : α → β) : ∀ l : List α, l.zip (l.map f) = l.map (fun a => (a, f a)) := by
  intro l; induction l with
  | nil => rfl
  | cons a l ih => simp [ih]

/-- **T04.3 (mass balance)** for probability rows in any order: the joint probabilities of the maps that receive exact weights and the
mass of the top-level conditional table (what is left for the sampler) add up to one — hence `Σ exact weights + tail weight = N`. -/
theorem genUnsorted_mass (rows : List (List Rat)) (thr : Rat) (h : ∀ r ∈ rows, r.sum = 1) :
    fullMass (genUnsorted rows thr 0) +
      resid (dfs thr 0 ((rows.zip (rows.map sortPerm)).map fun rp => applyPerm rp.2 rp.1) true [] 1).2 = 1 := by
  have hs : ∀ r ∈ (rows.zip (rows.map sortPerm)).map (fun rp => applyPerm rp.2 rp.1), r.sum = 1 := by
    intro r hr
    rw [zip_map_self, List.map_map] at hr
    obtain ⟨row, hrow, rfl⟩ := List.mem_map.1 hr
    simp only [Function.comp]
    rw [applyPerm_sum]; exact h row hrow
  have hm := genSorted_mass _ thr hs
  have e : fullMass (genUnsorted rows thr 0) =
      fullMass (genSorted ((rows.zip (rows.map sortPerm)).map fun rp => applyPerm rp.2 rp.1) thr 0) := by
    unfold genUnsorted
    exact fullMass_map_keys _ _ _
  rw [e]; exact hm

/-- at the top level a reported residual mass is the sum of the top-level conditional table, which is the last item yielded -/
theorem top_table (thr atol : Rat) (rows : List (List Rat)) (p norm : Rat) (h : (dfs thr atol rows true [] p).2 = some norm) :
    ∃ ys0 arr, (dfs thr atol rows true [] p).1 = ys0 ++ [Y.cond [] arr] ∧ arr.sum = norm := by
  cases rows with
  | nil => simp [dfs] at h
  | cons row rest =>
    cases rest with
    | nil =>
      simp only [dfs] at h ⊢
      split at h
      · cases h
      · rename_i hne
        simp only [hne, Bool.false_eq_true, if_false] at ⊢
        unfold finish at h ⊢
        simp only [if_true] at h ⊢
        injection h with h
        exact ⟨_, _, rfl, h⟩
    | cons r2 rest' =>
      simp only [dfs] at h ⊢
      split at h
      · cases h
      · rename_i hne
        simp only [hne, Bool.false_eq_true, if_false] at ⊢
        unfold finish at h ⊢
        simp only [if_true] at h ⊢
        injection h with h
        exact ⟨_, _, rfl, h⟩

/-- **T04.3, "the weights sum to N"** (sorted probability rows, cut-off 0): with `N·p` for every exactly weighted joint map and the
top-level table's mass `w₀` left for the sampler, `Σ exact + N·w₀ = N`; each of the `⌈N·w₀⌉` samples then carries `N·w₀/⌈N·w₀⌉`
(model of `_generate_qpd_weights`), so the total is `N` exactly when the sampler hands back as many samples as it was asked for. -/
theorem exact_plus_tail (rows : List (List Rat)) (thr n : Rat) (h : ∀ r ∈ rows, r.sum = 1) :
    n * fullMass (genSorted rows thr 0) + n * resid (dfs thr 0 rows true [] 1).2 = n := by
  have := genSorted_mass rows thr h
  rw [← mul_add, this, mul_one]

end CKT.C04
