import CKT.Props.C01PTM
import CKT.Proofs.Channel
/-!
# C01 ⟵ C02: the exactness statement of C02 is the hypothesis of `C01PTM.cut_and_reconstruct`

`ExactAt ρ target b` (the conclusion of `checkBasis_sound`, established for every supported gate and every angle by the
`exact_<gate>` theorems of `Props/C02`) says, entry by entry, that the two-qubit transfer matrix of the target is
`Σᵢ cᵢ · PTM(Aᵢ) ⊗ PTM(Bᵢ)`.  Read as transfer matrices of the Pauli-expectation semantics (`tmOf1`, `tmOf2`: first listed
qubit = qubit 0 = least significant index), this is exactly `CGate.Exact` for the cut gate placed on any two distinct
qubits — so every basis proved exact in C02 can be used in `cut_and_reconstruct`.
-/
namespace CKT.C01PTM
open CKT CKT.Sem CKT.Ops

variable {K : Type} [Field K] [CharZero K]

/-- a 4×4 real transfer matrix as a one-qubit `TM` -/
def tmOf1 (R : RMat K) : TM K := fun a b =>
  match a, b with
  | [x], [x'] => (fieldOps K).rget R x.val x'.val
  | _, _ => 0

/-- a 16×16 real transfer matrix as a two-qubit `TM` (index `4·a₁ + a₀`, the first listed qubit is qubit 0) -/
def tmOf2 (R : RMat K) : TM K := fun a b =>
  match a, b with
  | [x, y], [x', y'] => (fieldOps K).rget R (4 * y.val + x.val) (4 * y'.val + x'.val)
  | _, _ => 0

theorem fieldOps_sum (l : List K) : (fieldOps K).sum l = l.sum := by
  induction l with
  | nil => rfl
  | cons a l ih => simp only [Ops.sum, List.foldr_cons, List.sum_cons] at *; rw [ih]; rfl

/-- the terms of a symbolic basis, evaluated and read as transfer matrices -/
noncomputable def evalTerms (ρ : Nat → K) (b : SBasis) : List (K × TM K × TM K) :=
  (b.coeffs.zip b.maps).map fun cm =>
    (Poly.eval ρ cm.1, tmOf1 ((fieldOps K).seqPtm (cm.2.1.map (evalOp ρ))), tmOf1 ((fieldOps K).seqPtm (cm.2.2.map (evalOp ρ))))

/-- **C02 ⇒ hypothesis of C01**: an exact basis (in the sense of `checkBasis_sound`) makes the cut gate `Exact` -/
theorem exact_of_exactAt (ρ : Nat → K) (target : Kraus Poly) (b : SBasis) (h : ExactAt ρ target b) (qa qb : Nat) (hab : qa ≠ qb) :
    (CGate.cut qa qb (tmOf2 ((fieldOps K).ptm2 (evalKraus ρ target))) (evalTerms ρ b)).Exact := by
  refine ⟨hab, ?_⟩
  intro x y x' y'
  have hx := x.isLt; have hy := y.isLt; have hx' := x'.isLt; have hy' := y'.isLt
  have := h (4 * y.val + x.val) (4 * y'.val + x'.val) (by omega) (by omega)
  simp only [tmOf2]
  rw [this]
  unfold Ops.basisEntry evalTerms
  rw [fieldOps_sum, List.map_map, List.map_map]
  congr 1
  apply List.map_congr_left
  intro cm _
  have e1 : (4 * y.val + x.val) % 4 = x.val := by omega
  have e2 : (4 * y.val + x.val) / 4 = y.val := by omega
  have e3 : (4 * y'.val + x'.val) % 4 = x'.val := by omega
  have e4 : (4 * y'.val + x'.val) / 4 = y'.val := by omega
  simp only [Function.comp_def, tmOf1, e1, e2, e3, e4]
  rfl

end CKT.C01PTM
