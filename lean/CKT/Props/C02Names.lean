import CKT.Props.C02
import CKT.Generated.Names
/-!
# C02 — the table of supported names is the registry of `qpd/decompositions.py`

`Generated/Names.lean` is regenerated on every run from the decorators `@_register_qpdbasis_from_instruction(...)` of the
current source.  The model's `supportedNames` is exactly that list plus the generic KAK path, and every registered name has
a basis that the kernel-checked symbolic computation found exact — so registering, renaming or dropping a name in the
source without the model following is a broken obligation (then the failing-input search decides).
-/
namespace CKT.C02
open CKT CKT.Generated

theorem registered_supported : ∀ n ∈ registeredNames, n ∈ supportedNames := by decide

theorem supported_registered : ∀ n ∈ supportedNames, n = "kak" ∨ n ∈ registeredNames := by decide

theorem registered_nodup : registeredNames.Nodup := by decide

/-- every registered name has a model basis, and that basis is exact (`checkName` is what `checkBasis_sound'` turns into
the statement about real angles / all `u`) -/
theorem registered_exact : ∀ n ∈ registeredNames, checkName n = true := by
  intro n hn
  simp only [registeredNames, List.mem_cons, List.not_mem_nil, or_false] at hn
  rcases hn with rfl | rfl | rfl | rfl | rfl | rfl | rfl | rfl | rfl | rfl | rfl | rfl | rfl | rfl | rfl | rfl | rfl | rfl | rfl | rfl
  · exact check_swap
  · exact check_iswap
  · exact check_dcx
  · exact check_rxx
  · exact check_ryy
  · exact check_rzz
  · exact check_crx
  · exact check_cry
  · exact check_crz
  · exact check_cs
  · exact check_csdg
  · exact check_cp
  · exact check_csx
  · exact check_csxdg
  · exact check_cx
  · exact check_cy
  · exact check_cz
  · exact check_ch
  · exact check_ecr
  · exact check_move

end CKT.C02
